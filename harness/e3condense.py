"""E3 for the cyclic half of C09: stDiGraph._build_condensation_expanded and the weight function stDiGraph.get_width hands to the
minimum flow (compute_max_edge_antichain) against the extracted WalkWidth.condense_model -- the objects the theorem
C09_min_walk_cover_equals_condensation_width is about.  Inputs of the model are networkx' condensation as the code holds it
(mapping, C.nodes(), C.edges(); validated per instance by the verified checker of C17) and the ignore list; compared are the edge set
of the expanded condensation up to the renaming "c" -> 2c, "c_expanded" -> 2c+1 and the weight of every edge.  Also checked on the
implementation's object: the s-t wrapper of the expanded condensation attaches its source only to the component of the graph's
source and its sink only to (the out-copy of) the component of the graph's sink, with weight 0 -- so that its source-to-sink paths
are the paths the theorem speaks about."""
import common, gen, gen_scc


def _hid(name):
    name = str(name)
    return 2 * int(name[:-len("_expanded")]) + 1 if name.endswith("_expanded") else 2 * int(name)


def run_condense_e3(ctx, n, engine="E3_condensation_expanded"):
    import flowpaths as fp
    reqs = []; cases = []; preqs = []
    for i in range(n):
        rng = ctx.rng("condense", i)
        if rng.random() < 0.5:
            G = gen.rand_cyclic(rng, nmax=rng.choice([3, 4, 5, 6]))
        else:
            G = gen_scc.rand_dag_with_cycles(rng, gen.rand_dag, nmax=rng.choice([4, 6, 8]))
        if G is None or G.number_of_edges() == 0:
            ctx.count(engine, "generator_gave_no_graph"); continue
        try:
            st = fp.stDiGraph(G)
        except Exception as e:
            ctx.report(f"stDiGraph raised {e!r}", {"engine": engine, "edges": [[str(u), str(v)] for u, v in G.edges()]}); continue
        es = list(st.edges())
        ids = {v: j for j, v in enumerate(st.nodes())}
        r = rng.random()
        if r < 0.2:
            ign = []
        else:
            ign = [e for e in es if rng.random() < rng.choice([0.15, 0.4])]
            if rng.random() < 0.5:
                ign = list(dict.fromkeys(ign + list(st.source_sink_edges)))
            if rng.random() < 0.3:                      # a whole component ignored
                for comp in gen_scc_components(st):
                    if rng.random() < 0.5:
                        ign = list(dict.fromkeys(ign + comp))
        C = st._condensation; mapping = C.graph["mapping"]
        H = st._condensation_expanded
        captured = {}
        orig = H.compute_max_edge_antichain
        def hook(get_antichain=False, weight_function=None, _o=orig, _c=captured):
            _c["wf"] = dict(weight_function) if weight_function is not None else None
            return _o(get_antichain=get_antichain, weight_function=weight_function)
        H.compute_max_edge_antichain = hook
        st.condensation_width = None                    # as on a fresh object: no cached answer
        rep = {"engine": engine, "edges": [[str(u), str(v)] for u, v in es], "ignore": [[str(u), str(v)] for u, v in ign]}
        try:
            width = st.get_width(edges_to_ignore=list(ign))
        except Exception as e:
            ctx.report(f"get_width raised {e!r}", rep); continue
        finally:
            H.compute_max_edge_antichain = orig
        wf = captured.get("wf")
        if wf is None:
            ctx.report("get_width did not hand a weight function to the minimum flow of the expanded condensation", rep); continue
        inner = [(u, v) for u, v in H.edges() if u != H.source and v != H.sink]
        outer = [(u, v) for u, v in H.edges() if u == H.source or v == H.sink]
        impl = sorted((_hid(u), _hid(v), int(wf.get((u, v), 0))) for u, v in inner)
        rep.update(width=width, expanded=[[str(u), str(v), int(wf.get((u, v), 0))] for u, v in inner])
        # the wrapper's own source / sink edges
        cs = str(mapping[st.source]); ct = str(mapping[st.sink])
        tl = ct + "_expanded" if (ct, ct + "_expanded") in H.edges() else ct
        if sorted(H.successors(H.source)) != [cs] or sorted(H.predecessors(H.sink)) != [tl] or any(wf.get(e, 0) != 0 for e in outer):
            ctx.report("the s-t wrapper of the expanded condensation is not attached only to the components of the graph's source and sink "
                       "with weight 0", dict(rep, outer=[[str(u), str(v), wf.get((u, v), 0)] for u, v in outer]))
            ctx.count(engine, "property_failures"); continue
        import networkx as nx
        cn = list(nx.topological_sort(C)); cE = list(C.edges())
        preqs.append("condensepremises " + common.toks(len(ids), list(ids.values()), len(es), [[ids[u], ids[v]] for u, v in es],
                                                        len(ids), [[ids[v], mapping[v]] for v in ids], len(cn), cn,
                                                        len(cE), [[a, b] for a, b in cE], ids[st.source], ids[st.sink]))
        reqs.append("condense " + common.toks(len(es), [[ids[u], ids[v]] for u, v in es], len(ids), [[ids[v], mapping[v]] for v in ids],
                                              len(cn), cn, len(cE), [[a, b] for a, b in cE], len(ign), [[ids[u], ids[v]] for u, v in ign]))
        cases.append((rep, impl))
    outs = ctx.model.run(reqs) if reqs else []
    pouts = ctx.model.run(preqs) if preqs else []
    for (rep, impl), out, pout in zip(cases, outs, pouts):
        ctx.count(engine, "cases")
        if pout.strip() == "1":
            ctx.count(engine, "theorem_premises_hold")
        else:
            ctx.report("the premises of C09_min_walk_cover_equals_condensation_width (networkx' condensation accepted by the verified checker, "
                       "duplicate-free edges, every edge between source and sink) do not hold on this instance", rep, concrete=False)
        tv = out.split(); m = int(tv[0])
        model = sorted((int(tv[1 + 3 * j]), int(tv[2 + 3 * j]), int(tv[3 + 3 * j])) for j in range(m))
        if model == impl:
            ctx.count(engine, "agreements")
            if any(w >= 2 for _, _, w in impl): ctx.count(engine, "with_parallel_edges_between_components")
            if any(w == 0 for _, _, w in impl): ctx.count(engine, "with_zero_weight")
        else:
            ctx.count(engine, "disagreements")
            ctx.report("E3 correspondence broken: the expanded condensation / the weights of get_width differ from WalkWidth.condense_model",
                       dict(rep, model=[list(x) for x in model], implementation=[list(x) for x in impl]), concrete=False)
        ctx.case(["condense", rep["edges"], rep["ignore"]], nontrivial=len(impl) >= 3)


def gen_scc_components(st):
    import networkx as nx
    out = []
    for comp in nx.strongly_connected_components(st):
        es = [(u, v) for u, v in st.edges() if u in comp and v in comp]
        if es: out.append(es)
    return out
