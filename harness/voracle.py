"""The VERIFIED exhaustive oracle for path covers (coq/theories/CoverOracle.v, theorem min_cover_correct), extracted and run
through the model driver: least number of source-to-sink paths of the s-t graph that cover every non-ignored edge and realise
every subpath constraint (edge-count or length coverage), or None if none with <= kmax paths exists."""
import common, e1


def min_cover(ctx, G, ignore=(), starts=(), ends=(), cons=(), coverage=1.0, lengths=None, kmax=5, max_paths=28):
    import flowpaths as fp, networkx as nx
    st = fp.stDAG(G, additional_starts=list(starts), additional_ends=list(ends))
    # size guard: the enumeration is exponential in the number of source-to-sink paths
    npaths = {}
    for v in reversed(list(nx.topological_sort(st))):
        npaths[v] = 1 if v == st.sink else sum(npaths[w] for w in st.successors(v))
    if npaths[st.source] > max_paths:
        return "too-large"
    ids = e1.ids_of(st)
    t = e1.graph_tokens(st, ids) + [0, False]
    cons = [list(map(tuple, c)) for c in cons]
    t += [len(cons), [[len(c), [[ids[u], ids[v]] for (u, v) in c]] for c in cons]]
    if lengths is None:
        t += common.qtok(coverage) + [0]
    else:
        es = list(st.edges())
        t += common.qtok(coverage) + [1, len(es), [[ids[u], ids[v]] + common.qtok(lengths.get((u, v), 1)) for u, v in es]]
    ign = list(dict.fromkeys(list(map(tuple, ignore)) + list(st.source_sink_edges)))
    t += [len(ign), [[ids[u], ids[v]] for u, v in ign], kmax]
    out = ctx.model.run(["covermin " + common.toks(t)])[0].strip()
    ctx.count("verified_cover_oracle", "calls")
    return None if out == "none" else int(out)
