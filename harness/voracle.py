"""The VERIFIED exhaustive oracle for path covers (coq/theories/CoverOracle.v, theorem min_cover_correct), extracted and run
through the model driver: least number of source-to-sink paths of the s-t graph that cover every non-ignored edge and realise
every subpath constraint (edge-count or length coverage), or None if none with <= kmax paths exists."""
import common, e1


def min_cover(ctx, G, ignore=(), starts=(), ends=(), cons=(), coverage=1.0, lengths=None, kmax=5, max_paths=28):
    import flowpaths as fp, networkx as nx
    st = fp.stDAG(G, additional_starts=list(starts), additional_ends=list(ends))
    # size guard: the enumeration is exponential in the number of source-to-sink paths
    npaths = {}
    for v in reversed(list(nx.topological_sort(st))):
        npaths[v] = 1 if v == st.sink else sum(npaths[w] for w in st.successors(v))
    if npaths[st.source] > max_paths:
        return "too-large"
    ids = e1.ids_of(st)
    t = e1.graph_tokens(st, ids) + [0, False]
    cons = [list(map(tuple, c)) for c in cons]
    t += [len(cons), [[len(c), [[ids[u], ids[v]] for (u, v) in c]] for c in cons]]
    if lengths is None:
        t += common.qtok(coverage) + [0]
    else:
        es = list(st.edges())
        t += common.qtok(coverage) + [1, len(es), [[ids[u], ids[v]] + common.qtok(lengths.get((u, v), 1)) for u, v in es]]
    ign = list(dict.fromkeys(list(map(tuple, ignore)) + list(st.source_sink_edges)))
    t += [len(ign), [[ids[u], ids[v]] for u, v in ign], kmax]
    out = ctx.model.run(["covermin " + common.toks(t)])[0].strip()
    ctx.count("verified_cover_oracle", "calls")
    return None if out == "none" else int(out)


def min_fd(ctx, G, attr, ignore=(), starts=(), ends=(), cons=(), coverage=1.0, lengths=None, kmax=4, max_paths=24):
    """VERIFIED exhaustive oracle for INTEGER flow decompositions (coq/theories/FlowOracle.v, theorem min_fd_correct): least
    number of weighted source-to-sink paths (non-negative integer weights) explaining the flow on every non-ignored edge and
    realising every subpath constraint; None if none with <= kmax paths; "too-large" / "not-integer" when outside its domain."""
    import flowpaths as fp, networkx as nx
    from fractions import Fraction
    st = fp.stDAG(G, additional_starts=list(starts), additional_ends=list(ends))
    npaths = {}
    for v in reversed(list(nx.topological_sort(st))):
        npaths[v] = 1 if v == st.sink else sum(npaths[w] for w in st.successors(v))
    if npaths[st.source] > max_paths:
        return "too-large"
    ids = e1.ids_of(st)
    ign = list(dict.fromkeys(list(map(tuple, ignore)) + list(st.source_sink_edges) +
                             [(u, v) for u, v in st.edges() if attr not in st[u][v]]))
    flows = [(u, v, st[u][v][attr]) for u, v in st.edges() if attr in st[u][v] and (u, v) not in set(ign)]
    if any(Fraction(x) != int(x) or x < 0 for _, _, x in flows):
        return "not-integer"
    wmax = max([int(x) for _, _, x in flows] + [0])
    t = e1.graph_tokens(st, ids) + [0, False]
    cons = [list(map(tuple, c)) for c in cons]
    t += [len(cons), [[len(c), [[ids[u], ids[v]] for (u, v) in c]] for c in cons]]
    if lengths is None:
        t += common.qtok(coverage) + [0]
    else:
        es = list(st.edges())
        t += common.qtok(coverage) + [1, len(es), [[ids[u], ids[v]] + common.qtok(lengths.get((u, v), 1)) for u, v in es]]
    t += [len(flows), [[ids[u], ids[v]] + common.qtok(int(x)) for u, v, x in flows]]
    t += [len(ign), [[ids[u], ids[v]] for u, v in ign]] + common.qtok(wmax) + [True, kmax]
    out = ctx.model.run(["fdmin " + common.toks(t)])[0].strip()
    ctx.count("verified_flow_oracle", "calls")
    return None if out == "none" else int(out)
