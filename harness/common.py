"""Shared machinery of the /verif checks: build, Coq obligations, model driver, evidence,
known findings, violation reporting.  Run with /venv/bin/python, PYTHONPATH=/repo."""
import fcntl, hashlib, json, os, random, re, subprocess, sys, time, warnings

ROOT = os.path.dirname(os.path.dirname(os.path.abspath(__file__)))
OUT = os.environ.get("VERIF_OUT", ROOT)     # development only: mutation runs write evidence/replays elsewhere
COQ = os.path.join(ROOT, "coq")
FPMODEL = os.path.join(COQ, "driver", "fpmodel")
REPO = os.environ.get("VERIF_REPO", "/repo")

warnings.filterwarnings("ignore")


def setup_env():
    """Import flowpaths from the working tree of /repo, never from a cached copy."""
    if sys.path[0] != REPO:
        sys.path.insert(0, REPO)
    os.environ.setdefault("PYTHONHASHSEED", "0")
    os.environ.setdefault("PIP_NO_INDEX", "1")
    import logging
    logging.disable(logging.CRITICAL)


# ----------------------------------------------------------------------------- build
def ensure_built():
    """Full (incremental) build of the Coq development, extraction and driver, under a lock."""
    os.makedirs(os.path.join(ROOT, "work"), exist_ok=True)
    with open(os.path.join(ROOT, "work", "build.lock"), "w") as lk:
        fcntl.flock(lk, fcntl.LOCK_EX)
        p = subprocess.run([os.path.join(ROOT, "setup.sh")], capture_output=True, text=True)
        return p.returncode == 0, (p.stdout + p.stderr)[-4000:]


FORBIDDEN = re.compile(
    r"\b(Admitted|admit|Axiom|Axioms|Parameter|Parameters|Conjecture|Conjectures|Admit Obligations|"
    r"Unset Guard Checking|Unset Positivity Checking|Unset Universe Checking|bypass_check|type-in-type|impredicative-set)\b")


def strip_coq_comments(s):
    out = []; depth = 0; i = 0
    while i < len(s):
        if s.startswith("(*", i):
            depth += 1; i += 2
        elif s.startswith("*)", i) and depth:
            depth -= 1; i += 2
        else:
            if not depth:
                out.append(s[i])
            i += 1
    return "".join(out)


def forbidden_scan():
    """Forbidden vernacular anywhere in the development (comments stripped).  A `Variable` or
    `Hypothesis` outside a Section would be reported by Print Assumptions as an axiom."""
    hits = []
    for d, _, fs in os.walk(os.path.join(COQ, "theories")):
        for f in fs:
            if f.endswith(".v"):
                txt = strip_coq_comments(open(os.path.join(d, f)).read())
                for m in FORBIDDEN.finditer(txt):
                    hits.append(f"{os.path.relpath(os.path.join(d, f), COQ)}: {m.group(0)}")
    return hits


def coq_obligations(pid, _skip_extra=False):
    """Re-check theories/Props/<pid>.v with coqc (the kernel re-checks every property theorem
    of the file on every run) and pair each `Print Assumptions` with what it printed."""
    import glob
    src = os.path.join(COQ, "theories", "Props", pid + ".v")
    res = {"file": os.path.relpath(src, ROOT), "theorems": [], "ok": False, "log": ""}
    if not os.path.exists(src):
        res["log"] = "no property file"
        return res
    extra = sorted(glob.glob(os.path.join(COQ, "theories", "Props", pid + "_*.v")))
    if extra and not _skip_extra:
        # further property files of the same property (e.g. Props/C01_walk.v): checked the same way and merged
        parts = [coq_obligations(pid, _skip_extra=True)] + [_obligations_of(f) for f in extra]
        out = parts[0]
        for q in parts[1:]:
            out["theorems"] += q["theorems"]; out["ok"] = out["ok"] and q["ok"]; out["log"] += q["log"][-500:]
            out.setdefault("examples", []); out["examples"] += q.get("examples", [])
            out.setdefault("unprinted", []); out["unprinted"] += q.get("unprinted", [])
            out["file"] += " + " + q["file"]
        return out
    return _obligations_of(src)


def _obligations_of(src):
    pid = os.path.basename(src)[:-2]
    res = {"file": os.path.relpath(src, ROOT), "theorems": [], "ok": False, "log": ""}
    txt = strip_coq_comments(open(src).read())
    names = re.findall(r"Print Assumptions\s+([A-Za-z0-9_']+)\s*\.", txt)
    stated = re.findall(r"\b(?:Theorem|Corollary|Lemma)\s+([A-Za-z0-9_']+)", txt)
    examples = re.findall(r"\bExample\s+([A-Za-z0-9_']+)", txt)
    t0 = time.time()
    p = subprocess.run(["timeout", "900", "coqc", "-Q", "theories", "FP", "-w", "-all",
                        os.path.join("theories", "Props", pid + ".v")], cwd=COQ, capture_output=True, text=True)
    res["coqc_s"] = round(time.time() - t0, 2)
    out = p.stdout
    res["log"] = (p.stdout + p.stderr)[-3000:]
    if p.returncode != 0:
        return res
    # split the output into one chunk per Print Assumptions
    chunks = re.split(r"(?m)^(?=Closed under the global context|Axioms:|Section Variables:)", out)
    chunks = [c.strip() for c in chunks if c.strip()]
    # a "Section Variables:" chunk may be followed by an "Axioms:" chunk of the same theorem
    merged = []
    for c in chunks:
        if c.startswith("Axioms:") and merged and merged[-1].startswith("Section Variables:"):
            merged[-1] += "\n" + c
        else:
            merged.append(c)
    theorems = []
    for i, n in enumerate(names):
        a = merged[i] if i < len(merged) else "<no output>"
        theorems.append({"theorem": n, "closed": a.startswith("Closed under the global context"),
                         "assumptions": a})
    res["theorems"] = theorems
    res["stated"] = stated
    res["examples"] = examples
    res["unprinted"] = [n for n in stated if n not in names]
    res["ok"] = bool(theorems) and len(merged) == len(names) and not res["unprinted"]
    return res


# Axioms of the standard library that the brief allows, if a theorem ever depends on one
ALLOWED_AXIOMS = ("functional_extensionality_dep", "classic", "proof_irrelevance", "JMeq_eq", "Eqdep.Eq_rect_eq.eq_rect_eq",
                  "ClassicalDedekindReals", "FunctionalExtensionality", "constructive_indefinite_description", "propositional_extensionality")


def assumptions_acceptable(th):
    if th["closed"]:
        return True
    lines = [l.strip() for l in th["assumptions"].splitlines()[1:] if l.strip() and not l.startswith(" " * 4)]
    names = [l.split(":")[0].strip() for l in lines if ":" in l]
    return bool(names) and all(any(a in n for a in ALLOWED_AXIOMS) for n in names)


# ----------------------------------------------------------------------------- model driver
class Model:
    """Batch interface to the extracted model: one request line in, one response out."""

    def run(self, lines, multiline=False):
        if not lines:
            return []
        p = subprocess.run([FPMODEL], input="\n".join(lines) + "\n", capture_output=True, text=True)
        out = p.stdout.splitlines()
        if p.returncode != 0 and not out:
            raise RuntimeError("fpmodel failed: " + p.stderr[-500:])
        if not multiline:
            if len(out) != len(lines):
                raise RuntimeError(f"fpmodel: {len(lines)} requests, {len(out)} responses; stderr={p.stderr[-300:]}")
            return out
        res = []; cur = []
        for l in out:
            if l == "END" or l.startswith("ERROR"):
                if l.startswith("ERROR"):
                    cur.append(l)
                res.append(cur); cur = []
            else:
                cur.append(l)
        if len(res) != len(lines):
            raise RuntimeError(f"fpmodel: {len(lines)} requests, {len(res)} multi-line responses; stderr={p.stderr[-300:]}")
        return res


def toks(*xs):
    """Flatten nested ints / lists into the token string of one request."""
    out = []
    def rec(x):
        if isinstance(x, (list, tuple)):
            for y in x:
                rec(y)
        elif isinstance(x, bool):
            out.append("1" if x else "0")
        else:
            out.append(str(x))
    rec(xs)
    return " ".join(out)


def qtok(x):
    """A number as exact rational numerator / denominator tokens (floats are converted exactly)."""
    from fractions import Fraction
    f = Fraction(x)
    return [f.numerator, f.denominator]


def jsonable(x):
    """Recursively make a value JSON-serialisable (tuple keys -> str, sets -> sorted lists, ...)."""
    if isinstance(x, dict):
        return {(k if isinstance(k, (str, int, float, bool)) or k is None else str(k)): jsonable(v) for k, v in x.items()}
    if isinstance(x, (list, tuple)):
        return [jsonable(v) for v in x]
    if isinstance(x, (set, frozenset)):
        return sorted((jsonable(v) for v in x), key=repr)
    if isinstance(x, (str, int, float, bool)) or x is None:
        return x
    return str(x)


# ----------------------------------------------------------------------------- context
class Ctx:
    def __init__(self, pid, tier, seed):
        self.pid = pid; self.tier = tier; self.seed = seed
        self.t0 = time.time()
        self.model = Model()
        self.violations = []      # dicts with replay path
        self.known_hits = {}      # key -> text
        self.engines = {}         # engine name -> dict(counts)
        self.samples = []
        self.evaluations = 0
        self.nontrivial = set()
        self.distribution = {}
        self.notes = []
        self.rule = ""
        kf = os.path.join(ROOT, "known_findings.json")
        self.known = json.load(open(kf)) if os.path.exists(kf) else []

    def rng(self, stream, n=0):
        return random.Random(f"{self.seed}:{self.pid}:{stream}:{n}")

    def budget(self, quick, thorough):
        b = thorough if self.tier == "thorough" else quick
        scale = float(os.environ.get("VERIF_SCALE", "1"))
        return max(1, int(b * scale))

    def count(self, engine, key, n=1):
        self.engines.setdefault(engine, {}).setdefault(key, 0)
        self.engines[engine][key] += n

    def dist(self, key, n=1):
        self.distribution[key] = self.distribution.get(key, 0) + n

    def case(self, canon, nontrivial=True, sample=None):
        """Register one evaluated case; canon = canonical (hashable/jsonable) form."""
        self.evaluations += 1
        if nontrivial:
            self.nontrivial.add(hashlib.sha1(json.dumps(jsonable(canon), sort_keys=True, default=str).encode()).hexdigest())
        if sample is not None and len(self.samples) < 6:
            self.samples.append(jsonable(sample))

    # -- findings ---------------------------------------------------------------
    def open_finding(self, key):
        for k in self.known:
            if k.get("property") == self.pid and k.get("key") == key and k.get("status") == "open":
                return k
        return None

    def report(self, what, replay, key=None, concrete=True):
        """A property failure on a concrete input (concrete=True) or a broken obligation /
        correspondence without a failing input (concrete=False).  If `key` names an open entry of
        known_findings.json the observation is an instance of that finding."""
        if key is not None:
            k = self.open_finding(key)
            if k is not None:
                if key not in self.known_hits:
                    self.known_hits[key] = k.get("what", what)
                self.count("known_findings", key)
                return
        # keep the output readable: at most 8 concrete and 4 correspondence-only reports per run
        if sum(1 for v in self.violations if v["concrete"] == concrete) >= (8 if concrete else 4):
            self.count("suppressed_reports", "concrete" if concrete else "correspondence")
            return
        d = os.path.join(OUT, "replays", self.pid)
        os.makedirs(d, exist_ok=True)
        body = jsonable({"property": self.pid, "what": what, "concrete_failing_input": concrete, "key": key, "replay": replay,
                         "seed": self.seed, "tier": self.tier})
        h = hashlib.sha1(json.dumps(body, sort_keys=True, default=str).encode()).hexdigest()[:12]
        path = os.path.join(d, h + ".json")
        json.dump(body, open(path, "w"), indent=1, default=str)
        self.violations.append({"path": path, "concrete": concrete, "what": what})

    # -- finish -----------------------------------------------------------------
    def finish(self, obligations, level="proof", assumptions=None, trusted=None, explanation=""):
        if level not in ("exploration", "fault_enumeration", "model_checking", "proof", "translation_validation", "other"):
            self.notes.append({"level_as_written_by_engine": level}); level = "proof" if level.startswith("proof") else "other"
        ths = obligations.get("theorems", [])
        n_obl = len(ths)
        n_dis = sum(1 for t in ths if assumptions_acceptable(t))
        cov = {
            "obligations": n_obl, "discharged": n_dis,
            "checker_cmd": "cd /verif/coq && make (full .vo build of theories/) && coqc -Q theories FP theories/Props/%s.v  [Print Assumptions per theorem]" % self.pid,
            "trusted_base": trusted or [],
            "theorems": [{"name": t["theorem"], "assumptions": t["assumptions"][:400]} for t in ths],
            "nonvacuity_examples": obligations.get("examples", []),
            "evaluations": self.evaluations,
            "distinct_nontrivial": len(self.nontrivial),
            "rule": self.rule,
            "samples": self.samples or ["(no correspondence cases were run)"],
            "engines": self.engines,
            "input_distribution": self.distribution,
            "known_finding_hits": self.known_hits,
            "explanation": explanation,
            "notes": self.notes,
            "solver_second_opinion": {"infeasible_models_resolved_with_other_presolve": SECOND_OPINION["runs"],
                                      "reported_infeasible_but_solved_by_the_other_run": SECOND_OPINION["overturned"]},
        }
        ev = {"property_id": self.pid, "tier": self.tier, "seed": self.seed, "level": level, "coverage": cov,
              "assumptions": assumptions or [], "wall_s": round(time.time() - self.t0, 2),
              "violations": len(self.violations)}
        os.makedirs(os.path.join(OUT, "evidence"), exist_ok=True)
        json.dump(ev, open(os.path.join(OUT, "evidence", self.pid + ".json"), "w"), indent=1, default=str)
        for key, what in self.known_hits.items():
            print(f"KNOWN-FINDING: property={self.pid} {key}: {what}")
        have_concrete = any(v["concrete"] for v in self.violations)
        for v in sorted(self.violations, key=lambda v: not v["concrete"]):
            if have_concrete and not v["concrete"]:
                continue        # a failing input was found: the broken correspondence is explained by it
            tail = "" if v["concrete"] else " no-failing-input-found"
            print(f"VIOLATION property={self.pid} replay={v['path']}{tail}")
        print(f"[{self.pid}] tier={self.tier} seed={self.seed} obligations={n_dis}/{n_obl} evaluations={self.evaluations} "
              f"distinct_nontrivial={len(self.nontrivial)} violations={len(self.violations)} wall={ev['wall_s']}s")
        for e, c in self.engines.items():
            print(f"   {e}: {c}")
        return 1 if self.violations else 0


TRUSTED_COMMON = [
    "Coq 8.16.1 kernel (coqc); vm_compute only inside non-vacuity Examples / _refuted witnesses; no native_compute",
    "no Axiom/Parameter/Admitted in the development (scanned on every run); Print Assumptions output recorded per theorem; coqchk -o over Props/ (coqchk_summary.txt) succeeds and lists only axioms of LOADED standard-library files (functional_extensionality_dep, ClassicalDedekindReals.sig_not_dec / sig_forall_dec via Lra/Reals), on which no theorem depends",
    "extraction: Require Extraction + ExtrOcamlBasic only (bool, option, list, prod, unit, sumbool -> OCaml's); no Extract Constant / Extract Inductive of our own; nat, N, Z, positive, Q stay extracted inductives; OCaml 4.13.1",
    "driver coq/driver/fpmodel.ml + main.ml (parsing/printing only)",
    "harness (generators, serialisation of the LP read back through highspy.getLp, diffing) under /verif/harness; for the encoders that offer it the LP comparison is decided by the extracted verified checker LinEquiv.milp_equiv_b, the Python diff then only explains a rejection",
    "CPython 3.12 / networkx 3.6.1 / HiGHS 1.15.1 as execution platform of the implementation",
    "HiGHS is assumed to answer correctly (optimal / infeasible mean what they say); its presolve was observed to violate this (feasible models reported infeasible), so the harness runs the library with SolverWrapper.presolve = 'off' (the class default the library documents; VERIF_PRESOLVE overrides)",
]


def solver_artifact(ctx, build, good):
    """A result that contradicts the property may come from the SOLVER answering wrongly (HiGHS 1.15.1's presolve has been seen
    to report a feasible MILP infeasible -- DESIGN 10.4).  `build(extra_solver_options)` constructs and solves the same instance
    again; if with presolve OFF the result satisfies `good`, the deviation is a failure of the solver specification every
    statement here is relative to: it is counted in the evidence (solver_specification) and not reported against flowpaths."""
    try:
        m2 = build({"presolve": "off"})
        if good(m2):
            ctx.count("solver_specification", "result_wrong_only_with_presolve_on"); return True
    except Exception:
        pass
    return False


SECOND_OPINION = {"runs": 0, "overturned": 0}


def install_second_opinion():
    """Wrap flowpaths' SolverWrapper.optimize (from outside, no change to /repo): when HiGHS reports a model infeasible, solve it
    again with the other presolve setting; if that run finds an optimal solution, the model is feasible and that solution is
    what the library sees.  Counts are written into every evidence file (solver_specification)."""
    if os.environ.get("VERIF_SECOND_OPINION", "1") == "0":
        return
    try:
        import flowpaths.utils.solverwrapper as sw
    except Exception:
        return
    SW = sw.SolverWrapper
    if getattr(SW, "_verif_second_opinion", False):
        return
    orig = SW.optimize

    def optimize(self):
        orig(self)
        try:
            if getattr(self, "external_solver", None) != "highs" or getattr(self, "did_timeout", False):
                return
            h = self.solver
            if h.getModelStatus().name != "kInfeasible":
                return
            cur = h.getOptionValue("presolve")[1]
            other = "off" if cur != "off" else "choose"
            SECOND_OPINION["runs"] += 1
            h.setOptionValue("presolve", other)
            h.clearSolver()
            h.optimize()
            h.setOptionValue("presolve", cur)
            if h.getModelStatus().name == "kOptimal":
                SECOND_OPINION["overturned"] += 1
        except Exception:
            pass

    SW.optimize = optimize
    SW._verif_second_opinion = True
