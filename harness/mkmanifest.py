#!/venv/bin/python
"""Regenerates MANIFEST.json from the table below (kept in one place so it stays valid)."""
import json, os
ROOT = os.path.dirname(os.path.dirname(os.path.abspath(__file__)))
ALL = ["C%02d" % i for i in range(1, 21)]

CLAIMS = {}
for f in sorted(os.listdir(os.path.join(ROOT, "harness", "claims"))):
    if f.endswith(".json"):
        CLAIMS[f[:-5]] = json.load(open(os.path.join(ROOT, "harness", "claims", f)))
NOT_YET = {}
nf = os.path.join(ROOT, "harness", "claims", "not_claimed.txt")
if os.path.exists(nf):
    for line in open(nf):
        if ":" in line:
            k, v = line.split(":", 1); NOT_YET[k.strip()] = v.strip()

def main():
    checks = []
    for pid in ALL:
        if pid not in CLAIMS: continue
        c = CLAIMS[pid]
        assert c["category"] in ("exploration", "fault_enumeration", "model_checking", "proof", "translation_validation", "other"), (pid, c["category"])
        checks.append({
            "property_id": pid,
            "quick_cmd": f"./check {pid}",
            "thorough_cmd": f"./check {pid} --thorough",
            "evidence_file": f"/verif/evidence/{pid}.json",
            "replay_cmd_template": "./check --replay {path}",
            "engine": "coq+" + pid.lower(),
            "level_claimed": {"category": c["category"], "text": c["text"], "design_ref": c["design_ref"]},
            "level_note": c["note"],
            "technique": c["technique"],
        })
    na = [{"property_id": p, "reason": NOT_YET.get(p, "check not built yet in this round; planned, see DESIGN.md §5")} for p in ALL if p not in CLAIMS]
    m = {
        "version": 1,
        "setup_cmd": "./setup.sh",
        "hooks": {"guard": "FLOWPATHS_VERIF", "enable": "none needed: the harness wraps SolverWrapper / highspy from outside; no guarded code in /repo",
                  "baseline_off_cmd": "cd /repo && /venv/bin/python -m pytest -ra -q -p no:cacheprovider --timeout=900 --continue-on-collection-errors",
                  "source_commits": [], "add_only": True},
        "engines": [
            {"name": "coq", "path": "coq/theories", "serves_properties": sorted(CLAIMS), "kind_free_text": "Coq 8.16 development: executable Gallina models + theorems; Props/Cxx.v hold the property theorems"},
            {"name": "fpmodel", "path": "coq/driver", "serves_properties": sorted(CLAIMS), "kind_free_text": "OCaml driver around the extracted model, used by the correspondence engines"},
            {"name": "harness", "path": "harness", "serves_properties": sorted(CLAIMS), "kind_free_text": "Python correspondence engines (E1 LP structure, E2 verified checkers/oracles, E3 exact outputs, E4 histories)"},
            {"name": "translator", "path": "harness/translate.py", "serves_properties": ["C01", "C02", "C10", "C12", "C17", "C19"], "kind_free_text": "fail-closed Python-ast -> Gallina translator: models of selected functions are REGENERATED from /repo's source on every run; proof scripts in coq/gen_proofs are compiled against the generated files (DESIGN 10.7)"},
        ],
        "checks": checks,
        "not_applicable": na,
        "notes": "See DESIGN.md. Each check: full incremental make of the Coq development, re-check of Props/<id>.v with Print Assumptions, then correspondence of the extracted model with /repo's working tree.",
    }
    json.dump(m, open(os.path.join(ROOT, "MANIFEST.json"), "w"), indent=1)
if __name__ == "__main__":
    main()
