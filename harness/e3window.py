"""E3 for MinFlowDecomp's subgraph-scanning lower bound: graphutils.get_subgraph_between_topological_nodes against the
extracted SubgraphBound.window_subgraph_opt (the function the theorem C05_subgraph_scanning_lower_bound_is_sound is
about) on random DAGs and windows: node list in networkx insertion order, edge list in the graph's edge order, and the
ValueError cases (left < 0, right >= len(topo), left > right).  Also checked directly on the implementation's output:
every edge with an endpoint in topo[left:right] is present and nothing else (the definition the theorem uses)."""
import networkx as nx
import common, gen


def run_window_e3(ctx, n, engine="E3_window_subgraph"):
    from flowpaths.utils import graphutils as gu
    reqs = []; cases = []
    for i in range(n):
        rng = ctx.rng("window", i)
        G = gen.rand_dag(rng, nmax=rng.choice([3, 5, 7, 8]))
        for v in list(G.nodes())[:1]:
            if rng.random() < 0.3:
                G.add_node("iso")                       # an isolated node may sit in the window
        topo = list(nx.topological_sort(G))
        r = rng.random()
        if r < 0.75:
            left = rng.randint(0, max(0, len(topo) - 2)); right = rng.randint(left, len(topo) - 1)
        elif r < 0.85:
            left = -rng.randint(1, 2); right = rng.randint(0, len(topo) - 1)
        elif r < 0.95:
            left = rng.randint(0, len(topo) - 1); right = len(topo) + rng.randint(0, 1)
        else:
            right = rng.randint(0, len(topo) - 2) if len(topo) > 1 else 0; left = right + rng.randint(1, 2)
        ids = {v: j for j, v in enumerate(G.nodes())}
        es = list(G.edges())
        reqs.append("window " + common.toks(len(topo), [ids[v] for v in topo], left, right, len(es), [[ids[u], ids[v]] for u, v in es]))
        try:
            H = gu.get_subgraph_between_topological_nodes(G, topo, left, right)
            impl = ("OK", [ids[v] for v in H.nodes()], [(ids[u], ids[v]) for u, v in H.edges()])
        except ValueError:
            impl = ("NONE",)
        except Exception as e:
            impl = ("EXC", repr(e))
        cases.append((G, topo, left, right, ids, impl))
    outs = ctx.model.run(reqs) if reqs else []
    for (G, topo, left, right, ids, impl), out in zip(cases, outs):
        ctx.count(engine, "cases")
        rep = {"engine": engine, "edges": [[str(u), str(v)] for u, v in G.edges()], "nodes": [str(v) for v in G.nodes()],
               "topo": [str(v) for v in topo], "left": left, "right": right, "implementation": impl, "model": out}
        if out.startswith("OK"):
            head, tail = out[3:].split("|")
            hv = head.split(); nv = int(hv[0]); mv = [int(x) for x in hv[1:1 + nv]]
            tv = tail.split(); ne = int(tv[0]); me = [(int(tv[1 + 2 * j]), int(tv[2 + 2 * j])) for j in range(ne)]
            model = ("OK", mv, me)
        else:
            model = ("NONE",)
        # the property the theorem needs, directly on the implementation's answer
        if impl[0] == "OK":
            W = {ids[v] for v in topo[left:right]}
            want = sorted((ids[u], ids[v]) for u, v in G.edges() if ids[u] in W or ids[v] in W)
            if sorted(impl[2]) != want or set(impl[1]) != W | {x for e in want for x in e}:
                ctx.report("get_subgraph_between_topological_nodes does not return the window nodes, the edges with an endpoint in the window and their endpoints", rep)
                ctx.count(engine, "property_failures"); continue
        same = (impl[0] == model[0]) and (impl[0] != "OK" or (impl[1] == model[1] and sorted(impl[2]) == sorted(model[2])))
        if same:
            ctx.count(engine, "agreements")
            if impl[0] == "NONE":
                ctx.count(engine, "ValueError_cases")
        else:
            ctx.count(engine, "disagreements")
            ctx.report("E3 correspondence broken: get_subgraph_between_topological_nodes differs from SubgraphBound.window_subgraph_opt", rep, concrete=False)
        ctx.case(["window", rep["edges"], rep["topo"], left, right], nontrivial=impl[0] == "OK" and bool(impl[2]))
