"""gencheck.py — the GENERATED-MODEL tie.

For a few small pure functions the Gallina model is not hand-written: harness/translate.py regenerates it from the
current source on every run (Gen_<name>.v over coq/theories/PyRt.v), the hand-written proof scripts in
coq/gen_proofs/ are compiled against that generated file, and the generated model is run (vm_compute) against the
Python function on random inputs to validate the translator.  If the source is edited so that translation fails
closed, a proof no longer compiles or the correspondence disagrees, the declarative statement of the theorem is
evaluated in Python on random and boundary inputs of the REAL function to find a concrete failing input.

    run_generated(ctx, ["max_occurrence"])                                  (engines/c10.py)
    run_generated(ctx, ["nonneg_check", "check_flow_conservation"])         (engines/c19.py)
"""
import math, os, re, shutil, subprocess, sys, tempfile, time
from fractions import Fraction
import common, translate

PROOFS = {"max_occurrence": "MaxOccurrenceSpec.v", "nonneg_check": "NonNegCheckSpec.v", "check_flow_conservation": "ConservationSpec.v"}
COQC_TIMEOUT = 180
ATTR = "flow"
EXN_CODE = {"ValueError": 0, "KeyError": 1, "TypeError": 2, "RuntimeError": 3}


# ------------------------------------------------------------------------------------------ the real functions
def call_real(name, args):
    """run the Python function of the working tree; outcome in the encoding of PyRt.enc_result"""
    import networkx as nx
    try:
        if name == "max_occurrence":
            from flowpaths.utils import graphutils
            seq, paths, lens = args
            r = graphutils.max_occurrence([tuple(e) for e in seq], [list(p) for p in paths], dict(lens))
            return enc_num(r)
        G = build_nx(args[0])
        if name == "nonneg_check":
            from flowpaths.abstractsourcesinkgraph import AbstractSourceSinkGraph
            ign = None if args[1] is None else set(args[1])
            r = AbstractSourceSinkGraph.get_max_flow_value_and_check_non_negative_flow(G, ATTR, ign)
            if r == float("-inf"): return [0, 1]
            e = enc_num(r)
            return [0, 0] + e[1:] if e[0] == 0 else e
        if name == "check_flow_conservation":
            from flowpaths.utils import graphutils
            r = graphutils.check_flow_conservation(G, ATTR)
            if r is True or r is False: return [0, int(r)]
            return [2] if r is None else ["value", repr(r)]
    except Exception as e:
        return [1, EXN_CODE.get(type(e).__name__, "other:" + type(e).__name__)]
    raise KeyError(name)


def enc_num(r):
    if r is None: return [2]
    if isinstance(r, bool) or not isinstance(r, (int, float, Fraction)) or (isinstance(r, float) and not math.isfinite(r)):
        return ["value", repr(r)]
    f = Fraction(r)
    return [0, f.numerator, f.denominator]


def build_nx(g):
    """g = (nodes, edges [(u, v, value or None)] in insertion order)"""
    import networkx as nx
    G = nx.DiGraph()
    G.add_nodes_from(g[0])
    for (u, v, w) in g[1]:
        if w is None: G.add_edge(u, v)
        else: G.add_edge(u, v, **{ATTR: w})
    return G


# ------------------------------------------------------------------------------------------ the statements, in Python
def on_path(e, p):
    return any(p[i] == e[0] and p[i + 1] == e[1] for i in range(len(p) - 1))


def spec(name, args):
    """the declarative statement of the theorem, evaluated directly (independent of the code under test)"""
    if name == "max_occurrence":
        seq, paths, lens = args; lens = dict(lens)
        best = Fraction(0)
        for p in paths:
            best = max(best, sum((Fraction(lens.get(tuple(e), 1)) for e in seq if on_path(e, p)), Fraction(0)))
        return [0, best.numerator, best.denominator]
    nodes, edges = args[0]
    if name == "nonneg_check":
        ign = set() if args[1] is None else set(args[1])
        live = [w for (u, v, w) in edges if (u, v) not in ign]
        if any(w is None or w < 0 for w in live): return [1, 0]
        if not live: return [0, 1]
        m = max(Fraction(w) for w in live)
        return [0, 0, m.numerator, m.denominator]
    if name == "check_flow_conservation":
        for x in nodes:
            out = [w for (u, v, w) in edges if u == x]; inn = [w for (u, v, w) in edges if v == x]
            if not out or not inn: continue
            if any(w is None for w in out + inn): return [0, 0]
            if sum(map(Fraction, out)) != sum(map(Fraction, inn)): return [0, 0]
        return [0, 1]
    raise KeyError(name)


# ------------------------------------------------------------------------------------------ inputs
VALS = [0, 1, 2, 3, 5, 0.5, 1.75, 4, 7]
NEGS = [-1, -3, -0.25, -2]


def assert_exact(vals):
    """the streams compare Python's float arithmetic with exact rationals: every generated number is an int, or a float with at most 10
    fractional bits and magnitude <= 2^30 (so that every sum the functions form is exactly representable); large magnitudes are ints"""
    for y in vals:
        if y is None or isinstance(y, int): continue
        f = Fraction(y)
        assert abs(f) <= 2 ** 30 and (f * 1024).denominator == 1, ("inexact generator value", y)


def gen_case(name, rng, i):
    """case i: boundary inputs first, then random ones (malformed ones included)"""
    if name == "max_occurrence":
        B = [([(1, 3)], [[1, 2, 3]], []),                       # endpoints visited, edge not traversed
             ([(1, 3), (1, 2)], [[1, 2, 3], [1, 3]], [((1, 2), 2)]),
             ([], [[1, 2]], []), ([(1, 2)], [], []), ([(1, 2)], [[]], []), ([(1, 2)], [[1]], []), ([(2, 1)], [[1, 2]], []),
             ([(1, 2), (1, 2)], [[1, 2]], [((1, 2), 0.5)]), ([(1, 2)], [[1, 2]], [((1, 2), -1)]),
             ([(0, 2), (2, 4)], [[0, 1, 2, 3, 4], [0, 2, 4]], [((0, 2), 3), ((9, 9), 7)]),
             ([(3, 1)], [[3, 2, 1], [1, 3]], [])]
        if i < len(B): return B[i]
        n = rng.randint(2, 6)
        paths = []
        for _ in range(rng.choice([0, 1, 1, 2, 2, 3, 4])):
            if rng.random() < 0.8:
                p = sorted(rng.sample(range(n), rng.randint(0, n)))        # a DAG path
            else:
                p = [rng.randrange(n) for _ in range(rng.randint(0, 6))]    # arbitrary node list
            paths.append(p)
        seq = []
        for _ in range(rng.choice([0, 1, 2, 3, 3, 4, 5])):
            r = rng.random(); ps = [p for p in paths if len(p) >= 2]
            if r < 0.5 and ps:
                p = rng.choice(ps); k = rng.randrange(len(p) - 1); seq.append((p[k], p[k + 1]))
            elif r < 0.8 and ps:
                p = rng.choice(ps); a, b = sorted(rng.sample(range(len(p)), 2)); seq.append((p[a], p[b]))   # visited, maybe not adjacent
            else:
                seq.append((rng.randrange(n), rng.randrange(n)))
        keys = list(dict.fromkeys(seq + [(rng.randrange(n), rng.randrange(n)) for _ in range(2)]))
        lens = [(e, rng.choice(VALS + ([-1] if rng.random() < 0.1 else []))) for e in keys if rng.random() < 0.5]
        assert_exact([x for _, x in lens])
        return (seq, paths, lens)
    if name == "nonneg_check":
        def g(edges): return (sorted({x for e in edges for x in e[:2]}), edges)
        B = [(g([(0, 1, -1), (1, 2, 3)]), None), (g([(0, 1, -1)]), set()), (g([(0, 1, -3), (1, 2, -2), (2, 3, -1)]), None),
             (g([(0, 1, -3), (1, 2, -2), (2, 3, -1), (3, 4, 5)]), None), (g([(0, 1, 2), (1, 2, -1)]), None),
             (g([]), None), (g([]), set()), (g([(0, 1, None)]), None), (g([(0, 1, None), (1, 2, 1)]), {(0, 1)}),
             (g([(0, 1, -1), (1, 2, 4)]), {(0, 1)}), (g([(0, 1, 2), (1, 2, 4)]), {(0, 1), (1, 2)}), (g([(0, 1, 0)]), None),
             (g([(0, 1, 5), (1, 2, 3), (2, 3, 5)]), {(7, 8)}), (g([(0, 1, -1), (1, 2, None)]), {(1, 2)}), (g([(1, 0, 0.5), (0, 1, 1.75)]), None)]
        if i < len(B): return B[i]
        n = rng.randint(1, 5)
        pairs = [(u, v) for u in range(n) for v in range(n)]
        rng.shuffle(pairs)
        pairs = pairs[:rng.randint(0, min(6, len(pairs)))]
        mode = rng.choice(["good", "good", "neg", "missing", "mixed", "negrun"])
        edges = []
        for k, (u, v) in enumerate(pairs):
            w = rng.choice(VALS)
            if mode == "neg" and rng.random() < 0.4: w = rng.choice(NEGS)
            if mode == "missing" and rng.random() < 0.4: w = None
            if mode == "mixed":
                r = rng.random(); w = None if r < 0.2 else (rng.choice(NEGS) if r < 0.4 else w)
            if mode == "negrun": w = -(len(pairs) - k) if k < len(pairs) - 1 or rng.random() < 0.5 else w
            edges.append((u, v, w))
        r = rng.random()
        if r < 0.25: ign = None
        elif r < 0.35: ign = set()
        else:
            ign = {(u, v) for (u, v, w) in edges if rng.random() < (0.5 if (w is None or w < 0) else 0.15)}
            if rng.random() < 0.2: ign.add((rng.randrange(6), rng.randrange(6)))
        assert_exact([w for (_, _, w) in edges])
        return ((list(range(n)), edges), ign)
    if name == "check_flow_conservation":
        big = 10 ** 12
        B = [(([0, 1, 2], [(0, 1, 2), (1, 2, 2)]),), (([0, 1, 2], [(0, 1, 2), (1, 2, 3)]),), (([0, 1, 2], [(0, 1, 2), (1, 2, None)]),),
             (([0, 1], [(0, 1, None)]),), (([], []),), (([0], []),), (([0], [(0, 0, 3)]),), (([0, 1, 2], [(0, 1, big), (1, 2, big + 1)]),),
             (([0, 1, 2], [(0, 1, big + 1), (1, 2, big)]),), (([0, 1, 2, 3], [(0, 2, 10 ** 15), (1, 2, 1), (2, 3, 10 ** 15)]),),
             (([0, 1, 2], [(0, 1, 0.5), (1, 2, 0.5)]),), (([0, 1, 2], [(0, 1, 0), (1, 2, 0)]),), (([2, 1, 0], [(1, 2, 1), (0, 1, 1)]),),
             (([0, 1, 2, 3], [(1, 3, 1), (0, 1, 3), (1, 2, 2)]),), (([0, 1, 2], [(0, 1, None), (1, 2, None)]),),
             (([0, 1, 2], [(0, 1, 10 ** 9), (1, 2, 10 ** 9 + 1)]),)]
        if i < len(B): return B[i]
        n = rng.randint(1, 5)
        nodes = list(range(n)); rng.shuffle(nodes)
        w = {}
        mode = rng.choice(["flow", "flow", "flow", "random", "perturbed", "missing", "big"])
        scale = rng.choice([1, 1, 0.25, 10 ** 10]) if mode != "big" else 10 ** rng.randint(9, 15)
        if mode == "random":
            for _ in range(rng.randint(0, 7)):
                w[(rng.randrange(n), rng.randrange(n))] = rng.choice(VALS)
        else:      # superposition of walks: conserved at every inner node
            for _ in range(rng.randint(1, 3)):
                p = [rng.randrange(n) for _ in range(rng.randint(2, 5))] if rng.random() < 0.3 else sorted(rng.sample(range(n), rng.randint(1, n)))
                x = rng.choice([1, 2, 3, 5]) * scale
                for a, b in zip(p, p[1:]):
                    w[(a, b)] = w.get((a, b), 0) + x
        edges = list(w.items()); rng.shuffle(edges)
        edges = [(u, v, x) for ((u, v), x) in edges]
        if edges and mode in ("perturbed", "big") and rng.random() < 0.8:
            k = rng.randrange(len(edges)); u, v, x = edges[k]
            # large magnitudes stay integers (Python ints are exact); a fractional part only where every sum the function forms is exactly representable
            big_vals = any(abs(y) > 2 ** 30 for (_, _, y) in edges if y is not None)
            edges[k] = (u, v, x + (rng.choice([1, 1, 2]) if big_vals else rng.choice([1, 1, 2, 0.5])))
        assert_exact([y for (_, _, y) in edges])
        if edges and mode == "missing":
            k = rng.randrange(len(edges)); u, v, x = edges[k]; edges[k] = (u, v, None)
        return ((nodes, edges),)
    raise KeyError(name)


# ------------------------------------------------------------------------------------------ Coq literals
def cN(n): return "%d%%N" % n
def cQ(x):
    f = Fraction(x); return "(%d # %d)%%Q" % (f.numerator, f.denominator)
def cE(e): return "(%s, %s)" % (cN(e[0]), cN(e[1]))
def cL(xs): return "[" + "; ".join(xs) + "]"
def cD(d): return "(%s, %s, %s)" % (cN(d[0]), cN(d[1]), "None" if d[2] is None else "(Some %s)" % cQ(d[2]))


def graph_literal(g):
    """list(G.nodes()), list(G.edges(data=True)) and per node the out-/in-edge lists, all in networkx' own iteration order"""
    G = build_nx(g)
    def row(it): return cL([cD((u, v, d.get(ATTR))) for (u, v, d) in it])
    return "(mk_pygraph %s %s %s %s)" % (
        cL([cN(v) for v in G.nodes()]), row(G.edges(data=True)),
        cL(["(%s, %s)" % (cN(v), row(G.out_edges(v, data=True))) for v in G.nodes()]),
        cL(["(%s, %s)" % (cN(v), row(G.in_edges(v, data=True))) for v in G.nodes()]))


def coq_call(name, args):
    if name == "max_occurrence":
        seq, paths, lens = args
        return "enc_result enc_Q (fn %s %s %s)" % (cL([cE(e) for e in seq]), cL([cL([cN(v) for v in p]) for p in paths]),
                                                  cL(["(%s, %s)" % (cE(e), cQ(x)) for (e, x) in lens]))
    if name == "nonneg_check":
        ign = "None" if args[1] is None else "(Some %s)" % cL([cE(e) for e in sorted(args[1])])
        return "enc_result enc_xq (fn %s %s)" % (graph_literal(args[0]), ign)
    if name == "check_flow_conservation":
        return "enc_result enc_bool (fn %s)" % graph_literal(args[0])
    raise KeyError(name)


# ------------------------------------------------------------------------------------------ coqc with a content-addressed cache
# Every model is regenerated from $VERIF_REPO on every run and every file is still handed to `coqc` -- unless exactly this compilation
# has been done before: key = sha256 of (file name, file text, the BYTES of the .vo of every FPGen library it requires as they lie in
# the build directory, the bytes of every .vo under coq/theories, coqc flags).  A hit copies the .vo into the build directory and
# returns the recorded stdout (Print Assumptions / Eval output) of the original compilation; a changed source changes the generated
# text, hence its key and -- through the .vo bytes -- the key of everything compiled against it.  Only successful compilations are
# stored.  Cache: coq/gen_build/<key>/ (VERIF_GEN_CACHE=0 switches it off).
CTX = None                      # the run's Ctx, for the evidence counters cache_hits / recompiled (set by the run_generated_* entry points)
CACHE_MAX = 1500                # entries kept (least recently used go first)
_theories_stamp = None


def _sha(*parts):
    import hashlib
    h = hashlib.sha256()
    for x in parts:
        b = x if isinstance(x, bytes) else str(x).encode()
        h.update(str(len(b)).encode() + b":" + b)
    return h.hexdigest()


def theories_stamp():
    global _theories_stamp
    if _theories_stamp is None:
        acc = []
        root = os.path.join(common.COQ, "theories")
        for d, _, fs in sorted(os.walk(root)):
            for f in sorted(fs):
                if f.endswith(".vo"):
                    acc.append(os.path.relpath(os.path.join(d, f), root)); acc.append(open(os.path.join(d, f), "rb").read())
        _theories_stamp = _sha(*acc)
    return _theories_stamp


def cache_key(build, fname):
    src = open(os.path.join(build, fname)).read()
    deps = set()
    for m in re.finditer(r"\bRequire\b([^.]*(?:\.\w[^.]*)*)\.(?=\s|$)", common.strip_coq_comments(src)):      # every library named in a Require sentence
        for w in re.findall(r"[\w.]+", m.group(1)):
            w = w.split(".")[-1]
            if os.path.exists(os.path.join(build, w + ".v")) or os.path.exists(os.path.join(build, w + ".vo")): deps.add(w)
    deps.discard(fname[:-2])
    parts = ["coqc 8.16.1 -Q theories FP -Q build FPGen -w -all", fname, src, theories_stamp()]
    for d in sorted(deps):
        vo = os.path.join(build, d + ".vo")
        parts += [d, open(vo, "rb").read() if os.path.exists(vo) else b"<missing>"]
    return _sha(*parts)


def cache_dir():
    return os.path.join(common.COQ, "gen_build")


def _count(what):
    if CTX is not None:
        try: CTX.count("generated_model", what)
        except Exception: pass


def coqc(build, fname, timeout=COQC_TIMEOUT):
    import json
    t0 = time.time()
    use = os.environ.get("VERIF_GEN_CACHE", "1") != "0"
    key = entry = None
    if use:
        try:
            key = cache_key(build, fname); entry = os.path.join(cache_dir(), key)
            vo = os.path.join(entry, fname[:-2] + ".vo")
            if os.path.exists(os.path.join(entry, "meta.json")) and os.path.exists(vo):
                meta = json.load(open(os.path.join(entry, "meta.json")))
                if meta.get("file") == fname and meta.get("rc") == 0:
                    shutil.copyfile(vo, os.path.join(build, fname[:-2] + ".vo"))
                    os.utime(entry, None)
                    _count("cache_hits")
                    return 0, meta["stdout"], meta.get("log", ""), round(time.time() - t0, 2)
        except Exception:
            key = entry = None
    p = subprocess.run(["timeout", str(timeout), "coqc", "-Q", os.path.join(common.COQ, "theories"), "FP", "-Q", build, "FPGen", "-w", "-all", fname],
                       cwd=build, capture_output=True, text=True)
    _count("recompiled")
    err = p.stderr if p.returncode else ""
    m = re.search(r'File "[^"]*", line \d+, characters [\d-]+:\s*(Error:.*)', err, re.S)      # keep the START of the (first) error message
    log = (err[m.start():m.start() + 1200] if m else (p.stdout + p.stderr)[-1500:])
    if use and entry and p.returncode == 0 and os.path.exists(os.path.join(build, fname[:-2] + ".vo")):
        try:
            os.makedirs(cache_dir(), exist_ok=True)
            tmp = tempfile.mkdtemp(prefix="tmp_", dir=cache_dir())
            shutil.copyfile(os.path.join(build, fname[:-2] + ".vo"), os.path.join(tmp, fname[:-2] + ".vo"))
            json.dump({"file": fname, "rc": 0, "stdout": p.stdout, "log": log, "secs": round(time.time() - t0, 2)}, open(os.path.join(tmp, "meta.json"), "w"))
            try:
                os.rename(tmp, entry)
            except OSError:
                shutil.rmtree(tmp, ignore_errors=True)          # another run stored the same compilation meanwhile
            _prune()
        except Exception:
            pass
    return p.returncode, p.stdout, log, round(time.time() - t0, 2)


def _prune():
    try:
        es = [os.path.join(cache_dir(), e) for e in os.listdir(cache_dir())]
        for e in es:
            if os.path.basename(e).startswith("tmp_") and time.time() - os.path.getmtime(e) > 3600: shutil.rmtree(e, ignore_errors=True)
        es = [e for e in es if os.path.isdir(e) and not os.path.basename(e).startswith("tmp_")]
        if len(es) > CACHE_MAX:
            es.sort(key=os.path.getmtime)
            for e in es[:len(es) - CACHE_MAX + 100]:
                shutil.rmtree(e, ignore_errors=True)
    except Exception:
        pass


def eval_model(build, name, cases):
    """vm_compute of the generated fn on every case; returns list of encoded outcomes or an error string"""
    L = ["From Coq Require Import List NArith ZArith QArith Bool.", "Import ListNotations.", "From FP Require Import PyRt.",
         "From FPGen Require Import Gen_%s." % name, "Definition results : list (list Z) := ["]
    L.append(";\n".join("  " + coq_call(name, a) for a in cases))
    L += ["].", "Eval vm_compute in results."]
    open(os.path.join(build, "Cases_%s.v" % name), "w").write("\n".join(L) + "\n")
    rc, out, log, secs = coqc(build, "Cases_%s.v" % name)
    if rc != 0:
        return "the generated cases file does not compile: " + log[-800:], secs
    body = out[out.index("=") + 1:] if "=" in out else ""
    body = body.rsplit(":", 1)[0].replace("%Z", "").replace("(", "").replace(")", "")
    rows = [[int(x) for x in m.split(";") if x.strip()] for m in re.findall(r"\[([^\[\]]*)\]", body)]
    if len(rows) != len(cases):
        return "could not read %d results back from coqc (got %d)" % (len(cases), len(rows)), secs
    return rows, secs


def translate_and_prove(ctx, name, build, proof_file, compiled=None, remap=None):
    """(i) translate the current source of `name` into build/Gen_<name>.v and compile it, (ii) compile the hand-written proof script
    against it and check Print Assumptions.  Returns (model_ok, problems).  `compiled`: set of targets already built in `build`."""
    global CTX; CTX = ctx
    problems = []; compiled = compiled if compiled is not None else set()
    gen = os.path.join(build, "Gen_%s.v" % name)
    p = subprocess.run([sys.executable, os.path.join(common.ROOT, "harness", "translate.py"), name, "--repo", common.REPO, "-o", gen], capture_output=True, text=True)
    if p.returncode != 0 or not os.path.exists(gen):
        return False, ["translation step: " + (p.stderr.strip().splitlines() or ["translate.py exit %d" % p.returncode])[-1]]
    ctx.count("generated_model", "translated")
    shutil.copy(gen, os.path.join(os.path.dirname(build), "Gen_%s.v" % name))
    missing = [c for c in re.findall(r"From FPGen Require Gen_(\w+)\.", open(gen).read()) if c not in compiled]
    if missing:
        return False, ["the generated model calls %s, whose generated model is not available" % missing]
    rc, out, log, secs = coqc(build, "Gen_%s.v" % name)
    ctx.count("generated_model", "coqc_s", secs)
    if rc != 0:
        return False, ["the generated file Gen_%s.v does not compile: %s" % (name, log[-600:])]
    compiled.add(name)
    src = open(os.path.join(common.COQ, "gen_proofs", proof_file)).read()
    open(os.path.join(build, proof_file), "w").write(src)
    txt = common.strip_coq_comments(src) + common.strip_coq_comments(open(gen).read())
    forb = sorted({m.group(0) for m in common.FORBIDDEN.finditer(txt)})
    thms = re.findall(r"Print Assumptions\s+([A-Za-z0-9_']+)\s*\.", common.strip_coq_comments(src))
    rc, out, log, secs = coqc(build, proof_file)
    ctx.count("generated_model", "coqc_s", secs)
    if rc != 0 and remap is not None:
        # the regenerated model numbers its state fields differently (a helper inlined, a temporary gone): the same script with its
        # field names renumbered is tried; it is only a proof script -- whatever coqc accepts proves the same closed theorems about fn
        src2 = remap(src, open(gen).read())
        if src2 and src2 != src:
            open(os.path.join(build, proof_file), "w").write(src2)
            rc2, out2, log2, secs2 = coqc(build, proof_file)
            ctx.count("generated_model", "coqc_s", secs2)
            if rc2 == 0:
                rc, out, log, src = rc2, out2, log2, src2
                ctx.count("generated_model", "script_fields_renumbered")
                txt = common.strip_coq_comments(src) + common.strip_coq_comments(open(gen).read())
                forb = sorted({m.group(0) for m in common.FORBIDDEN.finditer(txt)})
                thms = re.findall(r"Print Assumptions\s+([A-Za-z0-9_']+)\s*\.", common.strip_coq_comments(src))
    closed = out.count("Closed under the global context")
    if forb: problems.append("forbidden vernacular in %s / generated file: %s" % (proof_file, forb))
    if rc != 0:
        m = re.search(r'File "[^"]*", line (\d+)', log); thm = None
        if m:
            ths = re.findall(r"\b(?:Theorem|Lemma|Example)\s+([A-Za-z0-9_']+)", "\n".join(src.splitlines()[:int(m.group(1))]))
            thm = ths[-1] if ths else None
        problems.append("proof no longer checks against the regenerated model: %s, theorem %s: %s" % (proof_file, thm, " ".join(log.split())[:400]))
    elif closed != len(thms) or not thms:
        problems.append("Print Assumptions of %s: %d theorems, %d closed under the global context" % (proof_file, len(thms), closed))
    else:
        ctx.count("generated_model", "proofs_checked", len(thms))
        ctx.notes.append({"generated_model": name, "proof_file": "coq/gen_proofs/" + proof_file, "theorems": thms,
                          "assumptions": "Closed under the global context", "examples": re.findall(r"\bExample\s+([A-Za-z0-9_']+)", src)})
    return True, problems


def vm_eval(build, name, header, calls, depth=2):
    """Eval vm_compute of a list of terms (each of type list Z for depth 2, list (list Z) for depth 3) in build/Cases_<name>.v;
    returns the parsed nested integer lists or an error string, and the seconds spent"""
    ty = "list (list Z)" if depth == 2 else "list (list (list Z))"
    L = ["From Coq Require Import List NArith ZArith QArith Bool.", "Import ListNotations."] + header + ["Definition results : %s := [" % ty]
    L.append(";\n".join("  " + c for c in calls))
    L += ["].", "Eval vm_compute in results."]
    open(os.path.join(build, "Cases_%s.v" % name), "w").write("\n".join(L) + "\n")
    rc, out, log, secs = coqc(build, "Cases_%s.v" % name)
    if rc != 0:
        return "the generated cases file does not compile: " + log[-800:], secs
    body = out[out.index("=") + 1:] if "=" in out else ""
    body = body.rsplit(":", 1)[0].replace("%Z", "").replace("(", "").replace(")", "")
    stack = [[]]; num = ""
    for ch in body:
        if ch == "[":
            stack.append([])
        elif ch in "];":
            if num.strip(): stack[-1].append(int(num))
            num = ""
            if ch == "]":
                top = stack.pop(); stack[-1].append(top)
        else:
            num += ch
    res = stack[0][0] if stack[0] else []
    if len(res) != len(calls):
        return "could not read %d results back from coqc (got %d)" % (len(calls), len(res)), secs
    return res, secs


# ------------------------------------------------------------------------------------------ per target
def describe(name, args):
    if name == "max_occurrence":
        return {"function": "flowpaths.utils.graphutils.max_occurrence", "seq": args[0], "paths_in_DAG": args[1], "edge_lengths": [[list(e), x] for e, x in args[2]]}
    d = {"function": "AbstractSourceSinkGraph.get_max_flow_value_and_check_non_negative_flow" if name == "nonneg_check"
         else "flowpaths.utils.graphutils.check_flow_conservation",
         "nodes": args[0][0], "edges_in_insertion_order_(u,v,%s)" % ATTR: args[0][1]}
    if name == "nonneg_check": d["edges_to_ignore"] = None if args[1] is None else sorted(args[1])
    return d


def pretty(name, enc):
    if enc[0] == 1: return "raises " + next((k for k, v in EXN_CODE.items() if v == enc[1]), str(enc[1]).replace("other:", ""))
    if enc[0] == 2: return "returns None"
    if enc[0] != 0: return "returns " + str(enc[1:])
    if name == "check_flow_conservation": return "returns " + str(bool(enc[1]))
    if name == "nonneg_check":
        if enc == [0, 1]: return "returns -inf"
        enc = [0] + enc[2:]
    return "returns " + str(Fraction(enc[1], enc[2]))


STATEMENT = {
    "max_occurrence": "max_occurrence returns max(0, max over paths of the total length (default 1) of the seq edges that are consecutive pairs of the path)",
    "nonneg_check": "the non-negativity check raises ValueError iff some non-ignored edge lacks the attribute or is negative, else returns the maximum over the non-ignored edges (-inf if none)",
    "check_flow_conservation": "check_flow_conservation returns True iff every node with an in- and an out-edge has all incident values present and equal in- and out-sums",
}


def search(ctx, name, budget):
    """evaluate the statement on the real function: boundary inputs, then random ones; first failing input or None"""
    for i in range(budget):
        args = gen_case(name, ctx.rng("gen-search-" + name, i), i)
        got = call_real(name, args); want = spec(name, args)
        ctx.count("generated_model", "search_evaluations")
        if got != want:
            return args, got, want
    return None


def one(ctx, name, root):
    rep = {"generated_model": name, "source": translate.TARGETS[name]["file"] + " :: " + translate.TARGETS[name]["func"]}
    build = os.path.join(root, name); os.makedirs(build)
    problems = []
    # (i) translate the current source
    gen = os.path.join(build, "Gen_%s.v" % name)
    p = subprocess.run([sys.executable, os.path.join(common.ROOT, "harness", "translate.py"), name, "--repo", common.REPO, "-o", gen],
                       capture_output=True, text=True)
    translated = p.returncode == 0 and os.path.exists(gen)
    model_ok = False
    if not translated:
        problems.append("translation step: " + (p.stderr.strip().splitlines() or ["translate.py exit %d" % p.returncode])[-1])
    else:
        ctx.count("generated_model", "translated")
        shutil.copy(gen, os.path.join(os.path.dirname(root), "Gen_%s.v" % name))      # kept for inspection
        rc, out, log, secs = coqc(build, "Gen_%s.v" % name)
        ctx.count("generated_model", "coqc_s", secs)
        if rc != 0:
            problems.append("the generated file Gen_%s.v does not compile: %s" % (name, log[-600:]))
        else:
            model_ok = True
            # (ii) the hand-written proofs against the generated definitions
            pf = PROOFS[name]; src = open(os.path.join(common.COQ, "gen_proofs", pf)).read()
            open(os.path.join(build, pf), "w").write(src)
            txt = common.strip_coq_comments(src) + common.strip_coq_comments(open(gen).read())
            forb = sorted({m.group(0) for m in common.FORBIDDEN.finditer(txt)})
            names = re.findall(r"Print Assumptions\s+([A-Za-z0-9_']+)\s*\.", common.strip_coq_comments(src))
            rc, out, log, secs = coqc(build, pf)
            ctx.count("generated_model", "coqc_s", secs)
            closed = out.count("Closed under the global context")
            if forb:
                problems.append("forbidden vernacular in %s / generated file: %s" % (pf, forb))
            if rc != 0:
                m = re.search(r'File "[^"]*", line (\d+)', log)
                thm = None
                if m:      # name the theorem whose proof stopped compiling
                    upto = src.splitlines()[:int(m.group(1))]
                    ths = re.findall(r"\b(?:Theorem|Lemma|Example)\s+([A-Za-z0-9_']+)", "\n".join(upto))
                    thm = ths[-1] if ths else None
                problems.append("proof no longer checks against the regenerated model: %s, theorem %s: %s" % (pf, thm, " ".join(log.split())[:400]))
            elif closed != len(names) or not names:
                problems.append("Print Assumptions of %s: %d theorems, %d closed under the global context: %s" % (pf, len(names), closed, out[-400:]))
            else:
                ctx.count("generated_model", "proofs_checked", len(names))
                ctx.notes.append({"generated_model": name, "proof_file": "coq/gen_proofs/" + pf, "theorems": names,
                                  "assumptions": "Closed under the global context", "examples": re.findall(r"\bExample\s+([A-Za-z0-9_']+)", src)})
    # (iii) correspondence generated model <-> Python function; the statement itself on every case
    n = ctx.budget(300, 3000)
    cases = [gen_case(name, ctx.rng("gen-" + name, i), i) for i in range(n)]
    real = [call_real(name, a) for a in cases]
    concrete = None
    for a, got in zip(cases, real):
        want = spec(name, a)
        ctx.count("generated_model", "property_evaluations")
        ctx.case(["generated", name, describe(name, a)], nontrivial=any(bool(x) for x in a), sample=None)
        ctx.dist("generated:%s:%s" % (name, "raise" if got[0] == 1 else ("return " + ("-inf" if got == [0, 1] and name == "nonneg_check" else
                                                                                       str(bool(got[1])) if name == "check_flow_conservation" else
                                                                                       "0" if got[-2:] == [0, 1] else "positive"))))
        if got != want and concrete is None:
            concrete = (a, got, want)
    if model_ok:
        res, secs = eval_model(build, name, cases)
        ctx.count("generated_model", "coqc_s", secs)
        if isinstance(res, str):
            problems.append("correspondence: " + res)
        else:
            bad = [(a, m, r) for a, m, r in zip(cases, res, real) if m != r]
            ctx.count("generated_model", "correspondence_cases", len(cases))
            ctx.count("generated_model", "correspondence_agreements", len(cases) - len(bad))
            if bad:
                a, m, r = bad[0]
                problems.append("correspondence: the generated model and the Python function disagree on %d of %d inputs, first: %s model %s, implementation %s"
                                % (len(bad), len(cases), describe(name, a), m, r))
    # (iv) verdict
    if concrete is None and problems:
        concrete = search(ctx, name, ctx.budget(4000, 40000))
    if concrete is not None:
        a, got, want = concrete
        rep.update({"input": describe(name, a), "args_repr": repr(a), "observed": got, "expected_by_statement": want, "broken": problems,
                    "encoding": "[0, ...] value (num, den | 0 num den / 1 = -inf | bool), [1, k] exception (0 = ValueError), [2] None"})
        rep.update({"observed_readable": pretty(name, got), "expected_readable": pretty(name, want)})
        ctx.report("%s — violated by the implementation on a concrete input: it %s, the statement requires: %s%s" % (STATEMENT[name], pretty(name, got), pretty(name, want),
                   (" [" + problems[0][:160] + "]") if problems else ""), rep, concrete=True)
    elif problems:
        rep.update({"broken": problems})
        ctx.report("generated-model tie of %s no longer checks (%s); the statement held on every input tried" % (name, problems[0][:300]), rep, concrete=False)


def run_generated(ctx, names):
    global CTX; CTX = ctx
    base = os.path.join(common.OUT, "work", "gen"); os.makedirs(base, exist_ok=True)
    root = tempfile.mkdtemp(prefix="run_", dir=base)
    try:
        ctx.notes.append({"generated_model_trusted": [
            "harness/translate.py (Python subset -> Gallina; fail-closed, self-tested on %d unsupported bodies per run; the typed embedding of the parameters in TARGETS)" % len(translate.REJECT),
            "coq/theories/PyRt.v (meaning of the emitted combinators, dict / set / graph embedding, the consecutive-pairs comprehension)",
            "coqc 8.16.1; vm_compute as evaluator of the generated model in the correspondence run",
            "numbers are exact rationals in the model; the generated inputs are integers and dyadic fractions, for which Python's float arithmetic is exact"]})
        ok, n, bad = translate.selftest()        # the translator must reject every construct outside its subset
        ctx.count("generated_model", "translator_fail_closed_selftest_rejected", ok)
        if bad:
            ctx.report("translator is not fail-closed: it accepted unsupported bodies %s" % bad, {"generated_model": "selftest", "accepted": bad}, concrete=False)
        for name in names:
            try:
                one(ctx, name, root)
            except Exception as e:
                import traceback
                ctx.report("generated-model check of %s crashed: %r" % (name, e), {"generated_model": name, "traceback": traceback.format_exc()}, concrete=False)
    finally:
        shutil.rmtree(root, ignore_errors=True)


def replay(ctx, body):
    """./check --replay of a report written here: re-evaluate the statement on the recorded input"""
    common.setup_env()
    name = body["generated_model"]
    if "args_repr" not in body:
        print("no concrete input recorded; broken:", body.get("broken")); return False
    args = eval(body["args_repr"], {"__builtins__": {}}, {"set": set})
    got = call_real(name, args); want = spec(name, args)
    print("observed now:", got, "| required by the statement:", want)
    return got != want
