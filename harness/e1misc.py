"""E1/E4 plumbing for MinGenSet, MinSetCover, MinErrorFlow (C15, C16): wire encoding of the instance a
constructed object holds, column keys, and a hook that dumps the LP of *every* SolverWrapper.optimize()
call (one per k tried by MinGenSet.solve, two for MinErrorFlow with few_flow_values_epsilon)."""
from fractions import Fraction as F
import re
import common, lpdump

OBJLOG = []            # every value SolverWrapper.get_objective_value() returned (the code's own reads), in order
HOOK = [None]          # callable(solver_wrapper) run right before the original optimize()
STATUS = [None]        # callable(solver_wrapper, real_status) -> status, wraps get_model_status
_installed = False


def install():
    global _installed
    lpdump.install()
    import e1
    e1.EQ_CMDS |= {"mgsenc", "msc", "mef", "mef2"}      # h_miscenc.ml offers <cmd>_eq for these
    if _installed:
        return
    from flowpaths.utils import solverwrapper as sw
    orig_opt = sw.SolverWrapper.optimize

    def optimize(self):
        if HOOK[0] is not None:
            HOOK[0](self)
        return orig_opt(self)
    sw.SolverWrapper.optimize = optimize
    orig_st = sw.SolverWrapper.get_model_status

    def get_model_status(self, raw=False):
        real = orig_st(self, raw)
        if STATUS[0] is not None and not raw:
            return STATUS[0](self, real)
        return real
    sw.SolverWrapper.get_model_status = get_model_status
    orig_obj = sw.SolverWrapper.get_objective_value

    def get_objective_value(self, *a, **k):
        v = orig_obj(self, *a, **k)
        OBJLOG.append(v)
        return v
    sw.SolverWrapper.get_objective_value = get_objective_value
    _installed = True


def qs(xs):
    xs = list(xs)
    return [len(xs), [common.qtok(x) for x in xs]]


# ------------------------------------------------------------------ MinGenSet
_PI = re.compile(r"^(binary|comp)_pi_i=(\d+)_j=(\d+)$")


def colkey_mgs(solver):
    reg = lpdump.registry_for(solver)
    def key(c):
        p, i = reg[c]
        if p == "gen_set":
            return (15, i)
        if p == "x":
            return (16, i[0], i[1])
        if p == "pi":
            return (1, i[0], i[1])
        if p == "y":
            return (30,) + tuple(i)
        if p == "product_y":
            return (31,) + tuple(i)
        mm = _PI.match(p)
        if mm:
            return (12 if mm.group(1) == "binary" else 13, 1, int(mm.group(2)), int(mm.group(3)), i)
        raise KeyError((p, i))
    return key


def mgs_request(m, k, parts="object"):
    """parts: the partition constraints the CALLER passed (__init__ must keep every one of them, in order);
    default: what the object holds"""
    t = [k] + qs(m.numbers) + common.qtok(m.total) + [m.weight_type == int, m.max_multiplicity]
    if isinstance(parts, str):
        parts = m.partition_constraints
    if parts is None:
        t += [0]
    else:
        t += [1, len(parts), [qs(c) for c in parts]]
    return "mgsenc " + common.toks(t)


def mgspre_request(remove, mult, numbers, total):
    return "mgspre " + common.toks([bool(remove), mult] + qs(numbers) + common.qtok(total))


def parse_qs(line):
    out = []
    for tok in line.split()[1:]:
        a, b = tok.split("/"); out.append(F(int(a), int(b)))
    return out


def status_code(st):
    return 0 if st == "kOptimal" else 1 if st == "kInfeasible" else 2


def extra_cuts(parts):
    return sum(len(c) - 1 for c in (parts or []))


def mgsloop_request(lowerbound, n_initial, statuses, parts=None):
    """statuses: {k: status string as get_model_status() reported it}"""
    return "mgsloop " + common.toks([lowerbound, n_initial, extra_cuts(parts), len(statuses), [[k, status_code(b)] for k, b in sorted(statuses.items())]])


def parse_loop(line):
    t, r, rg = [x.strip() for x in line.split("|")]
    tried = [int(x) for x in t.split()[1:]]
    res = r.split()[1]
    return tried, (None if res == "none" else int(res)), [int(x) for x in rg.split()[1:]]


# ------------------------------------------------------------------ MinSetCover
def msc_intern(universe, subsets):
    ids = {}
    def g(x):
        if x not in ids:
            ids[x] = len(ids)
        return ids[x]
    u = [g(x) for x in universe]
    ss = [[g(x) for x in s] for s in subsets]
    return u, ss


def msc_request(universe, subsets, weights):
    u, ss = msc_intern(universe, subsets)
    t = [len(u), u, len(ss), [[len(s), s] for s in ss]]
    if weights is None:
        t += [0]
    else:
        t += [1] + qs(weights)
    return "msc " + common.toks(t)


def colkey_msc(solver):
    reg = lpdump.registry_for(solver)
    def key(c):
        p, i = reg[c]
        if p == "subset":
            return (19, i)
        raise KeyError((p, i))
    return key


# ------------------------------------------------------------------ MinErrorFlow
def mef_ids(m):
    return {v: i for i, v in enumerate(m.G.nodes())}


def mef_tokens(m, ids):
    G = m.G
    nodes = list(G.nodes()); es = list(G.edges())
    t = [len(nodes), [ids[v] for v in nodes], len(es), [[ids[u], ids[v]] for u, v in es]]
    fl = [(u, v) for u, v in es if m.flow_attr in G[u][v]]
    t += [len(fl), [[ids[u], ids[v]] + common.qtok(G[u][v][m.flow_attr]) for u, v in fl]]
    ign = [e for e in m.edges_to_ignore if e[0] in ids and e[1] in ids]
    ign.sort(key=lambda e: (ids[e[0]], ids[e[1]]))
    t += [len(ign), [[ids[u], ids[v]] for u, v in ign]]
    sc = [(e, s) for e, s in m.edge_error_scaling.items() if e[0] in ids and e[1] in ids]
    t += [len(sc), [[ids[e[0]], ids[e[1]]] + common.qtok(s) for e, s in sc]]
    t += common.qtok(m.sparsity_lambda)
    if m.is_acyclic:
        t += [1, ids[G.source]]
    else:
        t += [0]
    t += [m.weight_type == int]
    return t


def mef_request(m, ids):
    return "mef " + common.toks(mef_tokens(m, ids))


def mef2_request(m, ids, subset, eps, opt, nvals):
    return "mef2 " + common.toks(mef_tokens(m, ids), [len(subset), [[ids[u], ids[v]] for u, v in subset]],
                                 common.qtok(eps), common.qtok(opt), nvals)


def colkey_mef(solver, ids):
    reg = lpdump.registry_for(solver)
    fam = {"edge_vars": 16, "edge_error_vars": 5}
    def key(c):
        p, i = reg[c]
        if p in fam:
            return (fam[p], ids[i[0]], ids[i[1]])
        if p == "all_flow_values_vars":
            return (32, i)
        if p == "all_flow_values_used_indicator_vars":
            return (33, i)
        if p == "flow_values_map_vars":
            return (34, ids[i[0]], ids[i[1]], i[2])
        raise KeyError((p, i))
    return key


def decide(ctx, engine, impl, req, d):
    """E1 verdict: the Python diff `d` is cross-checked by the extracted VERIFIED checker LinEquiv.milp_equiv_b (<cmd>_eq);
    when they disagree the verified one is trusted (and the disagreement is counted and noted)."""
    import e1
    if not impl["cols"]:
        # degenerate LP without columns (MinGenSet at k = 0): lpdump canonicalises its constant rows (an unsatisfiable one reads
        # 1 <= 0), which the syntactic verified checker cannot match with the model's "0 = total"; the Python diff decides
        ctx.count(engine, "verified_equivalence_skipped_no_columns"); return d
    try:
        ve = e1.verified_equal(ctx, engine, impl, req)
    except Exception as e:
        ctx.report(f"{engine}: verified LP comparison crashed: {e!r}", {"engine": engine}, concrete=False)
        return d
    if ve is not None and ve != (not d):
        ctx.count(engine, "python_diff_and_verified_checker_disagree")
        if ve is False and not d:
            d = ["the verified checker LinEquiv.milp_equiv_b rejects the equivalence of the two LPs (the Python diff saw none)"]
        elif ve is True and d:
            ctx.notes.append({"verified_checker_accepts_although_python_diff_reports": d[:3]}); d = []
    return d
