"""gencheck13.py — the GENERATED-MODEL tie for C13: the search loops over k, regenerated from source.

MinPathCover.solve -> Gen_search_mpc.v, MinPathCoverCycles.solve -> Gen_search_mpcc.v, MinGenSet.solve -> Gen_search_mgs.v
(harness/translate.py after the oracle lowering `lower_search`: building and running a k-model / a solver becomes reading the next
element of a list of reported statuses — the abstraction of Search.v), proof scripts coq/gen_proofs/SearchSpec.v (generic loop
lemma), SearchMpcSpec.v, SearchMpccSpec.v, SearchMgsSpec.v: the generated function IS Search.mpc_solve / mpcc_solve / run_mgs for every
list of solver outcomes, so the C13 theorems hold of the regenerated loops.

Per run: translate, compile the scripts, validate the translator on the injected histories of the C13 engine (engines/c13.py: Tap,
injection_plans — every position of the natural invocation sequence x every inconclusive status, deeper positions reached by forcing
kInfeasible): the real solve() with the statuses injected vs. vm_compute of the generated function on the statuses that were reported;
the statement of C13 is evaluated on every real run; on any failure a concrete failing run is searched.

    run_generated_c13(ctx)          (one call at the end of engines/c13.py::run)
"""
import os, shutil, tempfile, copy
import common, translate, gencheck

PROOFS = {"search_mpc": "SearchMpcSpec.v", "search_mpcc": "SearchMpccSpec.v", "search_mgs": "SearchMgsSpec.v"}
COMMON = "SearchSpec.v"
CLASS = {"search_mpc": "MinPathCover", "search_mpcc": "MinPathCoverCycles", "search_mgs": "MinGenSet"}
STATEMENT = ("%s.solve(): whatever the solver reports, it returns True exactly when the model for some k of the range was reported optimal after every "
             "smaller k of the range (from the lower bound on; MinGenSet: from max(1, lowerbound)) had been reported infeasible, and then k is the size of the answer; an "
             "inconclusive status (time limit, custom time-out, interrupt, unknown, ...) ends the search at once with False; False otherwise only "
             "when the whole range was reported infeasible; is_solved() says what solve() returned")
CODE = {"kOptimal": 0, "kInfeasible": 1, "kTimeLimit": 2}


def c13():
    import importlib
    return importlib.import_module("engines.c13")


# ------------------------------------------------------------------------------------------ instances
def make_spec(E, fp, name, rng):
    import gen
    if name == "search_mpc":
        return E.spec_mpc(fp, [[u, v, 1] for u, v in gen.rand_dag(rng, 6).edges()], False)
    if name == "search_mpcc":
        return E.spec_mpc(fp, [[u, v, 1] for u, v, _ in E.flow_cyclic(rng)], True)
    return E.spec_mgs(fp, E.mgs_input(rng))


def params(name, spec):
    """the parameters of the loop as the implementation computes them (no solver call)"""
    m = spec.build()
    if name == "search_mgs":
        return {"lb": int(m.lowerbound), "n": len(m.initial_numbers), "cuts": sum(len(c) - 1 for c in (m.partition_constraints or []))}
    return {"lb": int(m.get_lowerbound_k()), "ne": int(m.G.number_of_edges())}


def krange(name, P):
    if name == "search_mgs":
        first = max(1, P["lb"]); return first, max(first + 1, P["n"] + 2 + P["cuts"])
    return P["lb"], P["ne"] + 1


def statuses(obs):
    E = c13()
    return [E.reported(e) for e in obs["log"]]


def violated(name, P, obs):
    """clauses of the statement broken by one real run (empty list = the statement holds)"""
    E = c13(); bad = []; sts = statuses(obs); out = obs["outcome"]; first, upper = krange(name, P)
    if out not in ("S", "N"):
        return ["solve() ended with " + out]
    inc = [i for i, s in enumerate(sts) if not E.conclusive(s)]
    if inc:
        if out != "N": bad.append("invocation %d reported %s, yet solve() returned True (k=%s)" % (inc[0], sts[inc[0]], obs["k"]))
        if len(sts) != inc[0] + 1: bad.append("invocation %d reported %s, yet the search went on (%d invocations)" % (inc[0], sts[inc[0]], len(sts)))
    elif out == "S":
        if not sts or sts[-1] != "kOptimal" or any(s != "kInfeasible" for s in sts[:-1]):
            bad.append("solve() returned True after the statuses %s" % sts)
        k = first + len(sts) - 1
        if obs["k"] != k or not (first <= k < upper):
            bad.append("solve() returned True with an answer of size %s; after %d invocations from k=%d on the model solved was that of k=%d (range %d..%d)"
                       % (obs["k"], len(sts), first, k, first, upper - 1))
    else:
        if any(s != "kInfeasible" for s in sts) or len(sts) != max(0, upper - first):
            bad.append("solve() returned False after the statuses %s (range %d..%d)" % (sts, first, upper - 1))
    post = obs["post"]["is_solved"]
    if (out == "S") != (post == "T"):
        bad.append("solve() returned %s, is_solved() afterwards: %s" % (out == "S", post))
    return bad


def plans_of(E, nat, spec):
    return [inj for inj, oa in E.injection_plans(nat["log"], spec, 2 if spec.cls != "MinGenSet" else 0, False)]


# ------------------------------------------------------------------------------------------ the generated model
def header(name):
    return ["From FP Require Import PyRt.", "From FPGen Require Import Gen_%s." % name]


def coq_call(name, P, sts):
    codes = "[" + "; ".join("(%d)%%Z" % CODE.get(s, 3) for s in sts) + "]"
    args = ("(%d)%%Z (%d)%%Z (%d)%%Z" % (P["lb"], P["n"], P["cuts"])) if name == "search_mgs" else ("(%d)%%Z (%d)%%Z" % (P["lb"], P["ne"]))
    return ("(let r := fn %s 0%%Z 7%%Z %s in [match fst (fst (fst (fst r))) with Ret true => 1 | Ret false => 0 | Exc _ => 2 | RetNone => 3 end; "
            "snd (fst (fst (fst r))); snd (fst (fst r)); (if snd (fst r) then 1 else 0); snd r])%%Z" % (codes, args))


def differs(row, obs):
    """model row [result, invocations, last status, flag, chosen] vs. the real run"""
    res, n, last, flag, ch = row; sts = statuses(obs); d = []
    want = {"S": 1, "N": 0}.get(obs["outcome"], 2)
    if res != want: d.append(("solve() returned", obs["outcome"], {1: "True", 0: "False", 2: "exception"}.get(res, res)))
    if n != len(sts): d.append(("invocations", len(sts), n))
    if sts and last != CODE.get(sts[-1], 3): d.append(("last status", sts[-1], last))
    if (flag == 1) != (obs["post"]["is_solved"] == "T"): d.append(("is_solved()", obs["post"]["is_solved"], flag))
    if obs["outcome"] == "S" and res == 1 and ch != obs["k"]: d.append(("size of the answer", obs["k"], ch))
    return d


# ------------------------------------------------------------------------------------------ driver
def run_generated_c13(ctx, names=None):
    gencheck.CTX = ctx
    names = [n for n in PROOFS if n in (names or PROOFS) and os.path.exists(os.path.join(common.COQ, "gen_proofs", PROOFS[n]))]
    if not names or not os.path.exists(os.path.join(common.COQ, "gen_proofs", COMMON)):
        return
    base = os.path.join(common.OUT, "work", "gen"); os.makedirs(base, exist_ok=True)
    build = tempfile.mkdtemp(prefix="c13_", dir=base)
    E = c13(); tap = None
    try:
        ok, n, bad = translate.selftest()
        ctx.count("generated_model", "translator_fail_closed_selftest_rejected", ok)
        if bad:
            ctx.report("translator is not fail-closed: it accepted unsupported bodies %s" % bad, {"generated_model": "selftest", "accepted": bad}, concrete=False)
        ctx.notes.append({"generated_model_trusted": [
            "harness/translate.py::lower_search (the oracle reading of a search loop: `model = kX(k=i, ..)` + `model.solve()` / `_create_solver(k)` + `solver.optimize()` = "
            "the next reported status; `model.is_solved()` = that status is optimal (kPathCover / kPathCoverCycles have no constructor-time solution); times, statistics and the "
            "stored solution are erased after a purity check; set_solved() / _is_solved = True and the chosen model are outputs) and the ordinary translation",
            "coq/theories/PyRt.v, Search.v (kloop, mgs_loop); coqc 8.16.1; vm_compute as evaluator",
            "engines/c13.py Tap / injection_plans: statuses are injected into the real SolverWrapper; lower bound, number of edges, len(initial_numbers) and the "
            "extra cuts are read from the object before solve()"]})
        shutil.copy(os.path.join(common.COQ, "gen_proofs", COMMON), os.path.join(build, COMMON))
        rc, out, log, secs = gencheck.coqc(build, COMMON)
        ctx.count("generated_model", "coqc_s", secs)
        common_ok = rc == 0
        import flowpaths as fp
        tap = E.Tap()
        for name in names:
            try:
                one(ctx, E, fp, tap, name, build, common_ok, log)
            except Exception as e:
                import traceback
                ctx.report("generated-model check of %s crashed: %r" % (name, e), {"generated_model": name, "traceback": traceback.format_exc()}, concrete=False)
    finally:
        if tap is not None:
            E.set_route(False); tap.close()
        shutil.rmtree(build, ignore_errors=True)


def record(name, spec, obs, bad, problems):
    return {"generated_model": name, "class": spec.cls, "input": spec.inp, "inject": {str(k): v for k, v in obs["inject"].items()},
            "statuses": statuses(obs), "observed": {"solve": obs["outcome"], "k": obs["k"], "invocations": obs["used"], "is_solved": obs["post"]["is_solved"]},
            "violated_clauses": bad, "broken": problems}


def one(ctx, E, fp, tap, name, build, common_ok, common_log):
    spec0 = translate.TARGETS[name]
    rep = {"generated_model": name, "source": spec0["file"] + " :: " + spec0["cls"] + "." + spec0["func"]}
    if common_ok:
        model_ok, problems = gencheck.translate_and_prove(ctx, name, build, PROOFS[name], set())
    else:
        model_ok, problems = False, ["coq/gen_proofs/%s does not compile: %s" % (COMMON, common_log[:300])]
    runs = []; concrete = None
    for i in range(ctx.budget(6, 60)):
        rng = ctx.rng({"search_mpc": "mpc", "search_mpcc": "mpcc", "search_mgs": "mgs"}[name], i)
        E.set_route(i % 2 == 1)
        spec = make_spec(E, fp, name, rng); spec.inp = dict(spec.inp, alarm_route=E.alarm_route())
        P = params(name, spec)
        nat = E.observe(tap, spec, {})
        for obs in [nat] + [E.observe(tap, spec, inj) for inj in plans_of(E, nat, spec)]:
            runs.append((spec, P, obs))
            ctx.count("generated_model", "property_evaluations")
            ctx.case(["generated", name, spec.inp, sorted(obs["inject"].items(), key=str)], nontrivial=any(p < obs["used"] for p in obs["inject"]))
            bad = violated(name, P, obs)
            if bad and concrete is None: concrete = (spec, obs, bad)
    if model_ok:
        res, secs = gencheck.vm_eval(build, name, header(name), [coq_call(name, P, statuses(o)) for _, P, o in runs], depth=2)
        ctx.count("generated_model", "coqc_s", secs)
        if isinstance(res, str):
            problems.append("correspondence: " + res)
        else:
            dis = [(sp, o, differs(row, o)) for (sp, P, o), row in zip(runs, res) if differs(row, o)]
            ctx.count("generated_model", "correspondence_cases", len(runs))
            ctx.count("generated_model", "correspondence_agreements", len(runs) - len(dis))
            if dis:
                sp, o, d = dis[0]
                problems.append("correspondence: the generated model and the real solve() disagree on %d of %d runs, first %s with statuses %s: %s (implementation, model)"
                                % (len(dis), len(runs), sp.inp, statuses(o), d))
    if concrete is None and problems:
        for i in range(ctx.budget(40, 400)):
            rng = ctx.rng("gen13-search-" + name, i)
            E.set_route(i % 2 == 1)
            spec = make_spec(E, fp, name, rng); spec.inp = dict(spec.inp, alarm_route=E.alarm_route())
            P = params(name, spec)
            nat = E.observe(tap, spec, {})
            for obs in [nat] + [E.observe(tap, spec, inj) for inj in plans_of(E, nat, spec)]:
                ctx.count("generated_model", "search_evaluations")
                bad = violated(name, P, obs)
                if bad: concrete = (spec, obs, bad); break
            if concrete is not None: break
    if concrete is not None:
        spec, obs, bad = concrete
        rep.update(record(name, spec, obs, bad, problems))
        ctx.report("%s — violated by the implementation on %s with injected statuses %s: %s%s" % (
            STATEMENT % CLASS[name], str(spec.inp)[:200], rep["inject"], bad[0][:300], (" [" + problems[0][:160] + "]") if problems else ""), rep, concrete=True)
    elif problems:
        rep.update({"broken": problems})
        ctx.report("generated-model tie of %s no longer checks (%s); the statement held on every run tried" % (name, problems[0][:300]), rep, concrete=False)


def replay(ctx, body):
    common.setup_env()
    if "inject" not in body:
        print("no concrete run recorded; broken:", body.get("broken")); return False
    import flowpaths as fp
    E = c13(); name = body["generated_model"]
    tap = E.Tap()
    try:
        inp = dict(body["input"]); E.set_route(bool(inp.pop("alarm_route", False)))
        spec = E.rebuild_spec(fp, body["class"], inp, {})
        P = params(name, spec)
        obs = E.observe(tap, spec, {int(k): v for k, v in body["inject"].items()})
        bad = violated(name, P, obs)
        print("observed now:", {"solve": obs["outcome"], "k": obs["k"], "statuses": statuses(obs)}, "| violated clauses:", bad)
        return bool(bad)
    finally:
        E.set_route(False); tap.close()
