"""gencheck13.py — the GENERATED-MODEL tie for C13: the search loops over k, regenerated from source.

MinPathCover.solve -> Gen_search_mpc.v, MinPathCoverCycles.solve -> Gen_search_mpcc.v, MinGenSet.solve -> Gen_search_mgs.v
(harness/translate.py after the oracle lowering `lower_search`: building and running a k-model / a solver becomes reading the next
element of a list of reported statuses — the abstraction of Search.v), proof scripts coq/gen_proofs/SearchSpec.v (generic loop
lemma), SearchMpcSpec.v, SearchMpccSpec.v, SearchMgsSpec.v: the generated function IS Search.mpc_solve / mpcc_solve / run_mgs for every
list of solver outcomes, so the C13 theorems hold of the regenerated loops.

Per run: translate, compile the scripts, validate the translator on the injected histories of the C13 engine (engines/c13.py: Tap,
injection_plans — every position of the natural invocation sequence x every inconclusive status, deeper positions reached by forcing
kInfeasible): the real solve() with the statuses injected vs. vm_compute of the generated function on the statuses that were reported;
the statement of C13 is evaluated on every real run; on any failure a concrete failing run is searched.

    run_generated_c13(ctx)          (one call at the end of engines/c13.py::run)
"""
import os, shutil, tempfile, copy
import common, translate, gencheck

PROOFS = {"search_mpc": "SearchMpcSpec.v", "search_mpcc": "SearchMpccSpec.v", "search_mgs": "SearchMgsSpec.v", "search_npo": "SearchNpoSpec.v", "search_mfdc_main": "SearchMfdcSpec.v", "search_mfd_main": "SearchMfdSpec.v"}
COMMON = "SearchSpec.v"
CLASS = {"search_mpc": "MinPathCover", "search_mpcc": "MinPathCoverCycles", "search_mgs": "MinGenSet", "search_npo": "NumPathsOptimization", "search_mfdc_main": "MinFlowDecompCycles", "search_mfd_main": "MinFlowDecomp"}
STREAM = {"search_mpc": "mpc", "search_mpcc": "mpcc", "search_mgs": "mgs", "search_npo": "npo", "search_mfdc_main": "mfdc", "search_mfd_main": "mfd"}
STATEMENT_NPO = ("NumPathsOptimization.solve(): whatever the solver reports, when it returns True the model it hands out is that of a k of the range which its constructor "
                 "had already solved or whose own solver run -- the last invocation made -- was reported optimal; is_solved() says what solve() returned")
STATEMENT_MFDC = ("MinFlowDecompCycles.solve(), main loop: whatever the solver reports, an inconclusive status of a model of the main loop ends the search with False; True is "
                  "returned only with a solved model; the time limit ends the search with False; is_solved() and the getters say what solve() returned (engines/c13.py property_failures)")
STATEMENT = ("%s.solve(): whatever the solver reports, it returns True exactly when the model for some k of the range was reported optimal after every "
             "smaller k of the range (from the lower bound on; MinGenSet: from max(1, lowerbound)) had been reported infeasible, and then k is the size of the answer; an "
             "inconclusive status (time limit, custom time-out, interrupt, unknown, ...) ends the search at once with False; False otherwise only "
             "when the whole range was reported infeasible; is_solved() says what solve() returned")
CODE = {"kOptimal": 0, "kInfeasible": 1, "kTimeLimit": 2}


def c13():
    import importlib
    return importlib.import_module("engines.c13")


# ------------------------------------------------------------------------------------------ instances
def make_spec(E, fp, name, rng, tap=None, i=0):
    import gen
    if name == "search_mpc":
        return E.spec_mpc(fp, [[u, v, 1] for u, v in gen.rand_dag(rng, 6).edges()], False)
    if name == "search_mpcc":
        return E.spec_mpc(fp, [[u, v, 1] for u, v, _ in E.flow_cyclic(rng)], True)
    if name in ("search_mfdc_main", "search_mfd_main") and tap is not None and i % 3 == 2:
        # instances whose guessed-weights answer has more routes than the minimum (the engine's gw_gap_instance), guessed weights on
        cyc = name == "search_mfdc_main"
        edges = E.gw_gap_instance(fp, tap, rng, cyc)
        if edges is not None:
            opts = {"optimize_with_guessed_weights": True} if cyc or i % 2 else {"optimize_with_guessed_weights": True, "optimize_with_greedy": False}
            sp = E.spec_mfdc(fp, edges, opts, timed=True) if cyc else E.spec_mfd(fp, edges, opts)
            sp.exhaust = False
            return sp
    if name == "search_mfdc_main":
        return E.spec_mfdc(fp, E.flow_cyclic(rng), rng.choice(E.MFDC_OPTS), timed=True)
    if name == "search_mfd_main":
        return E.spec_mfd(fp, E.flow_dag(rng), rng.choice(E.MFD_OPTS))
    if name == "search_npo":
        while True:
            edges = E.flow_dag(rng)
            mtype = rng.choice(sorted(E.NPO_TYPES))
            perturb = [rng.choice([0, 0, 0, 1, 2, -1]) if f > 1 else 0 for _, _, f in edges] if mtype.startswith(("kMin", "kLeast")) else None
            crit = E.NPO_CRIT[0] if mtype.startswith("kFlow") else rng.choice(E.NPO_CRIT)
            try:
                return E.spec_npo(fp, edges, perturb, mtype, crit, rng.choice([2, 3]), timed=True)
            except ValueError:
                continue
    return E.spec_mgs(fp, E.mgs_input(rng))


def npo_params(obs):
    """the oracles of one run, read back from the request the engine makes for its own model (kstart, kmax, criteria, which k are solved by the
    constructor, objective values, when the clock ran out)"""
    from fractions import Fraction
    t = obs["req"].split()[1:]; i = [0]
    def nxt(): i[0] += 1; return int(t[i[0] - 1])
    P = {"kstart": nxt(), "kmax": nxt(), "ff": bool(nxt())}
    for key in ("da", "dr"):
        some, a, b = nxt(), nxt(), nxt(); P[key] = Fraction(a, b) if some else None
    P["ext"] = [bool(nxt()) for _ in range(nxt())]
    P["obj"] = [Fraction(nxt(), nxt()) for _ in range(nxt())]
    P["ov"] = [bool(nxt()) for _ in range(nxt())]
    return P


def mfdc_params(spec, obs):
    """what the auxiliary phases left behind in this run (read from the object and from the tags of the invocation log) and the clock oracle"""
    m = obs["m"]; log = obs["log"]
    guessed = bool(spec.opts.get("optimize_with_guessed_weights", type(m).optimize_with_given_weights))
    n_mgs = sum(1 for e in log if e["tag"] == "mgs"); n_gw = sum(1 for e in log if e["tag"] == "gw")
    gwm = getattr(m, "_given_weights_model", None); gw_set = gwm is not None and bool(gwm.is_solved())
    oa = obs.get("over_after")
    return {"guessed": guessed, "aux_gw": (n_mgs + n_gw) if guessed else 0, "aux_lb": 0 if guessed else n_mgs, "lb": int(obs["lbk"]), "ne": int(m.G.number_of_edges()),
            "gw_set": gw_set, "gw_paths": E_count(spec, gwm) if gw_set else 0,
            "ov": [oa is not None and n >= oa for n in range(obs["used"] + 2)], "gr": greedy_of(obs) if spec.cls == "MinFlowDecomp" else None}


def E_count(spec, gwm):
    sol = gwm.get_solution(remove_empty_paths=True) if spec.cls == "MinFlowDecomp" else gwm.get_solution(remove_empty_walks=True)
    return len(sol["paths"] if spec.cls == "MinFlowDecomp" else sol["walks"])


def greedy_of(obs):
    """for which k kFlowDecomp(k) is solved by its constructor: the list the engine computes for its own request (mfd: 10 head tokens, then the list)"""
    t = obs["req"].split()[1:]; n = int(t[10])
    return [bool(int(x)) for x in t[11:11 + n]]


def params(name, spec):
    """the parameters of the loop as the implementation computes them (no solver call)"""
    if name in ("search_npo", "search_mfdc_main", "search_mfd_main"):
        return None          # run-dependent: npo_params(obs) / mfdc_params(spec, obs)
    m = spec.build()
    if name == "search_mgs":
        return {"lb": int(m.lowerbound), "n": len(m.initial_numbers), "cuts": sum(len(c) - 1 for c in (m.partition_constraints or []))}
    return {"lb": int(m.get_lowerbound_k()), "ne": int(m.G.number_of_edges())}


def krange(name, P):
    if name == "search_mgs":
        first = max(1, P["lb"]); return first, max(first + 1, P["n"] + 2 + P["cuts"])
    return P["lb"], P["ne"] + 1


def statuses(obs):
    E = c13()
    return [E.reported(e) for e in obs["log"]]


def violated(name, P, obs):
    """clauses of the statement broken by one real run (empty list = the statement holds)"""
    E = c13(); bad = []; sts = statuses(obs); out = obs["outcome"]
    if name in ("search_mfdc_main", "search_mfd_main"):
        return [f[0] for f in E.property_failures(P["spec"], obs, P.get("nat"))]
    if name == "search_npo":
        P = npo_params(obs)
        if out not in ("S", "N", "C"): return ["solve() ended with " + out]
        if out == "S":
            k = getattr(obs["m"].model, "k", None)
            if k is None or not (P["kstart"] <= k <= P["kmax"]): bad.append("solve() returned True with the model of k=%s, range %d..%d" % (k, P["kstart"], P["kmax"]))
            elif not (P["ext"][k] or (sts and sts[-1] == "kOptimal")):
                bad.append("solve() returned True with the model of k=%s, which its constructor had not solved, after the statuses %s" % (k, sts))
        if (out == "S") != (obs["post"]["is_solved"] == "T"): bad.append("solve() returned %s, is_solved() afterwards: %s" % (out == "S", obs["post"]["is_solved"]))
        return bad
    first, upper = krange(name, P)
    if out not in ("S", "N"):
        return ["solve() ended with " + out]
    inc = [i for i, s in enumerate(sts) if not E.conclusive(s)]
    if inc:
        if out != "N": bad.append("invocation %d reported %s, yet solve() returned True (k=%s)" % (inc[0], sts[inc[0]], obs["k"]))
        if len(sts) != inc[0] + 1: bad.append("invocation %d reported %s, yet the search went on (%d invocations)" % (inc[0], sts[inc[0]], len(sts)))
    elif out == "S":
        if not sts or sts[-1] != "kOptimal" or any(s != "kInfeasible" for s in sts[:-1]):
            bad.append("solve() returned True after the statuses %s" % sts)
        k = first + len(sts) - 1
        if obs["k"] != k or not (first <= k < upper):
            bad.append("solve() returned True with an answer of size %s; after %d invocations from k=%d on the model solved was that of k=%d (range %d..%d)"
                       % (obs["k"], len(sts), first, k, first, upper - 1))
    else:
        if any(s != "kInfeasible" for s in sts) or len(sts) != max(0, upper - first):
            bad.append("solve() returned False after the statuses %s (range %d..%d)" % (sts, first, upper - 1))
    post = obs["post"]["is_solved"]
    if (out == "S") != (post == "T"):
        bad.append("solve() returned %s, is_solved() afterwards: %s" % (out == "S", post))
    return bad


def second_call_bad(E, tap, spec, obs, nat):
    """solve() once more on the SAME object after a run that an inconclusive status ended unsolved: the failed run must leave no trace"""
    if spec.cls not in ("MinFlowDecomp", "MinFlowDecompCycles") or obs is nat or obs["outcome"] != "N" or obs.get("over_after") is not None: return []
    if not any(not E.conclusive(s) for s in statuses(obs)) or any(v == "kInfeasible" for v in obs["inject"].values()): return []
    o2 = E.observe(tap, spec, {}, None, again=obs)
    if nat["outcome"] == "S" and o2["outcome"] == "S" and o2["k"] is not None and nat["k"] is not None and o2["k"] < nat["k"]: return []
    if (o2["outcome"], o2["k"]) != (nat["outcome"], nat["k"]):
        return ["a second solve() on the same object after the inconclusive run gave %s k=%s, the natural answer is %s k=%s" % (o2["outcome"], o2["k"], nat["outcome"], nat["k"])]
    return []


def plans_of(E, nat, spec):
    if spec.cls == "NumPathsOptimization":
        return E.injection_plans(nat["log"], spec, 0, True)
    if spec.cls == "MinFlowDecompCycles":
        return E.injection_plans(nat["log"], spec, 1, True)
    if spec.cls == "MinFlowDecomp":
        return E.injection_plans(nat["log"], spec, 2, False)
    return [(inj, None) for inj, oa in E.injection_plans(nat["log"], spec, 2 if spec.cls != "MinGenSet" else 0, False)]


# ------------------------------------------------------------------------------------------ the generated model
def header(name):
    return ["From FP Require Import PyRt.", "From FPGen Require Import Gen_%s." % name]


def coq_call(name, P, sts):
    codes = "[" + "; ".join("(%d)%%Z" % CODE.get(s, 3) for s in sts) + "]"
    if name in ("search_mfdc_main", "search_mfd_main"):
        bl = lambda l: "[" + "; ".join("true" if x else "false" for x in l) + "]"; b = lambda x: "true" if x else "false"
        args = "%s %s (%d)%%Z (%d)%%Z (%d)%%Z (%d)%%Z %s (%d)%%Z" % (bl(P["ov"] if name == "search_mfdc_main" else P["gr"]), b(P["guessed"]), P["aux_gw"], P["aux_lb"], P["lb"], P["ne"], b(P["gw_set"]), P["gw_paths"])
        return ("(let r := fn %s 0%%Z 7%%Z %s in [match fst (fst (fst (fst r))) with Ret true => 1 | Ret false => 0 | Exc _ => 2 | RetNone => 3 end; "
                "snd (fst (fst (fst r))); snd (fst (fst r)); (if snd (fst r) then 1 else 0); snd r])%%Z" % (codes, args))
    if name == "search_npo":
        from fractions import Fraction
        bl = lambda l: "[" + "; ".join("true" if x else "false" for x in l) + "]"
        q = lambda x: "(%d # %d)%%Q" % (x.numerator, x.denominator)
        on = lambda d: "false" if d is None or d == 0 else "true"
        val = lambda d: q(Fraction(0)) if d is None or d == 0 else q(d)
        args = "%s %s %s (1)%%Z (%d)%%Z (%d)%%Z %s %s %s %s %s" % (bl(P["ext"]), "[" + "; ".join(q(x) for x in P["obj"]) + "]", bl(P["ov"]), P["kmax"], P["kstart"],
                                                                   "true" if P["ff"] else "false", on(P["da"]), val(P["da"]), on(P["dr"]), val(P["dr"]))
        return ("(let r := fn %s 0%%Z 7%%Z %s in [match fst (fst (fst (fst r))) with Ret true => 1 | Ret false => 0 | Exc _ => 2 | RetNone => 3 end; "
                "snd (fst (fst (fst r))); snd (fst (fst r)); (if snd (fst r) then 1 else 0); snd r])%%Z" % (codes, args))
    args = ("(%d)%%Z (%d)%%Z (%d)%%Z" % (P["lb"], P["n"], P["cuts"])) if name == "search_mgs" else ("(%d)%%Z (%d)%%Z" % (P["lb"], P["ne"]))
    return ("(let r := fn %s 0%%Z 7%%Z %s in [match fst (fst (fst (fst r))) with Ret true => 1 | Ret false => 0 | Exc _ => 2 | RetNone => 3 end; "
            "snd (fst (fst (fst r))); snd (fst (fst r)); (if snd (fst r) then 1 else 0); snd r])%%Z" % (codes, args))


def differs(row, obs):
    """model row [result, invocations, last status, flag, chosen] vs. the real run"""
    res, n, last, flag, ch = row; sts = statuses(obs); d = []
    want = {"S": 1, "N": 0}.get(obs["outcome"], 2)
    k_real = obs["k"] if not hasattr(obs["m"], "model_type") else getattr(getattr(obs["m"], "model", None), "k", None)
    if res != want: d.append(("solve() returned", obs["outcome"], {1: "True", 0: "False", 2: "exception"}.get(res, res)))
    if n != len(sts): d.append(("invocations", len(sts), n))
    if sts and last != CODE.get(sts[-1], 3) and not hasattr(obs["m"], "_given_weights_model"):      # (the auxiliary phases of MinFlowDecompCycles are not in the model)
        d.append(("last status", sts[-1], last))
    if (flag == 1) != (obs["post"]["is_solved"] == "T"): d.append(("is_solved()", obs["post"]["is_solved"], flag))
    if obs["outcome"] == "S" and res == 1 and ch != k_real: d.append(("size of the answer", k_real, ch))
    return d


# ------------------------------------------------------------------------------------------ driver
def run_generated_c13(ctx, names=None):
    gencheck.CTX = ctx
    names = [n for n in PROOFS if n in (names or PROOFS) and os.path.exists(os.path.join(common.COQ, "gen_proofs", PROOFS[n]))]
    if not names or not os.path.exists(os.path.join(common.COQ, "gen_proofs", COMMON)):
        return
    base = os.path.join(common.OUT, "work", "gen"); os.makedirs(base, exist_ok=True)
    build = tempfile.mkdtemp(prefix="c13_", dir=base)
    E = c13(); tap = None
    try:
        ok, n, bad = translate.selftest()
        ctx.count("generated_model", "translator_fail_closed_selftest_rejected", ok)
        if bad:
            ctx.report("translator is not fail-closed: it accepted unsupported bodies %s" % bad, {"generated_model": "selftest", "accepted": bad}, concrete=False)
        ctx.notes.append({"generated_model_trusted": [
            "harness/translate.py::lower_search (the oracle reading of a search loop: `model = kX(k=i, ..)` + `model.solve()` / `_create_solver(k)` + `solver.optimize()` = "
            "the next reported status; `model.is_solved()` = that status is optimal (kPathCover / kPathCoverCycles have no constructor-time solution); times, statistics and the "
            "stored solution are erased after a purity check; set_solved() / _is_solved = True and the chosen model are outputs) and the ordinary translation",
            "coq/theories/PyRt.v, Search.v (kloop, mgs_loop); coqc 8.16.1; vm_compute as evaluator",
            "engines/c13.py Tap / injection_plans: statuses are injected into the real SolverWrapper; lower bound, number of edges, len(initial_numbers) and the "
            "extra cuts are read from the object before solve()"]})
        shutil.copy(os.path.join(common.COQ, "gen_proofs", COMMON), os.path.join(build, COMMON))
        rc, out, log, secs = gencheck.coqc(build, COMMON)
        ctx.count("generated_model", "coqc_s", secs)
        common_ok = rc == 0
        import flowpaths as fp
        tap = E.Tap()
        for name in names:
            try:
                one(ctx, E, fp, tap, name, build, common_ok, log)
            except Exception as e:
                import traceback
                ctx.report("generated-model check of %s crashed: %r" % (name, e), {"generated_model": name, "traceback": traceback.format_exc()}, concrete=False)
    finally:
        if tap is not None:
            E.set_route(False); tap.close()
        shutil.rmtree(build, ignore_errors=True)


def record(name, spec, obs, bad, problems):
    return {"generated_model": name, "class": spec.cls, "input": spec.inp, "options": spec.opts, "inject": {str(k): v for k, v in obs["inject"].items()},
            "over_after": obs.get("over_after"), "statuses": statuses(obs), "observed": {"solve": obs["outcome"], "k": obs["k"], "invocations": obs["used"], "is_solved": obs["post"]["is_solved"]},
            "violated_clauses": bad, "broken": problems}


def one(ctx, E, fp, tap, name, build, common_ok, common_log):
    spec0 = translate.TARGETS[name]
    rep = {"generated_model": name, "source": spec0["file"] + " :: " + spec0["cls"] + "." + spec0["func"]}
    if common_ok:
        model_ok, problems = gencheck.translate_and_prove(ctx, name, build, PROOFS[name], set())
    else:
        model_ok, problems = False, ["coq/gen_proofs/%s does not compile: %s" % (COMMON, common_log[:300])]
    runs = []; concrete = None
    for i in range(ctx.budget(16, 160) if name == "search_npo" else ctx.budget(5, 50) if name in ("search_mfdc_main", "search_mfd_main") else ctx.budget(6, 60)):
        rng = ctx.rng(STREAM[name], i)
        E.set_route(i % 2 == 1)
        spec = make_spec(E, fp, name, rng, tap, i); spec.inp = dict(spec.inp, alarm_route=E.alarm_route())
        P = params(name, spec)
        nat = E.observe(tap, spec, {})
        for obs in [nat] + [E.observe(tap, spec, inj, oa) for inj, oa in plans_of(E, nat, spec)]:
            if name in ("search_mfdc_main", "search_mfd_main"):
                if obs["outcome"] not in ("S", "N") or obs["lbk"] in (None, "solver-called"):
                    Pm = {"spec": spec, "nat": nat if obs is not nat else None}
                else:
                    Pm = dict(mfdc_params(spec, obs), spec=spec, nat=nat if obs is not nat else None)
                runs.append((spec, Pm, obs))
            else:
                runs.append((spec, P if P is not None else npo_params(obs), obs))
            ctx.count("generated_model", "property_evaluations")
            ctx.case(["generated", name, spec.inp, sorted(obs["inject"].items(), key=str)], nontrivial=any(p < obs["used"] for p in obs["inject"]))
            bad = violated(name, runs[-1][1], obs) + second_call_bad(E, tap, spec, obs, nat)
            if bad and concrete is None: concrete = (spec, obs, bad)
    if model_ok:
        runs = [t for t in runs if "lb" in t[1] or name not in ("search_mfdc_main", "search_mfd_main")]       # runs that ended in an exception have no parameters to compare with
        res, secs = gencheck.vm_eval(build, name, header(name), [coq_call(name, P, statuses(o)) for _, P, o in runs], depth=2)
        ctx.count("generated_model", "coqc_s", secs)
        if isinstance(res, str):
            problems.append("correspondence: " + res)
        else:
            dis = [(sp, o, differs(row, o)) for (sp, P, o), row in zip(runs, res) if differs(row, o)]
            ctx.count("generated_model", "correspondence_cases", len(runs))
            ctx.count("generated_model", "correspondence_agreements", len(runs) - len(dis))
            if dis:
                sp, o, d = dis[0]
                problems.append("correspondence: the generated model and the real solve() disagree on %d of %d runs, first %s with statuses %s: %s (implementation, model)"
                                % (len(dis), len(runs), sp.inp, statuses(o), d))
    if concrete is None and problems:
        for i in range(ctx.budget(40, 400)):
            rng = ctx.rng("gen13-search-" + name, i)
            E.set_route(i % 2 == 1)
            spec = make_spec(E, fp, name, rng, tap, i); spec.inp = dict(spec.inp, alarm_route=E.alarm_route())
            P = params(name, spec)
            nat = E.observe(tap, spec, {})
            for obs in [nat] + [E.observe(tap, spec, inj, oa) for inj, oa in plans_of(E, nat, spec)]:
                ctx.count("generated_model", "search_evaluations")
                bad = violated(name, {"spec": spec, "nat": nat if obs is not nat else None} if name in ("search_mfdc_main", "search_mfd_main") else P, obs)
                bad = bad + second_call_bad(E, tap, spec, obs, nat)
                if bad: concrete = (spec, obs, bad); break
            if concrete is not None: break
    if concrete is not None:
        spec, obs, bad = concrete
        rep.update(record(name, spec, obs, bad, problems))
        ctx.report("%s — violated by the implementation on %s with injected statuses %s: %s%s" % (
            (STATEMENT_NPO if name == "search_npo" else STATEMENT_MFDC.replace("Cycles", "") if name == "search_mfd_main" else STATEMENT_MFDC if name == "search_mfdc_main" else STATEMENT % CLASS[name]), str(spec.inp)[:200], rep["inject"], bad[0][:300], (" [" + problems[0][:160] + "]") if problems else ""), rep, concrete=True)
    elif problems:
        rep.update({"broken": problems})
        ctx.report("generated-model tie of %s no longer checks (%s); the statement held on every run tried" % (name, problems[0][:300]), rep, concrete=False)


def replay(ctx, body):
    common.setup_env()
    if "inject" not in body:
        print("no concrete run recorded; broken:", body.get("broken")); return False
    import flowpaths as fp
    E = c13(); name = body["generated_model"]
    tap = E.Tap()
    try:
        inp = dict(body["input"]); E.set_route(bool(inp.pop("alarm_route", False)))
        spec = E.rebuild_spec(fp, body["class"], inp, body.get("options") or {})
        P = params(name, spec) if name not in ("search_mfdc_main", "search_mfd_main") else {"spec": spec, "nat": None}
        nat = E.observe(tap, spec, {})
        if isinstance(P, dict) and "nat" in P: P["nat"] = nat
        obs = E.observe(tap, spec, {int(k): v for k, v in body["inject"].items()}, body.get("over_after"))
        bad = violated(name, P, obs) + second_call_bad(E, tap, spec, obs, nat)
        print("observed now:", {"solve": obs["outcome"], "k": obs["k"], "statuses": statuses(obs)}, "| violated clauses:", bad)
        return bool(bad)
    finally:
        E.set_route(False); tap.close()
