"""gencheck12.py — the GENERATED-MODEL tie for the MILP building blocks of C12 (SolverWrapper helpers that EMIT rows).

harness/translate.py regenerates Gen_binprod.v / Gen_intprod.v / Gen_pwc.v from the current
flowpaths/utils/solverwrapper.py; the hand-written scripts coq/gen_proofs/{BinProdSpec,IntProdSpec,PwcSpec}.v are compiled
against them: the generated rows / columns admit exactly what Blocks.mcc_rows / intprod_rows / pwc_rows admit, hence the
exactness theorems of Props/C12.v hold of the rows the code emits NOW.  The translator is validated by comparing the
generated rows (vm_compute) with the LP read back from HiGHS after calling the real helper alone (lpdump).  If translation
fails closed, a proof breaks or the correspondence disagrees, the exactness statement itself is evaluated on the rows the
REAL helper emitted, over small boxes of assignments: a failing input is an assignment admitted by the rows that violates
the relation, or one satisfying the relation that the rows exclude.

    run_generated_rows(ctx)          (one call at the end of engines/c12.py::run)
"""
import itertools, os, re, shutil, subprocess, sys, tempfile
from fractions import Fraction as F
import common, translate, lpdump, gencheck

ORDER = ["binprod", "intprod", "pwc"]          # compile order (intprod calls binprod)
PROOFS = {"binprod": "BinProdSpec.v", "intprod": "IntProdSpec.v", "pwc": "PwcSpec.v"}
XB, XC, XP, XX, XY = (100, 0), (101, 0), (102, 0), (103, 0), (104, 0)
FAM = {"binary_": 12, "comp_": 13, "z_": 14}
STATEMENT = {
    "binprod": "the rows of add_binary_continuous_product_constraint admit exactly product = binary * continuous (binary in {0,1}, lb <= continuous <= ub)",
    "intprod": "the rows/columns of add_integer_continuous_product_constraint admit exactly integer in 0 .. 2^ceil(log2(ub+1)) - 1 with product = integer * continuous (auxiliary columns existentially quantified; lb <= 0 <= ub)",
    "pwc": "the rows/columns of add_piecewise_constant_constraint admit exactly the (x, y) with x in some range and y its constant",
}


# ------------------------------------------------------------------------------------------ the real helpers, via HiGHS
def call_real(name, args):
    """call the helper alone on a fresh SolverWrapper; returns {"exc": name or None, "cols": {key: (lb, ub, int)}, "rows": [...]}"""
    from flowpaths.utils.solverwrapper import SolverWrapper
    lpdump.install(); lpdump.reset()
    s = SolverWrapper()
    exc = None
    if name == "binprod":
        lb, ub = args
        b = s.add_variables([0], "b", lb=0, ub=1, var_type="integer")[0]
        c = s.add_variables([0], "c", lb=-1e6, ub=1e6, var_type="continuous")[0]
        p = s.add_variables([0], "p", lb=-1e6, ub=1e6, var_type="continuous")[0]
        base = {b.index: XB, c.index: XC, p.index: XP}; prod = {}
        try: s.add_binary_continuous_product_constraint(b, c, p, lb=float(lb), ub=float(ub), name="P")
        except Exception as e: exc = type(e).__name__
    elif name == "intprod":
        lb, ub = args
        x = s.add_variables([0], "x", lb=0, ub=1e6, var_type="integer")[0]
        c = s.add_variables([0], "c", lb=-1e6, ub=1e6, var_type="continuous")[0]
        p = s.add_variables([0], "p", lb=-1e9, ub=1e9, var_type="continuous")[0]
        base = {x.index: XX, c.index: XC, p.index: XP}; prod = {"P": XP}
        try: s.add_integer_continuous_product_constraint(x, c, p, lb=float(lb), ub=float(ub), name="P")
        except Exception as e: exc = type(e).__name__
    else:
        ranges, consts = args
        x = s.add_variables([0], "x", lb=-1e6, ub=1e6, var_type="continuous")[0]
        y = s.add_variables([0], "y", lb=-1e6, ub=1e6, var_type="continuous")[0]
        base = {x.index: XX, y.index: XY}; prod = {"Y": XY}
        try: s.add_piecewise_constant_constraint(x, y, [(float(a), float(b)) for a, b in ranges], [float(c) for c in consts], "Y")
        except Exception as e: exc = type(e).__name__
    reg = lpdump.registry_for(s)
    def key(c):
        if c in base: return base[c]
        pre, i = reg[c]
        for q, fam in FAM.items():
            if pre.startswith(q) and pre[len(q):] in prod:
                return (fam,) + tuple(prod[pre[len(q):]]) + (i,)
        raise KeyError((pre, i))
    impl = lpdump.dump_impl(s, key)
    for k in base.values(): impl["cols"].pop(k)
    return {"exc": exc, "cols": impl["cols"], "rows": impl["rows"]}


# ------------------------------------------------------------------------------------------ the generated model
def cV(k): return "(V %d%%N [%s])" % (k[0], "; ".join("%d%%N" % i for i in k[1:]))
cQ = gencheck.cQ


def coq_call(name, args):
    if name == "binprod": return "enc_emitted (fn %s %s %s %s %s)" % (cV(XB), cV(XC), cV(XP), cQ(args[0]), cQ(args[1]))
    if name == "intprod": return "enc_emitted (fn %s %s %s %s %s %s)" % (cV(XX), cV(XC), cV(XP), cQ(args[0]), cQ(args[1]), cV(XP))
    ranges, consts = args
    return "enc_emitted (fn %s %s [%s] [%s] %s)" % (cV(XX), cV(XY), "; ".join("(%s, %s)" % (cQ(a), cQ(b)) for a, b in ranges),
                                                     "; ".join(cQ(c) for c in consts), cV(XY))


def eval_model(build, name, cases):
    L = ["From Coq Require Import List NArith ZArith QArith Bool.", "Import ListNotations.", "From FP Require Import Lin PyRt PyLin.",
         "From FPGen Require Import Gen_%s." % name, "Definition results : list (list (list Z)) := ["]
    L.append(";\n".join("  " + coq_call(name, a) for a in cases))
    L += ["].", "Eval vm_compute in results."]
    open(os.path.join(build, "Cases_%s.v" % name), "w").write("\n".join(L) + "\n")
    rc, out, log, secs = gencheck.coqc(build, "Cases_%s.v" % name)
    if rc != 0:
        return "the generated cases file does not compile: " + log[-800:], secs
    body = out[out.index("=") + 1:] if "=" in out else ""
    body = body.rsplit(":", 1)[0].replace("%Z", "").replace("(", "").replace(")", "")
    # nested lists, depth 3: parse by hand
    res = []; cur = None; row = None; num = ""
    depth = 0
    for ch in body:
        if ch == "[":
            depth += 1
            if depth == 2: cur = []
            if depth == 3: row = []
        elif ch == "]":
            if depth == 3:
                if num.strip(): row.append(int(num)); num = ""
                cur.append(row); row = None
            elif depth == 2:
                res.append(cur); cur = None
            depth -= 1
        elif ch == ";":
            if depth == 3 and num.strip(): row.append(int(num))
            num = ""
        elif depth == 3:
            num += ch
    if len(res) != len(cases):
        return "could not read %d results back from coqc (got %d)" % (len(cases), len(res)), secs
    return [decode(r) for r in res], secs


def decode(r):
    """inverse of PyLin.enc_emitted"""
    out = r[0]
    exc = None if out[0] != 1 else {0: "ValueError", 1: "KeyError", 2: "TypeError", 3: "RuntimeError", 4: "IndexError"}.get(out[1], "?")
    ncols = r[1][0]
    def var(l, i):
        fam, n = l[i], l[i + 1]
        return (fam,) + tuple(l[i + 2:i + 2 + n]), i + 2 + n
    cols = {}
    for c in r[2:2 + ncols]:
        v, i = var(c, 0)
        cols[v] = (F(c[i], c[i + 1]), F(c[i + 2], c[i + 3]), c[i + 4] == 1)
    rows = []
    for x in r[2 + ncols:]:
        sense, rhs, n = x[0], F(x[1], x[2]), x[3]
        i = 4; t = {}
        for _ in range(n):
            v, i = var(x, i)
            t[v] = t.get(v, F(0)) + F(x[i], x[i + 1]); i += 2
        lo, hi = {0: (None, rhs), 1: (rhs, None), 2: (rhs, rhs)}[sense]
        rows.append(lpdump.norm_row(t, lo, hi))
    return {"exc": exc, "cols": cols, "rows": sorted(rows, key=repr)}


# ------------------------------------------------------------------------------------------ inputs
DY = [F(0), F(1), F(2), F(3), F(5), F(7), F(8), F(1, 2), F(5, 2), F(9, 4), F(12), F(100)]


def gen_case(name, rng, i):
    if name == "binprod":
        B = [(F(0), F(1)), (F(0), F(5)), (F(1), F(4)), (F(-2), F(3)), (F(0), F(0)), (F(2), F(2)), (F(-1, 2), F(5, 2))]
        if i < len(B): return B[i]
        lb = rng.choice([F(0), F(0), F(-2), F(-1, 2), F(1), F(3)])
        return (lb, lb + rng.choice(DY))
    if name == "intprod":
        B = [(F(0), F(u)) for u in (1, 2, 3, 4, 7, 8, 15, 16, 5, 0)] + [(F(-1), F(3)), (F(0), F(1, 4)), (F(0), F(5, 2)), (F(-2), F(-1, 2)),
                                                                      (F(-3), F(-1)), (F(-3), F(-2)), (F(0), F(31)), (F(0), F(32))]
        if i < len(B): return B[i]
        lb = rng.choice([F(0), F(0), F(0), F(-3), F(-1, 2)])
        return (lb, rng.choice(DY + [F(4), F(15), F(16), F(31), F(33), F(1, 4), F(63), F(64), F(6)]))
    B = [([(F(0), F(1)), (F(2), F(3))], [F(0), F(100)]), ([(F(0), F(1))], [F(5)]), ([(F(0), F(1)), (F(2), F(3))], [F(1)]), ([], []),
         ([(F(0), F(1))], [F(1), F(2)]), ([(F(2), F(2)), (F(0), F(1)), (F(4), F(6))], [F(-4), F(3, 2), F(1000)])]
    if i < len(B): return B[i]
    n = rng.randint(1, 4)
    cuts = sorted(rng.sample(range(0, 24), 2 * n))
    scale = rng.choice([F(1), F(1), F(1, 2), F(5)])
    ranges = [(cuts[2 * j] * scale, cuts[2 * j + 1] * scale) for j in range(n)]
    if rng.random() < 0.2:
        j = rng.randrange(n); ranges[j] = (ranges[j][0], ranges[j][0])
    consts = [rng.choice([F(0), F(1), F(3, 2), F(5), F(100), F(-4), F(1, 4), F(1000)]) for _ in range(n)]
    order = list(range(n)); rng.shuffle(order)
    return ([ranges[j] for j in order], [consts[j] for j in order])


def show_args(name, args):
    if name == "pwc": return {"ranges": [[str(a), str(b)] for a, b in args[0]], "constants": [str(c) for c in args[1]]}
    return {"lb": str(args[0]), "ub": str(args[1])}


# ------------------------------------------------------------------------------------------ the statement on emitted rows
def row_ok(row, val):
    terms, lo, hi = row
    v = sum(c * val[k] for k, c in terms)
    return (lo is None or v >= lo) and (hi is None or v <= hi)


def admitted(emitted, fixed):
    """is there a value for the helper's own columns (integer ones enumerated, continuous ones by interval reasoning) such that
    all emitted rows and column bounds hold, given the values `fixed` of the caller's variables?  Returns a witness dict, False,
    or None when undecided (more than one row couples several free continuous columns)."""
    cols = emitted["cols"]
    ints = [k for k, (lb, ub, isint) in cols.items() if isint]
    conts = [k for k, (lb, ub, isint) in cols.items() if not isint]
    if any(cols[k][0] is None or cols[k][1] is None for k in ints) or len(ints) > 7: return None
    ranges = [range(int(-(-cols[k][0] // 1)), int(cols[k][1] // 1) + 1) for k in ints]
    undecided = False
    for combo in itertools.product(*ranges):
        val = dict(fixed); val.update(zip(ints, (F(v) for v in combo)))
        box = {k: [cols[k][0], cols[k][1]] for k in conts}
        multi = []; ok = True
        for (terms, lo, hi) in emitted["rows"]:
            free = [(k, c) for k, c in terms if k not in val]
            const = sum(c * val[k] for k, c in terms if k in val)
            if not free:
                if (lo is not None and const < lo) or (hi is not None and const > hi): ok = False; break
            elif len(free) == 1:
                k, c = free[0]
                a = None if lo is None else (lo - const) / c; b = None if hi is None else (hi - const) / c
                if c < 0: a, b = b, a
                if a is not None and (box[k][0] is None or a > box[k][0]): box[k][0] = a
                if b is not None and (box[k][1] is None or b < box[k][1]): box[k][1] = b
            else:
                multi.append((free, const, lo, hi))
        if not ok or any(l is not None and u is not None and l > u for l, u in box.values()): continue
        if len(multi) > 1: undecided = True; continue
        if any(l is None or u is None for l, u in box.values()): undecided = True; continue
        pick = {k: box[k][0] for k in conts}
        if multi:
            free, const, lo, hi = multi[0]
            mn = const + sum(c * (box[k][0] if c > 0 else box[k][1]) for k, c in free)
            mx = const + sum(c * (box[k][1] if c > 0 else box[k][0]) for k, c in free)
            if (lo is not None and mx < lo) or (hi is not None and mn > hi): continue
            target = lo if (lo is not None and mn < lo) else (hi if (hi is not None and mn > hi) else mn)
            pick = {k: (box[k][0] if c > 0 else box[k][1]) for k, c in free}
            for k in conts: pick.setdefault(k, box[k][0])
            need = target - mn
            for k, c in free:            # move along the box until the coupled row is met
                if need == 0: break
                room = (box[k][1] - box[k][0]) * abs(c)
                step = min(room, need)
                pick[k] += step / c
                need -= step
        val.update(pick)
        if all(row_ok(r, val) for r in emitted["rows"]):
            return {str(k): str(v) for k, v in val.items()}
    return None if undecided else False


def least_bits(ub):
    n = 0
    while ub + 1 > 2 ** n: n += 1
    return n


def violations(name, args, emitted):
    """evaluate the exactness statement on the emitted rows over a small box; yields (assignment, admitted?, expected?)"""
    if emitted["exc"]:
        ok_to_raise = (name == "intprod" and args[1] + 1 <= 0) or (name == "pwc" and (len(args[0]) != len(args[1]) or not args[0]))
        if not ok_to_raise:
            yield ({}, "raises " + emitted["exc"], "emits rows")
        return
    if name == "binprod":
        lb, ub = args
        if lb > ub: return
        cs = sorted({lb, ub, (lb + ub) / 2, lb + (ub - lb) / 4})
        for b in (F(0), F(1)):
            for c in cs:
                for p in sorted({b * c, c, F(0), lb, ub, b * c + F(1, 2), b * c - 1, (1 - b) * c}):
                    fixed = {XB: b, XC: c, XP: p}
                    got = all(row_ok(r, fixed) for r in emitted["rows"])
                    if got != (p == b * c):
                        yield ({"binary": str(b), "continuous": str(c), "product": str(p)}, got, p == b * c)
    elif name == "intprod":
        lb, ub = args
        if not (lb <= 0 <= ub): return
        n = least_bits(ub)
        if n > 4: return
        cs = sorted({lb, ub, (lb + ub) / 2, F(0)})
        for x in list(range(0, 2 ** n)) + [2 ** n, 2 ** n + 1]:
            for c in cs:
                for p in sorted({x * c, x * c + 1, x * c - F(1, 2), c, F(0)}):
                    want = (0 <= x < 2 ** n) and p == x * c
                    got = admitted(emitted, {XX: F(x), XC: c, XP: p})
                    if got is None: continue
                    if bool(got) != want:
                        yield ({"integer": x, "continuous": str(c), "product": str(p), "helper_columns": got or None}, bool(got), want)
    else:
        ranges, consts = args
        if len(ranges) != len(consts) or not ranges or any(a > b for a, b in ranges): return
        xs = sorted({v for a, b in ranges for v in (a, b, (a + b) / 2, a - F(1, 2), b + F(1, 2))})
        ys = sorted(set(consts) | {min(consts) - 1, max(consts) + F(1, 2)})
        for x in xs:
            for y in ys:
                want = any(a <= x <= b and y == c for (a, b), c in zip(ranges, consts))
                got = admitted(emitted, {XX: x, XY: y})
                if got is None: continue
                if bool(got) != want:
                    yield ({"x": str(x), "y": str(y), "helper_columns": got or None}, bool(got), want)


# ------------------------------------------------------------------------------------------ driver
def run_generated_rows(ctx, names=None):
    gencheck.CTX = ctx
    names = [n for n in ORDER if n in (names or ORDER) and os.path.exists(os.path.join(common.COQ, "gen_proofs", PROOFS[n]))]
    base = os.path.join(common.OUT, "work", "gen"); os.makedirs(base, exist_ok=True)
    build = tempfile.mkdtemp(prefix="rows_", dir=base)
    try:
        ok, n, bad = translate.selftest()
        ok2, n2, bad2 = translate.selftest_emit(common.REPO)
        ok += ok2; bad = bad + bad2
        ctx.count("generated_model", "translator_fail_closed_selftest_rejected", ok)
        ctx.notes.append({"generated_model_trusted": [
            "harness/translate.py (Python subset -> Gallina, fail-closed; mirrors each constraint expression as a PyLin.lexp pair; pins the HiGHS path of add_constraint / quicksum / add_variables; typed embedding in TARGETS; name_prefix -> variable family table)",
            "coq/theories/PyLin.v (mk_row: what a mirrored constraint means as a Lin.row; py_add_variables; py_ceil_log2; py_quicksum) and PyRt.v",
            "coqc 8.16.1; vm_compute as evaluator of the generated model in the correspondence run; harness/lpdump.py LP read-back from HiGHS",
            "numbers are exact rationals in the model; generated bounds / ranges / constants are dyadic, for which Python's float arithmetic is exact"]})
        if bad:
            ctx.report("translator is not fail-closed: it accepted unsupported bodies %s" % bad, {"generated_model": "selftest", "accepted": bad}, concrete=False)
        compiled = set()
        for name in names:
            try:
                one(ctx, name, build, compiled)
            except Exception as e:
                import traceback
                ctx.report("generated-model check of %s crashed: %r" % (name, e), {"generated_model": name, "traceback": traceback.format_exc()}, concrete=False)
    finally:
        shutil.rmtree(build, ignore_errors=True)


def one(ctx, name, build, compiled):
    T = translate.TARGETS[name]
    rep = {"generated_model": name, "source": T["file"] + " :: " + T["func"]}
    problems = []
    gen = os.path.join(build, "Gen_%s.v" % name)
    p = subprocess.run([sys.executable, os.path.join(common.ROOT, "harness", "translate.py"), name, "--repo", common.REPO, "-o", gen], capture_output=True, text=True)
    model_ok = False
    if p.returncode != 0 or not os.path.exists(gen):
        problems.append("translation step: " + (p.stderr.strip().splitlines() or ["translate.py exit %d" % p.returncode])[-1])
    else:
        ctx.count("generated_model", "translated")
        shutil.copy(gen, os.path.join(os.path.dirname(build), "Gen_%s.v" % name))
        needs = re.findall(r"From FPGen Require Gen_(\w+)\.", open(gen).read())
        missing = [c for c in needs if c not in compiled]
        if missing:
            problems.append("the generated model calls %s, whose generated model is not available" % missing)
        else:
            rc, out, log, secs = gencheck.coqc(build, "Gen_%s.v" % name)
            ctx.count("generated_model", "coqc_s", secs)
            if rc != 0:
                problems.append("the generated file Gen_%s.v does not compile: %s" % (name, log[-600:]))
            else:
                model_ok = True; compiled.add(name)
                pf = PROOFS[name]; src = open(os.path.join(common.COQ, "gen_proofs", pf)).read()
                open(os.path.join(build, pf), "w").write(src)
                txt = common.strip_coq_comments(src) + common.strip_coq_comments(open(gen).read())
                forb = sorted({m.group(0) for m in common.FORBIDDEN.finditer(txt)})
                thms = re.findall(r"Print Assumptions\s+([A-Za-z0-9_']+)\s*\.", common.strip_coq_comments(src))
                dep = [d for d in re.findall(r"From FPGen Require Import ([^.]*)\.", src)[0].split() if d.endswith("Spec")]
                if any(not os.path.exists(os.path.join(build, d + ".vo")) for d in dep):
                    rc, out, log, secs = 1, "", "the proof script it builds on (%s) did not compile" % dep, 0
                else:
                    rc, out, log, secs = gencheck.coqc(build, pf)
                ctx.count("generated_model", "coqc_s", secs)
                closed = out.count("Closed under the global context")
                if forb: problems.append("forbidden vernacular in %s / generated file: %s" % (pf, forb))
                if rc != 0:
                    m = re.search(r'File "[^"]*", line (\d+)', log); thm = None
                    if m:
                        ths = re.findall(r"\b(?:Theorem|Lemma|Example)\s+([A-Za-z0-9_']+)", "\n".join(src.splitlines()[:int(m.group(1))]))
                        thm = ths[-1] if ths else None
                    problems.append("proof no longer checks against the regenerated model: %s, theorem %s: %s" % (pf, thm, " ".join(log.split())[:400]))
                elif closed != len(thms) or not thms:
                    problems.append("Print Assumptions of %s: %d theorems, %d closed under the global context" % (pf, len(thms), closed))
                else:
                    ctx.count("generated_model", "proofs_checked", len(thms))
                    ctx.notes.append({"generated_model": name, "proof_file": "coq/gen_proofs/" + pf, "theorems": thms,
                                      "assumptions": "Closed under the global context", "examples": re.findall(r"\bExample\s+([A-Za-z0-9_']+)", src)})
    # correspondence generated rows <-> LP read back from HiGHS after the real helper alone; the statement on the real rows
    n = ctx.budget(48, 600)
    cases = [gen_case(name, ctx.rng("genrows-" + name, i), i) for i in range(n)]
    real = [call_real(name, a) for a in cases]
    concrete = None
    for a, em in zip(cases, real):
        ctx.count("generated_model", "property_evaluations")
        ctx.case(["generated-rows", name, show_args(name, a)], nontrivial=len(em["rows"]) >= 4)
        ctx.dist("generated:%s:%s" % (name, em["exc"] or "%d rows" % (4 * (len(em["rows"]) // 4))))
        if concrete is None:
            v = next(violations(name, a, em), None)
            if v is not None: concrete = (a, v)
    if model_ok:
        res, secs = eval_model(build, name, cases)
        ctx.count("generated_model", "coqc_s", secs)
        if isinstance(res, str):
            problems.append("correspondence: " + res)
        else:
            bad = []
            for a, m, r in zip(cases, res, real):
                d = [] if m["exc"] == r["exc"] else ["outcome: model %s, implementation %s" % (m["exc"], r["exc"])]
                d += lpdump.diff(r, m, what=("cols", "rows"))
                ctx.count("generated_model", "rows_compared", len(r["rows"]))
                if d: bad.append((a, d))
            ctx.count("generated_model", "correspondence_cases", len(cases))
            ctx.count("generated_model", "correspondence_agreements", len(cases) - len(bad))
            if bad:
                problems.append("correspondence: generated rows/columns differ from the LP read back from HiGHS on %d of %d inputs, first %s: %s"
                                % (len(bad), len(cases), show_args(name, bad[0][0]), "; ".join(bad[0][1][:3])))
    if concrete is None and problems:
        for i in range(ctx.budget(400, 4000)):
            a = gen_case(name, ctx.rng("genrows-search-" + name, i), i)
            ctx.count("generated_model", "search_evaluations")
            v = next(violations(name, a, call_real(name, a)), None)
            if v is not None: concrete = (a, v); break
    if concrete is not None:
        a, (assign, got, want) = concrete
        what = ("admitted by the emitted rows but violates the relation" if got is True else
                "satisfies the relation but is excluded by the emitted rows" if got is False else str(got))
        rep.update({"helper_arguments": show_args(name, a), "args_repr": repr(a), "assignment": assign, "admitted_by_emitted_rows": got,
                    "required_by_statement": want, "broken": problems})
        ctx.report("%s — violated by the implementation: with %s the assignment %s %s%s" % (STATEMENT[name], show_args(name, a), assign, what,
                   (" [" + problems[0][:160] + "]") if problems else ""), rep, concrete=True)
    elif problems:
        rep.update({"broken": problems})
        ctx.report("generated-model tie of %s no longer checks (%s); the statement held on every input tried" % (name, problems[0][:300]), rep, concrete=False)


def replay(ctx, body):
    common.setup_env()
    name = body["generated_model"]
    if "args_repr" not in body:
        print("no concrete input recorded; broken:", body.get("broken")); return False
    args = eval(body["args_repr"], {"__builtins__": {}}, {"Fraction": F})
    v = next(violations(name, args, call_real(name, args)), None)
    print("statement on the rows emitted now:", "violated by " + str(v) if v else "holds on the box")
    return v is not None
