"""E1 for the cyclic error models (C07 kLeastAbsErrorsCycles, C08 kMinPathErrorCycles): wire encoding of a
WalkErrEnc.werr_inst, and the section `E1_cycles` that the C07 / C08 engines run over cyclic instances.

Taken from the CALLER's arguments (never from what the constructor derived): ignore list, error scaling, weight
type, subset constraints, coverage; k (the object's k only when the caller passed None = width, which is C09's
subject).  Taken from the model object: the internal s-t graph with its flow attribute (node expansion and s-t
augmentation are the subject of C11 / C01), the option flags, `safe_lists` and `walks_to_fix`.  Recomputed by the
Coq model and thereby compared: I*, w_max, the error columns, the repetition caps
(compute_edge_max_reachable_value incl. all reachability, SCC forcing), the walk block, zero / fix rows or
queued bounds, the three product encodings for Pi and Gamma, 9aa / 9ab, the objective."""
import networkx as nx
import common, lpdump, e1, e1cyc, e1err, errlib, gen, gen2

SOLVER = {"threads": 1, "time_limit": 20}
CMD = {"kLeastAbsErrorsCycles": ("klaec", "WalkErrEnc.encode_klae_cycles"), "kMinPathErrorCycles": ("kmpec", "WalkErrEnc.encode_kmpe_cycles")}


def request(cls_name, m, args, ids=None):
    ids = ids or e1.ids_of(m.G)
    st = m.G
    k = args.get("k")
    t = e1.graph_tokens(st, ids) + [m.k if k is None else k]
    t += errlib.flow_tokens_py(st, ids, args["flow_attr"])
    ign, sc = e1err.internal_ignore_and_scale(args)
    ign = [e for e in ign if e[0] in ids and e[1] in ids]
    t += e1.edge_list_tokens(ign, ids)
    sc = [(e, s) for e, s in sc.items() if e[0] in ids and e[1] in ids]
    t += [len(sc), [[ids[u], ids[v]] + common.qtok(s) for (u, v), s in sc]]
    t += [args.get("weight_type", float) == int]
    cons = args.get("subset_constraints", []) or []
    if cons and args.get("flow_attr_origin", "edge") == "node":
        cons = m.G_internal.get_expanded_subpath_constraints(cons)
    t += e1cyc.seqs_tokens(cons, ids) + common.qtok(args.get("subset_constraints_coverage", 1.0))
    t += e1cyc.opts_of(m) + e1cyc.safety_tokens(m, ids)
    return CMD[cls_name][0] + " " + common.toks(t)


def compare(ctx, cls_name, m, args, engine="E1_cycles"):
    req = request(cls_name, m, args)
    d, impl = e1cyc.compare(ctx, engine, m, req)
    # the full LP (columns, bounds, integrality, rows, objective, sense) is also decided by the extracted VERIFIED checker
    # LinEquiv.milp_equiv_b (klaec_eq / kmpec_eq); if it disagrees with the Python diff, the verified answer is reported
    try:
        ve = e1.verified_equal(ctx, engine, impl, req)
    except Exception as e:
        ve = None; ctx.report(f"{engine}: verified LP comparison crashed: {e!r}", {"engine": engine}, concrete=False)
    if ve is not None and ve != (not d):
        ctx.count(engine, "python_diff_and_verified_checker_disagree")
        if ve is False and not d:
            d = ["the verified checker LinEquiv.milp_equiv_b rejects the equivalence of the two LPs (the Python diff saw none)"]
        elif ve is True and d:
            ctx.notes.append({"verified_checker_accepts_although_python_diff_reports": d[:3]}); d = []
    return d, impl


def _describe(args):
    G = args["G"]
    d = {k: v for k, v in args.items() if k not in ("G", "weight_type", "solver_options", "error_scaling")}
    d["edges"] = [[u, v, dict(dd)] for u, v, dd in G.edges(data=True)]
    d["nodes"] = [[v, dict(dd)] for v, dd in G.nodes(data=True)]
    d["weight_type"] = args.get("weight_type", float).__name__
    d["error_scaling"] = [[k, v] for k, v in (args.get("error_scaling") or {}).items()]
    return d


def node_mode_copy(rng, args):
    """the same digraph with weights on the nodes (some nodes without the attribute)"""
    G = args["G"]; H = nx.DiGraph()
    isint = args["weight_type"] == int
    for v in G.nodes():
        fl = [G.edges[e]["flow"] for e in G.in_edges(v)] + [G.edges[e]["flow"] for e in G.out_edges(v)]
        if rng.random() < 0.85:
            H.add_node(v, flow=(max(fl) if fl else (1 if isint else 0.5)))
        else:
            H.add_node(v)
    H.add_edges_from(G.edges())
    a = {k: v for k, v in args.items() if k not in ("elements_to_ignore", "error_scaling", "subset_constraints")}
    a.update(G=H, flow_attr_origin="node")
    vs = [v for v in H.nodes() if "flow" in H.nodes[v]]
    if rng.random() < 0.3 and len(vs) > 1:
        a["elements_to_ignore"] = [rng.choice(vs)]
    if rng.random() < 0.4:
        a["error_scaling"] = {v: rng.choice([0, 0.5, 1]) for v in vs if rng.random() < 0.3}
    if not any("flow" in H.nodes[v] and v not in a.get("elements_to_ignore", []) and a.get("error_scaling", {}).get(v, 1) != 0 for v in H.nodes()):
        a.pop("elements_to_ignore", None); a.pop("error_scaling", None)
    return a


def has_weighted_element(args):
    G = args["G"]; ign = set(args.get("elements_to_ignore", []) or []); sc = args.get("error_scaling", {}) or {}
    if args.get("flow_attr_origin", "edge") == "node":
        return any("flow" in d and v not in ign and sc.get(v, 1) != 0 for v, d in G.nodes(data=True))
    return any("flow" in d and (u, v) not in ign and sc.get((u, v), 1) != 0 for u, v, d in G.edges(data=True))


def run_e1_cycles(ctx, cls_name, rand_instance, n, stream):
    """section E1_cycles: LP of the cyclic error class == WalkErrEnc encoder, over the engine's cyclic instance
    generator `rand_instance(rng) -> (args, is_int)` extended by node mode, additional starts/ends, subset
    constraints with coverage and the safety option vectors"""
    import flowpaths as fp
    lpdump.install()
    cls = getattr(fp, cls_name)
    reported = [0]
    for i in range(n):
        def _one(cur):
            rng = ctx.rng(stream, i)
            args, is_int = rand_instance(rng)
            args = dict(args, k=rng.choice([1, 2, 2, 3, None]), solver_options=dict(SOLVER))
            cur["args"] = args
            G = args["G"]
            if rng.random() < 0.3:
                args["additional_starts"] = [rng.choice(list(G.nodes()))]
            if rng.random() < 0.3:
                args["additional_ends"] = [rng.choice(list(G.nodes()))]
            mode = "edge"
            if rng.random() < 0.25:
                args = node_mode_copy(rng, args); mode = "node"
                cur["args"] = args
            elif rng.random() < 0.35:
                walks = [w for w in (gen.rand_walk(rng, G, maxlen=8) for _ in range(2)) if w]
                cons = gen2.rand_subset_constraints(rng, walks) if walks else []
                if cons:
                    args["subset_constraints"] = cons
                    if rng.random() < 0.4:
                        args["subset_constraints_coverage"] = rng.choice([0.5, 0.75])
            opts = gen2.rand_walk_opts(rng, n=(i % 64) if i % 3 == 0 else None)
            if rng.random() < 0.15:
                opts = dict(opts, allow_empty_walks=True)
            args["optimization_options"] = dict(opts)
            a = {k: (dict(v) if isinstance(v, dict) else (list(v) if isinstance(v, list) else v)) for k, v in args.items()}
            cur["args"] = a
            a = errlib.attach_numpy(ctx, cls_name, a, errlib.numpy_spec(ctx.rng(stream + "-np", i)))
            args = a; cur["args"] = a
            lpdump.reset()
            try:
                m = cls(**errlib.clean_args(a))
            except (ValueError, OverflowError) as e:
                ctx.dist("E1_cycles ctor " + type(e).__name__); return
            except Exception as e:
                if not has_weighted_element(args):
                    # every weighted element is ignored / scaled by 0: outside the properties' domain (DESIGN §6 #24)
                    ctx.dist("E1_cycles skipped: no non-ignored weighted element"); return
                ctx.report(f"{cls_name} raised {e!r} at construction", {"class": cls_name, "args": _describe(args)}); return
            d, impl = compare(ctx, cls_name, m, args)
            ctx.dist("E1_cycles mode:" + mode)
            wf = getattr(m, "walks_to_fix", None) or []
            for flag, name in ((bool(wf), "walks_to_fix non-empty"), (bool(m.edges_set_to_zero), "zero rows"), (bool(m.edges_set_to_one), "Pi=W shortcut"),
                               (bool(m.subset_constraints), "subset constraints"), (not nx.is_directed_acyclic_graph(args["G"]), "graph has a cycle"),
                               (bool(args.get("additional_starts") or args.get("additional_ends")), "additional starts/ends"),
                               (bool(args.get("error_scaling")), "error_scaling"), (bool(args.get("elements_to_ignore")), "ignore list"),
                               (args.get("k") is None, "k=None")):
                if flag:
                    ctx.dist("E1_cycles " + name)
            if d:
                reported[0] += 1
                if reported[0] <= 3:      # keep room for concrete failing inputs found by the E2 sections
                    ctx.report(f"E1 correspondence broken: LP of {cls_name} differs from {CMD[cls_name][1]}: " + "; ".join(d[:3]),
                               {"class": cls_name, "args": _describe(args), "diff": d[:12], "section": "E1_cycles"}, concrete=False)
            ctx.case(["e1-cyc", cls_name, _describe(args)], nontrivial=len(impl["rows"]) > 20)
        errlib.guarded(ctx, 'cyclic-E1', f"{cls_name} {stream}#{i}", _one)
