"""Generators of small valid inputs for every route-returning model class (used by C01, C05, C10,
C18 ...).  `make(rng, name, node=False)` returns a dict with the class name, constructor kwargs and
the facts the property checks need (caller's graph, starts/ends, ignore list, constraints)."""
from fractions import Fraction as F
import collections
import networkx as nx
import gen, gen2

DAG_CLASSES = ["kFlowDecomp", "MinFlowDecomp", "kLeastAbsErrors", "kMinPathError", "kPathCover", "MinPathCover"]
CYC_CLASSES = ["kFlowDecompCycles", "MinFlowDecompCycles", "kLeastAbsErrorsCycles", "kMinPathErrorCycles",
               "kPathCoverCycles", "MinPathCoverCycles"]
ALL = DAG_CLASSES + CYC_CLASSES
HAS_STARTS = {"MinFlowDecomp", "kLeastAbsErrors", "kMinPathError", "kPathCover", "MinPathCover"} | set(CYC_CLASSES)
FLOW = {"kFlowDecomp", "MinFlowDecomp", "kFlowDecompCycles", "MinFlowDecompCycles"}
ERR = {"kLeastAbsErrors", "kMinPathError", "kLeastAbsErrorsCycles", "kMinPathErrorCycles"}
COVER = {"kPathCover", "MinPathCover", "kPathCoverCycles", "MinPathCoverCycles"}
K_MODELS = {"kFlowDecomp", "kLeastAbsErrors", "kMinPathError", "kPathCover", "kFlowDecompCycles",
            "kLeastAbsErrorsCycles", "kMinPathErrorCycles", "kPathCoverCycles"}
THREADS = 1


def routes_key(name):
    return "walks" if name.endswith("Cycles") else "paths"


def base_graph(rng, cyclic, nmax):
    """(G0, routes) with routes = generating source-to-sink routes of G0"""
    if not cyclic:
        while True:
            G0 = gen.rand_dag(rng, nmax=nmax)
            ps = gen.all_st_paths(G0)
            if ps:
                n = rng.randint(1, 3)
                return G0, [rng.choice(ps) for _ in range(n)]
    while True:
        G0 = gen.rand_cyclic(rng, nmax=nmax)
        if G0.number_of_edges() > 9:
            continue
        ws = [gen.rand_walk(rng, G0, maxlen=rng.choice([6, 10])) for _ in range(rng.randint(1, 3))]
        ws = [w for w in ws if w]
        if ws:
            return G0, ws


def make(rng, name, node=False, with_starts=None, with_ignore=None, with_cons=None, nmax=5, exact=True):
    cyclic = name.endswith("Cycles")
    G0, routes = base_graph(rng, cyclic, nmax)
    if node and G0.number_of_nodes() >= 2 and rng.random() < 0.15:
        # a dotted node name whose prefix is another node's name ("v1" and "v1.5"): legal strings; the node expansion appends
        # ".0"/".1" and must strip exactly that when it condenses routes
        x, y = rng.sample(list(G0.nodes()), 2)
        mp = {x: f"{y}.5"}
        G0 = nx.relabel_nodes(G0, mp, copy=True)
        routes = [[mp.get(v, v) for v in r] for r in routes]
    if G0.number_of_nodes() >= 2 and rng.random() < 0.06:
        # the empty string is a string, hence a legal node name (and falsy: `not any(predecessors)`-style tests trip over it)
        x = rng.choice(list(G0.nodes()))
        if "" not in G0:
            G0 = nx.relabel_nodes(G0, {x: ""}, copy=True)
            routes = [["" if v == x else v for v in r] for r in routes]
    if rng.random() < 0.08:
        # node names that mimic names the library derives internally (auxiliary nodes of the min-cost-flow helper, synthetic
        # source/sink, node-expansion suffixes, condensation ids): legal strings, no helper may confuse them with its own
        import gen
        H = gen.mimic_names(rng, G0, 1.0, gid="graph 1")
        mp = dict(zip(G0.nodes(), H.nodes()))
        if len(set(mp.values())) == len(mp):
            G0 = H; routes = [[mp[v] for v in r] for r in routes]
    is_int = True if cyclic else (rng.random() < 0.7)
    scale = 1 if is_int else rng.choice([0.5, 0.25, 1.5])
    ws = [rng.choice([1, 2, 3, 4]) * scale for _ in routes]
    G = nx.DiGraph(); G.graph["id"] = "graph 1"
    used_e = collections.Counter(); used_v = collections.Counter()
    for r, w in zip(routes, ws):
        for e in zip(r, r[1:]):
            used_e[e] += w
        for v in r:
            used_v[v] += w
    es = [e for e in G0.edges() if e in used_e]
    rng.shuffle(es)
    for v in G0.nodes():
        if v in used_v:
            G.add_node(v)
    for (u, v) in es:
        G.add_edge(u, v)
    cast = (lambda x: int(x)) if is_int else (lambda x: float(x))
    attr = "flow"
    if node:
        for v in G.nodes():
            G.nodes[v][attr] = cast(used_v[v])
        if rng.random() < 0.2:                      # an isolated weighted node: a route consisting of one node
            w = rng.choice([1, 2, 3]) * scale
            G.add_node("iso", **{attr: cast(w)}); routes = routes + [["iso"]]; ws = ws + [w]
    else:
        for e in G.edges():
            G.edges[e][attr] = cast(used_e[e])
    if name in ERR and not exact:
        for x in (G.nodes() if node else G.edges()):
            d = G.nodes[x] if node else G.edges[x]
            if rng.random() < 0.4:
                d[attr] = cast(max(0, d[attr] + rng.choice([-1, 1, 2]) * scale))
    if G.number_of_edges() == 0 and not node:
        return make(rng, name, node, with_starts, with_ignore, with_cons, nmax, exact)
    kw = {}
    info = {"G": G, "routes": routes, "weights": ws, "is_int": is_int, "node": node, "starts": [], "ends": [], "ignore": [], "cons": []}
    # ignored elements
    if (rng.random() < 0.3 if with_ignore is None else with_ignore):
        elems = list(G.nodes()) if node else list(G.edges())
        ign = [x for x in elems if rng.random() < 0.25]
        if len(ign) < len(elems):
            kw["elements_to_ignore"] = ign; info["ignore"] = ign
    if node and rng.random() < 0.25 and G.number_of_nodes() > 1:      # a node lacking the attribute = ignored (the cover classes
        v = rng.choice(list(G.nodes())); del G.nodes[v][attr]         # do not read the attribute: there the node still needs covering)
        if name not in COVER:
            info["ignore"] = info["ignore"] + [v]
    # constraints from the generating routes
    if (rng.random() < 0.35 if with_cons is None else with_cons):
        cons = []
        for c in gen2.rand_constraints(rng, routes, maxn=2):
            if node:
                ns = []
                for (u, v) in c:
                    if not ns or ns[-1] != u: ns.append(u)
                    ns.append(v)
                cons.append(ns)
            else:
                cons.append(c)
        if cons:
            kw["subset_constraints" if cyclic else "subpath_constraints"] = cons; info["cons"] = cons
            r_cov = rng.random()
            if r_cov < 0.3:
                # relaxed coverage by number of edges (odd constraint lengths make the product fractional)
                info["coverage"] = rng.choice([0.5, 0.75, 0.5])
                kw["subset_constraints_coverage" if cyclic else "subpath_constraints_coverage"] = info["coverage"]
            elif not cyclic and not node and r_cov < 0.55:
                # coverage by length: edge lengths on some edges (missing = 1), fraction < 1 or 1
                for e in G.edges():
                    if rng.random() < 0.7:
                        G.edges[e]["len"] = rng.choice([1, 2, 3, 5, 0, 0])
                kw["length_attr"] = "len"
                kw["subpath_constraints_coverage_length"] = rng.choice([0.5, 0.75, 1])
                info["coverage_length"] = kw["subpath_constraints_coverage_length"]
            elif not cyclic and not node and r_cov < 0.7:
                # a length attribute WITHOUT a length coverage: coverage is still counted in edges (the documented meaning of
                # subpath_constraints_coverage), the lengths must have no influence
                for e in G.edges():
                    if rng.random() < 0.8:
                        G.edges[e]["len"] = rng.choice([2, 3, 5, 7])
                kw["length_attr"] = "len"
    # additional starts / ends
    if name in HAS_STARTS and (rng.random() < 0.3 if with_starts is None else with_starts) and G.number_of_nodes() > 2:
        st = [v for v in G.nodes() if rng.random() < 0.3]
        en = [v for v in G.nodes() if rng.random() < 0.3]
        kw["additional_starts"] = st; kw["additional_ends"] = en; info["starts"] = st; info["ends"] = en
    if name in K_MODELS:
        kk = max(1, len(set(map(tuple, routes))) + rng.choice([0, 0, 1]))
        kw["k"] = kk
    if name in COVER:
        if node:
            kw["cover_type"] = "node"
    else:
        kw["flow_attr"] = attr
        if node:
            kw["flow_attr_origin"] = "node"
        kw["weight_type"] = int if is_int else float
    if name in ERR and rng.random() < 0.3:
        elems = list(G.nodes()) if node else list(G.edges())
        kw["error_scaling"] = {x: rng.choice([0, 0.5, 1]) for x in elems if rng.random() < 0.3}
    kw["solver_options"] = {"threads": THREADS}
    # the documented domain needs at least one non-ignored weighted element with non-zero error scale
    elems = list(G.nodes()) if node else list(G.edges())
    scal = kw.get("error_scaling", {})
    live = [x for x in elems if x not in info["ignore"] and scal.get(x, 1) != 0 and
            (name in COVER or attr in (G.nodes[x] if node else G.edges[x]))]
    if not live:
        kw.pop("elements_to_ignore", None); kw.pop("error_scaling", None)
        info["ignore"] = [x for x in elems if name not in COVER and attr not in (G.nodes[x] if node else G.edges[x])]
        if len(info["ignore"]) == len(elems):
            return make(rng, name, node, with_starts, with_ignore, with_cons, nmax, exact)
    info.update({"class": name, "kwargs": kw})
    # decoy values: in node mode the EDGES may carry an attribute of the same name (and in edge mode the nodes): the weights live on
    # the nodes (edges) only, so these values must not influence anything
    if rng.random() < 0.15:
        if node:
            for e in G.edges():
                if rng.random() < 0.6:
                    G.edges[e][attr] = cast(rng.choice([0, 1, 7, 50]) * scale)
        else:
            for v in G.nodes():
                if rng.random() < 0.6:
                    G.nodes[v][attr] = cast(rng.choice([0, 1, 7, 50]) * scale)
        info["decoy"] = True
    return info


def construct(info, optimization_options=None):
    import flowpaths as fp
    kw = dict(info["kwargs"])
    if optimization_options is not None:
        kw["optimization_options"] = optimization_options
    return getattr(fp, info["class"])(info["G"], **kw)


def describe(info):
    G = info["G"]
    kw = {k: (v.__name__ if isinstance(v, type) else v) for k, v in info["kwargs"].items()}
    if isinstance(kw.get("error_scaling"), dict):
        kw["error_scaling"] = [[k, v] for k, v in kw["error_scaling"].items()]
    return {"class": info["class"], "nodes": [[v, dict(d)] for v, d in G.nodes(data=True)],
            "edges": [[u, v, dict(d)] for u, v, d in G.edges(data=True)], "kwargs": kw}


def rebuild(desc):
    """inverse of describe (for replay)"""
    G = nx.DiGraph()
    for v, d in desc["nodes"]:
        G.add_node(v, **d)
    for u, v, d in desc["edges"]:
        G.add_edge(u, v, **d)
    kw = dict(desc["kwargs"])
    if "weight_type" in kw:
        kw["weight_type"] = {"int": int, "float": float}[kw["weight_type"]]
    for key in ("elements_to_ignore", "subpath_constraints", "subset_constraints"):
        if key in kw:
            kw[key] = [tuple(x) if (isinstance(x, list) and key == "elements_to_ignore") else
                       ([tuple(e) if isinstance(e, list) else e for e in x] if isinstance(x, list) else x) for x in kw[key]]
    if isinstance(kw.get("error_scaling"), list):
        kw["error_scaling"] = {(tuple(k) if isinstance(k, list) else k): v for k, v in kw["error_scaling"]}
    return {"class": desc["class"], "G": G, "kwargs": kw}
