"""E1 for the model classes: wire encoding of instances taken from a constructed model object and
the column-key mapping (name_prefix, index) -> canonical var tuple of Lin.v."""
from fractions import Fraction as F
import common, lpdump

FAM = {"edge": 0, "pi": 1, "w": 2, "weights": 2, "path_slack": 3, "slack": 3, "gamma": 4, "eps": 5, "r": 6}


def ids_of(st):
    return {v: i for i, v in enumerate(st.nodes())}


def graph_tokens(st, ids):
    nodes = list(st.nodes())
    t = [len(nodes), [ids[v] for v in nodes]]
    es = list(st.edges())
    t += [len(es), [[ids[u], ids[v]] for u, v in es]]
    t += [ids[st.source], ids[st.sink]]
    for adj in (st.successors, st.predecessors):
        t.append(len(nodes))
        for v in nodes:
            ns = list(adj(v)); t += [ids[v], len(ns), [ids[x] for x in ns]]
    return t


def path_inst_tokens(m, ids):
    """m: an AbstractPathModelDAG after construction (not greedy-solved)."""
    st = m.G
    t = graph_tokens(st, ids)
    t += [m.k, bool(m.allow_empty_paths)]
    cons = m.subpath_constraints or []
    t += [len(cons), [[len(c), [[ids[u], ids[v]] for (u, v) in c]] for c in cons]]
    if m.subpath_constraints_coverage_length is None:
        t += common.qtok(m.subpath_constraints_coverage) + [0]
    else:
        es = list(st.edges())
        t += common.qtok(m.subpath_constraints_coverage_length)
        t += [1, len(es), [[ids[u], ids[v]] + common.qtok(st[u][v].get(m.length_attr, 1)) for u, v in es]]
    return t


def edge_list_tokens(es, ids):
    es = list(es)
    return [len(es), [[ids[u], ids[v]] for u, v in es]]


def flow_tokens(st, ids, attr):
    es = [(u, v) for u, v in st.edges() if attr in st[u][v]]
    return [len(es), [[ids[u], ids[v]] + common.qtok(st[u][v][attr]) for u, v in es]]


def colkey_dag(m, ids, extra=None):
    """column index -> canonical var tuple, from the add_variables registry of m.solver"""
    reg = lpdump.registry_for(m.solver)
    extra = extra or {}
    def key(c):
        p, i = reg[c]
        if p in extra:
            return extra[p](i)
        if p in ("edge", "pi", "gamma", "position"):
            fam = {"edge": 0, "pi": 1, "gamma": 4, "position": 10}[p]
            return (fam, ids[i[0]], ids[i[1]], i[2])
        if p in ("w", "weights"):
            return (2, i)
        if p == "r":
            return (6, i[0], i[1])
        raise KeyError((p, i))
    return key


def premises(ctx, engine, m):
    """The instance on which model and code are compared is machine-checked to lie inside the domain of the encoder theorems:
    the extracted VERIFIED checkers WfCheck.premises_b (well-formed s-t graph, adjacency tables consistent with the edge list,
    acyclic by the supplied topological order) and CheckedInstances.cons_ok_b (constraints name edges, non-negative lengths)
    are evaluated on the very tokens the encoder receives (theorems *_checked in CheckedInstances.v)."""
    import networkx as nx
    st = m.G; ids = ids_of(st)
    try:
        order = list(nx.topological_sort(st))
    except Exception:
        order = list(st.nodes())
    t = path_inst_tokens(m, ids) + [len(order), [ids[v] for v in order]]
    out = ctx.model.run(["premises " + common.toks(t)])[0].split()
    ctx.count(engine, "premises_checked")
    if out != ["1", "1"]:
        ctx.count(engine, "premises_failed")
        ctx.report(f"{engine}: the instance handed to the encoder is outside the premises of the encoder theorems "
                   f"(well-formed acyclic s-t graph: {out[0] if out else '?'}, constraints on edges with non-negative lengths: {out[1] if len(out) > 1 else '?'})",
                   {"engine": engine, "nodes": [str(v) for v in st.nodes()], "edges": [[str(u), str(v)] for u, v in st.edges()]}, concrete=False)


EQ_CMDS = {"kfd", "kfdw", "kpc", "klae", "kmpe", "klaec", "kmpec"}        # commands whose handler also offers <cmd>_eq (verified comparison)


def vartok(v):
    return [v[0], len(v) - 1, list(v[1:])]


def impl_lp_tokens(impl):
    """the LP read back from the solver (lpdump.dump_impl) on the wire of lp.ml.in's next_milp; None if it has an infinite bound"""
    cols = []
    for v, (lb, ub, isint) in impl["cols"].items():
        if lb is None or ub is None:
            return None
        cols.append([vartok(v), common.qtok(lb), common.qtok(ub), bool(isint)])
    rows = []
    for terms, lo, hi in impl["rows"]:
        tt = [[vartok(v), common.qtok(c)] for v, c in terms]
        if not terms and lo is None and hi is None:
            continue                                   # a row without variables that holds
        if lo is not None and hi is not None and lo == hi:
            rows.append([2, common.qtok(lo), len(tt), tt])
        else:
            if lo is not None:
                rows.append([1, common.qtok(lo), len(tt), tt])
            if hi is not None:
                rows.append([0, common.qtok(hi), len(tt), tt])
    obj = [[vartok(v), common.qtok(c)] for v, c in impl["obj"].items()]
    return [len(cols), cols, len(rows), rows, len(obj), obj, impl["sense"] == "max"]


def verified_equal(ctx, engine, impl, req):
    """E1 decided by the EXTRACTED VERIFIED checker LinEquiv.milp_equiv_b (theorem milp_equiv_sound: equal satisfying assignments,
    equal objective): the model's LP is rebuilt from the same request, the implementation's LP is sent along."""
    cmd, _, rest = req.partition(" ")
    if cmd not in EQ_CMDS:
        return None
    t = impl_lp_tokens(impl)
    if t is None:
        ctx.count(engine, "verified_equivalence_not_representable"); return None
    out = ctx.model.run([cmd + "_eq " + rest + " " + common.toks(t)])[0].strip()
    ctx.count(engine, "verified_equivalence_checked")
    if out == "1":
        ctx.count(engine, "verified_equivalent"); return True
    ctx.count(engine, "verified_not_equivalent"); return False


def compare(ctx, engine, name, m, impl, req, args, what=("cols", "rows", "obj", "sense")):
    """returns the diff list; bookkeeping on ctx"""
    try:
        premises(ctx, engine, m)
    except Exception as e:
        ctx.report(f"{engine}: premises check crashed: {e!r}", {"engine": engine}, concrete=False)
    out = ctx.model.run([req], multiline=True)[0]
    model = lpdump.parse_model(out)
    d = lpdump.diff(impl, model, what=what)
    if set(what) >= {"cols", "rows", "obj", "sense"}:
        try:
            ve = verified_equal(ctx, engine, impl, req)
        except Exception as e:
            ve = None; ctx.report(f"{engine}: verified LP comparison crashed: {e!r}", {"engine": engine}, concrete=False)
        if ve is not None and ve != (not d):
            # the Python diff and the verified checker disagree: trust the verified one, and say so
            ctx.count(engine, "python_diff_and_verified_checker_disagree")
            if ve is False and not d:
                d = ["the verified checker LinEquiv.milp_equiv_b rejects the equivalence of the two LPs (the Python diff saw none)"]
            elif ve is True and d:
                ctx.notes.append({"verified_checker_accepts_although_python_diff_reports": d[:3]}); d = []
    ctx.count(engine, "cases"); ctx.count(engine, "rows_compared", len(impl["rows"])); ctx.count(engine, "cols_compared", len(impl["cols"]))
    if d:
        ctx.count(engine, "disagreements")
    else:
        ctx.count(engine, "agreements")
    return d
