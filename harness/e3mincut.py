"""E3 for stDAG.compute_max_edge_antichain, the part after the external minimum flow (MinFlowCut.v): on random s-t DAGs with the
default weights or a random integer weight function (zeros and missing entries included) the flow that graphutils.min_cost_flow
returned to the method is tapped, the extracted MinFlowCut.mincut_model (residual search from the source: forward only along edges
whose flow exceeds the lower bound, backward along every edge; then the edges of weight >= 1 leaving the reached set) is run on that
flow, and its antichain is compared as a set with the antichain the implementation returns.  The extracted premise check
MinFlowCut.mincut_premises is evaluated on every instance: duplicate-free nodes/edges, no edge into the source or out of the sink,
every edge reachable from the source, integer non-negative weights, the tapped flow is feasible (f >= w, conservation at the inner
nodes) and THE SINK IS NOT RESIDUAL-REACHABLE -- which is what optimality of the external solver's answer means; with it the theorem
C17_residual_cut_is_a_maximum_antichain_checked applies to the instance (the returned set is a maximum weight antichain, the flow a
minimum flow, the assertion in the code cannot fire)."""
import common, gen


def run_mincut_e3(ctx, n, engine="E3_residual_antichain"):
    import flowpaths as fp
    from flowpaths.utils import graphutils
    reqs = []; cases = []
    for i in range(n):
        rng = ctx.rng("mincut", i)
        G = gen.rand_dag(rng, nmax=rng.choice([4, 5, 6, 7, 8]))
        nodes = list(G.nodes())
        starts = [rng.choice(nodes)] if rng.random() < 0.15 else None
        ends = [rng.choice(nodes)] if rng.random() < 0.15 else None
        st = fp.stDAG(G, additional_starts=starts, additional_ends=ends)
        names = list(st.nodes()); ids = {v: j for j, v in enumerate(names)}; edges = list(st.edges())
        mode = rng.choice(["default", "weights", "weights", "sparse", "sparse", "few", "few", "few", "few", "zero"])
        if mode == "default":
            wf = None; weight = {e: int(e[0] != st.source and e[1] != st.sink) for e in edges}
        else:
            pool = {"weights": [0, 1, 1, 2, 3, 7], "sparse": [0, 0, 0, 1, 5], "few": [0, 0, 1], "zero": [0]}[mode]
            wf = {e: rng.choice(pool) for e in edges if rng.random() < 0.85}
            weight = {e: wf.get(e, 0) for e in edges}
        tapped = {}
        orig = graphutils.min_cost_flow
        def tap(*a, _o=orig, _t=tapped, **k):
            r = _o(*a, **k); _t["cost"], _t["flow"] = r; return r
        graphutils.min_cost_flow = tap
        rep = {"engine": engine, "edges": [[str(u), str(v), weight[(u, v)]] for u, v in edges], "mode": mode}
        try:
            cost, anti = st.compute_max_edge_antichain(get_antichain=True, weight_function=wf)
        except AssertionError as e:
            ctx.report("compute_max_edge_antichain: the assertion 'weight of the extracted antichain == minimum flow' fired", rep); continue
        except Exception as e:
            ctx.report(f"compute_max_edge_antichain raised {e!r}", rep); continue
        finally:
            graphutils.min_cost_flow = orig
        flow = tapped.get("flow")
        if flow is None:
            ctx.report("compute_max_edge_antichain did not obtain a flow from graphutils.min_cost_flow", rep); continue
        rep.update(cost=cost, antichain=[[str(u), str(v)] for u, v in anti], flow=[[str(u), str(v), flow[u][v]] for u, v in edges])
        if cost != sum(weight[e] for e in anti) or len(set(anti)) != len(anti):
            ctx.report("the returned antichain does not weigh the returned cost (or repeats an edge)", rep); continue
        reqs.append("mincut " + common.toks(len(names), list(range(len(names))), len(edges),
                                            [[ids[u], ids[v], int(weight[(u, v)]), 1, int(flow[u][v]), 1] for u, v in edges],
                                            ids[st.source], ids[st.sink]))
        cases.append((rep, sorted((ids[u], ids[v]) for u, v in anti), cost))
    outs = ctx.model.run(reqs) if reqs else []
    for (rep, impl, cost), out in zip(cases, outs):
        ctx.count(engine, "cases")
        tv = [int(x) for x in out.split()]
        ok = tv[0]; nr = tv[1]; R = tv[2:2 + nr]; na = tv[2 + nr]; rest = tv[3 + nr:]
        model = sorted((rest[2 * j], rest[2 * j + 1]) for j in range(na))
        if ok == 1:
            ctx.count(engine, "theorem_premises_hold")
        else:
            ctx.report("the premises of C17_residual_cut_is_a_maximum_antichain_checked do not hold for the flow graphutils.min_cost_flow returned "
                       "(not feasible, or the sink is residual-reachable: the flow is not a minimum flow)", dict(rep, reached=R), concrete=False)
        if model == impl:
            ctx.count(engine, "agreements")
            if cost >= 2: ctx.count(engine, "optimum_at_least_2")
        else:
            ctx.count(engine, "disagreements")
            ctx.report("E3 correspondence broken: the antichain compute_max_edge_antichain extracts from the minimum flow differs from "
                       "MinFlowCut.mincut_model run on the same flow", dict(rep, model=[list(x) for x in model], reached=R), concrete=False)
        ctx.case(["mincut", rep["edges"]], nontrivial=cost >= 2)
