"""The properties stated directly on the implementation's outputs (used by every engine to decide
whether a disagreement or an answer is a concrete failing input)."""
import collections
from fractions import Fraction as F


def route_edges(r):
    return list(zip(r, r[1:]))


def valid_route(G, route, starts=(), ends=(), simple=False):
    """C01: nodes of G, consecutive pairs are edges, starts at in-degree-0 node or declared start,
    ends at out-degree-0 node or declared end; simple if requested.  Returns None or a reason."""
    if len(route) == 0:
        return "empty route"
    for v in route:
        if v not in G:
            return f"node {v!r} is not a node of the caller's graph"
    for e in route_edges(route):
        if not G.has_edge(*e):
            return f"{e} is not an edge of the caller's graph"
    if not (G.in_degree(route[0]) == 0 or route[0] in starts):
        return f"starts at {route[0]!r} which has incoming edges and is not an additional start"
    if not (G.out_degree(route[-1]) == 0 or route[-1] in ends):
        return f"ends at {route[-1]!r} which has outgoing edges and is not an additional end"
    if simple and len(set(route)) != len(route):
        return "path repeats a node"
    return None


def explains_flow(G, attr, routes, weights, ignore=(), exact=True, tol=1e-6):
    """C02: for every non-ignored edge sum_i w_i * mult_i(e) == f(e)"""
    acc = collections.defaultdict(lambda: F(0) if exact else 0.0)
    for r, w in zip(routes, weights):
        for e in route_edges(r):
            acc[e] += (F(w) if exact else float(w))
    ign = set(ignore)
    for u, v, d in G.edges(data=True):
        if (u, v) in ign or attr not in d:
            continue
        if exact:
            if acc[(u, v)] != F(d[attr]):
                return f"edge {(u, v)}: explained {acc[(u, v)]} != flow {d[attr]}"
        else:
            n = sum(1 for r in routes if (u, v) in route_edges(r)) + 1
            if abs(acc[(u, v)] - float(d[attr])) > tol * n:
                return f"edge {(u, v)}: explained {acc[(u, v)]} != flow {d[attr]} (tol {tol * n})"
    return None


def constraint_covered(cons, routes, coverage=1.0, lengths=None, as_set=False):
    """C10: some single route contains >= coverage fraction (by edges or by length) of the constraint"""
    lengths = lengths or {}
    for c in cons:
        total = sum(lengths.get(e, 1) for e in c)
        best = 0
        for r in routes:
            es = route_edges(r)
            cnt = collections.Counter(es)
            if as_set:
                got = sum(lengths.get(e, 1) for e in set(c) if cnt[e] > 0)
                total_c = sum(lengths.get(e, 1) for e in set(c))
            else:
                got = sum(lengths.get(e, 1) for e in c if cnt[e] > 0)
                total_c = total
            best = max(best, got - 0 if total_c == 0 else got)
            if got >= coverage * total_c - 1e-9:
                break
        else:
            return f"constraint {c} not covered to {coverage} by a single route"
    return None


def covers(G, routes, ignore=()):
    ign = set(ignore); seen = set()
    for r in routes:
        seen.update(route_edges(r))
    for e in G.edges():
        if e not in ign and e not in seen:
            return f"edge {e} is not covered"
    return None


# ---------------------------------------------------------------------------------------------
# error models (C07 / C08).  Elements are edges (flow_attr_origin="edge") or nodes ("node"); a route
# "uses" an element if it traverses the edge / visits the node (counted with multiplicity for walks).
def _num(x, exact):
    return F(x) if exact else float(x)


def err_elements(G, attr, origin="edge", ignore=(), scaling=None):
    """the non-ignored weighted elements with (flow value, scale): ignored = listed, scale 0, or
    (node origin) without the attribute"""
    scaling = scaling or {}
    ign = set(ignore)
    out = {}
    items = G.edges(data=True) if origin == "edge" else G.nodes(data=True)
    for it in items:
        x = (it[0], it[1]) if origin == "edge" else it[0]
        d = it[-1]
        if x in ign or scaling.get(x, 1) == 0 or attr not in d:
            continue
        out[x] = (d[attr], scaling.get(x, 1))
    return out


def usage(routes, origin="edge"):
    """per route: Counter element -> multiplicity"""
    res = []
    for r in routes:
        res.append(collections.Counter(route_edges(r) if origin == "edge" else list(r)))
    return res


def abs_errors(G, attr, routes, weights, origin="edge", ignore=(), scaling=None, exact=True):
    """element -> |f - sum_i w_i * mult_i| over the non-ignored weighted elements"""
    el = err_elements(G, attr, origin, ignore, scaling)
    us = usage(routes, origin)
    out = {}
    for x, (f, s) in el.items():
        tot = sum((_num(w, exact) * u[x] for u, w in zip(us, weights)), _num(0, exact))
        out[x] = abs(_num(f, exact) - tot)
    return out


def lae_objective(G, attr, routes, weights, origin="edge", ignore=(), scaling=None, exact=True):
    el = err_elements(G, attr, origin, ignore, scaling)
    errs = abs_errors(G, attr, routes, weights, origin, ignore, scaling, exact)
    return sum((_num(el[x][1], exact) * errs[x] for x in el), _num(0, exact)), errs


def mpe_feasible(G, attr, routes, weights, slacks, origin="edge", ignore=(), scaling=None, exact=True, tol=1e-6):
    """C08: for every non-ignored element scale*|f - sum w| <= sum of the (scaled) slacks of the routes
    through it (with multiplicity).  Returns None or a reason."""
    el = err_elements(G, attr, origin, ignore, scaling)
    errs = abs_errors(G, attr, routes, weights, origin, ignore, scaling, exact)
    us = usage(routes, origin)
    for x, (f, s) in el.items():
        sl = sum((_num(z, exact) * u[x] for u, z in zip(us, slacks)), _num(0, exact))
        lhs = _num(s, exact) * errs[x]
        n = sum(1 for u in us if u[x]) + 1
        if lhs > sl + (0 if exact else tol * n):
            return f"element {x}: scale*|f - explained| = {lhs} > slack through it {sl}"
    return None
