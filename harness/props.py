"""The properties stated directly on the implementation's outputs (used by every engine to decide
whether a disagreement or an answer is a concrete failing input)."""
import collections
from fractions import Fraction as F


def route_edges(r):
    return list(zip(r, r[1:]))


def valid_route(G, route, starts=(), ends=(), simple=False):
    """C01: nodes of G, consecutive pairs are edges, starts at in-degree-0 node or declared start,
    ends at out-degree-0 node or declared end; simple if requested.  Returns None or a reason."""
    if len(route) == 0:
        return "empty route"
    for v in route:
        if v not in G:
            return f"node {v!r} is not a node of the caller's graph"
    for e in route_edges(route):
        if not G.has_edge(*e):
            return f"{e} is not an edge of the caller's graph"
    if not (G.in_degree(route[0]) == 0 or route[0] in starts):
        return f"starts at {route[0]!r} which has incoming edges and is not an additional start"
    if not (G.out_degree(route[-1]) == 0 or route[-1] in ends):
        return f"ends at {route[-1]!r} which has outgoing edges and is not an additional end"
    if simple and len(set(route)) != len(route):
        return "path repeats a node"
    return None


def explains_flow(G, attr, routes, weights, ignore=(), exact=True, tol=1e-6):
    """C02: for every non-ignored edge sum_i w_i * mult_i(e) == f(e)"""
    acc = collections.defaultdict(lambda: F(0) if exact else 0.0)
    for r, w in zip(routes, weights):
        for e in route_edges(r):
            acc[e] += (F(w) if exact else float(w))
    ign = set(ignore)
    for u, v, d in G.edges(data=True):
        if (u, v) in ign or attr not in d:
            continue
        if exact:
            if acc[(u, v)] != F(d[attr]):
                return f"edge {(u, v)}: explained {acc[(u, v)]} != flow {d[attr]}"
        else:
            n = sum(1 for r in routes if (u, v) in route_edges(r)) + 1
            if abs(acc[(u, v)] - float(d[attr])) > tol * n:
                return f"edge {(u, v)}: explained {acc[(u, v)]} != flow {d[attr]} (tol {tol * n})"
    return None


def constraint_covered(cons, routes, coverage=1.0, lengths=None, as_set=False):
    """C10: some single route contains >= coverage fraction (by edges or by length) of the constraint"""
    lengths = lengths or {}
    for c in cons:
        total = sum(lengths.get(e, 1) for e in c)
        best = 0
        for r in routes:
            es = route_edges(r)
            cnt = collections.Counter(es)
            if as_set:
                got = sum(lengths.get(e, 1) for e in set(c) if cnt[e] > 0)
                total_c = sum(lengths.get(e, 1) for e in set(c))
            else:
                got = sum(lengths.get(e, 1) for e in c if cnt[e] > 0)
                total_c = total
            best = max(best, got - 0 if total_c == 0 else got)
            if got >= coverage * total_c - 1e-9:
                break
        else:
            return f"constraint {c} not covered to {coverage} by a single route"
    return None


def covers(G, routes, ignore=()):
    ign = set(ignore); seen = set()
    for r in routes:
        seen.update(route_edges(r))
    for e in G.edges():
        if e not in ign and e not in seen:
            return f"edge {e} is not covered"
    return None


# ---- appended for the cyclic models (C04 and friends) ----
def subset_constraints_covered(cons, routes, coverage=1.0):
    """walk models: each constraint is a SET of edges; some single walk must use >= coverage * |set| of them"""
    for c in cons or []:
        cs = set(map(tuple, c))
        need = len(cs) * coverage - 1e-9
        if not any(sum(1 for e in cs if e in set(route_edges(r))) >= need for r in routes):
            return f"subset constraint {sorted(cs)} not covered to {coverage} by a single walk"
    return None


def walk_decomposition_ok(G, attr, walks, weights, weight_type, ignore=(), cons=(), coverage=1.0, tol=1e-6):
    """C01 + C02 + C10 clauses for a solution of a cyclic flow-decomposition model, evaluated directly on the
    caller's graph.  Returns None or the reason."""
    if len(walks) != len(weights):
        return "number of weights differs from number of walks"
    for w in walks:
        why = valid_route(G, w)
        if why:
            return f"walk {w}: {why}"
    for x in weights:
        if weight_type == int and not isinstance(x, int):
            return f"weight {x!r} has type {type(x).__name__}, requested int"
        if weight_type == float and not isinstance(x, (int, float)):
            return f"weight {x!r} has type {type(x).__name__}, requested float"
        if x < -1e-9:
            return f"negative weight {x!r}"
    why = explains_flow(G, attr, walks, weights, ignore=ignore, exact=(weight_type == int), tol=tol)
    if why:
        return why
    return subset_constraints_covered(cons, walks, coverage)
