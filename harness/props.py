"""The properties stated directly on the implementation's outputs (used by every engine to decide
whether a disagreement or an answer is a concrete failing input)."""
import collections
from fractions import Fraction as F


def route_edges(r):
    return list(zip(r, r[1:]))


def valid_route(G, route, starts=(), ends=(), simple=False):
    """C01: nodes of G, consecutive pairs are edges, starts at in-degree-0 node or declared start,
    ends at out-degree-0 node or declared end; simple if requested.  Returns None or a reason."""
    if len(route) == 0:
        return "empty route"
    for v in route:
        if v not in G:
            return f"node {v!r} is not a node of the caller's graph"
    for e in route_edges(route):
        if not G.has_edge(*e):
            return f"{e} is not an edge of the caller's graph"
    if not (G.in_degree(route[0]) == 0 or route[0] in starts):
        return f"starts at {route[0]!r} which has incoming edges and is not an additional start"
    if not (G.out_degree(route[-1]) == 0 or route[-1] in ends):
        return f"ends at {route[-1]!r} which has outgoing edges and is not an additional end"
    if simple and len(set(route)) != len(route):
        return "path repeats a node"
    return None


def explains_flow(G, attr, routes, weights, ignore=(), exact=True, tol=1e-6):
    """C02: for every non-ignored edge sum_i w_i * mult_i(e) == f(e)"""
    acc = collections.defaultdict(lambda: F(0) if exact else 0.0)
    for r, w in zip(routes, weights):
        for e in route_edges(r):
            acc[e] += (F(w) if exact else float(w))
    ign = set(ignore)
    for u, v, d in G.edges(data=True):
        if (u, v) in ign or attr not in d:
            continue
        if exact:
            if acc[(u, v)] != F(d[attr]):
                return f"edge {(u, v)}: explained {acc[(u, v)]} != flow {d[attr]}"
        else:
            n = sum(1 for r in routes if (u, v) in route_edges(r)) + 1
            if abs(acc[(u, v)] - float(d[attr])) > tol * n:
                return f"edge {(u, v)}: explained {acc[(u, v)]} != flow {d[attr]} (tol {tol * n})"
    return None


def constraint_covered(cons, routes, coverage=1.0, lengths=None, as_set=False):
    """C10: some single route contains >= coverage fraction (by edges or by length) of the constraint"""
    lengths = lengths or {}
    for c in cons:
        total = sum(lengths.get(e, 1) for e in c)
        best = 0
        for r in routes:
            es = route_edges(r)
            cnt = collections.Counter(es)
            if as_set:
                got = sum(lengths.get(e, 1) for e in set(c) if cnt[e] > 0)
                total_c = sum(lengths.get(e, 1) for e in set(c))
            else:
                got = sum(lengths.get(e, 1) for e in c if cnt[e] > 0)
                total_c = total
            best = max(best, got - 0 if total_c == 0 else got)
            if got >= coverage * total_c - 1e-9:
                break
        else:
            return f"constraint {c} not covered to {coverage} by a single route"
    return None


def covers(G, routes, ignore=()):
    ign = set(ignore); seen = set()
    for r in routes:
        seen.update(route_edges(r))
    for e in G.edges():
        if e not in ign and e not in seen:
            return f"edge {e} is not covered"
    return None


# ---- appended for the cyclic models (C04 and friends) ----
def subset_constraints_covered(cons, routes, coverage=1.0):
    """walk models: each constraint is a SET of edges; some single walk must use >= coverage * |set| of them"""
    for c in cons or []:
        cs = set(map(tuple, c))
        need = len(cs) * coverage - 1e-9
        if not any(sum(1 for e in cs if e in set(route_edges(r))) >= need for r in routes):
            return f"subset constraint {sorted(cs)} not covered to {coverage} by a single walk"
    return None


def walk_decomposition_ok(G, attr, walks, weights, weight_type, ignore=(), cons=(), coverage=1.0, tol=1e-6):
    """C01 + C02 + C10 clauses for a solution of a cyclic flow-decomposition model, evaluated directly on the
    caller's graph.  Returns None or the reason."""
    if len(walks) != len(weights):
        return "number of weights differs from number of walks"
    for w in walks:
        why = valid_route(G, w)
        if why:
            return f"walk {w}: {why}"
    for x in weights:
        if weight_type == int and not isinstance(x, int):
            return f"weight {x!r} has type {type(x).__name__}, requested int"
        if weight_type == float and not isinstance(x, (int, float)):
            return f"weight {x!r} has type {type(x).__name__}, requested float"
        if x < -1e-9:
            return f"negative weight {x!r}"
    why = explains_flow(G, attr, walks, weights, ignore=ignore, exact=(weight_type == int), tol=tol)
    if why:
        return why
    return subset_constraints_covered(cons, walks, coverage)
# ======================================================================================
# C15 / C16 oracles (added at the end; nothing above is changed)
# ======================================================================================
import itertools


def _gen_by(g, a, mult, exact=True, tol=1e-6):
    """is `a` a sum  sum_i x_i * g_i  with integer 0 <= x_i <= mult ?  (exhaustive)"""
    for xs in itertools.product(range(mult + 1), repeat=len(g)):
        s = sum(x * v for x, v in zip(xs, g))
        if (s == a) if exact else (abs(s - a) <= tol):
            return True
    return False


def _partition_ok(g, cons, exact=True, tol=1e-6):
    """every element of g assigned to exactly one part, part sums equal the constraint's numbers"""
    t = len(cons)
    for assign in itertools.product(range(t), repeat=len(g)):
        sums = [0] * t
        for v, j in zip(g, assign):
            sums[j] += v
        if all(((s == c) if exact else (abs(s - c) <= tol)) for s, c in zip(sums, cons)):
            return True
    return False


def genset_ok(numbers, total, sol, mult=1, parts=None, exact=True, tol=1e-6):
    """C15: non-negative values, sum == total, every input number a sub-multiset sum with
    multiplicities <= mult, partition constraints respected.  Returns None or (reason, tag)."""
    conv = (lambda x: F(x)) if exact else float
    g = [conv(x) for x in sol]
    if any(v < (0 if exact else -tol) for v in g):
        return ("negative element in the generating set", "negative")
    s = sum(g)
    if (s != conv(total)) if exact else (abs(s - float(total)) > tol):
        return (f"elements sum to {s}, not to total {total}", "sum")
    for a in numbers:
        if not _gen_by(g, conv(a), mult, exact, tol):
            return (f"input number {a} is not a sum of elements of {sol} with multiplicities <= {mult}", ("number", a))
    for c in (parts or []):
        if not _partition_ok(g, [conv(x) for x in c], exact, tol):
            return (f"partition constraint {c} cannot be met by {sol}", "partition")
    return None


def min_genset(numbers, total, mult=1, parts=None, lowerbound=1, maxsize=4):
    """exhaustive minimum size (>= lowerbound) of an integer generating multiset over 0..total,
    or None when there is none of size <= maxsize.  Returns (size, witness)."""
    total = int(total)
    nums = sorted(set(int(a) for a in numbers))
    for k in range(max(1, lowerbound), maxsize + 1):
        for g in itertools.combinations_with_replacement(range(total + 1), k):
            if sum(g) != total:
                continue
            if genset_ok(nums, total, g, mult, parts) is None:
                return k, list(g)
    return None


def setcover_ok(universe, subsets, chosen):
    """C15: chosen are indices of subsets and every element of the universe lies in a chosen subset"""
    for i in chosen:
        if not (isinstance(i, int) and 0 <= i < len(subsets)):
            return f"{i!r} is not an index of a subset"
    if len(set(chosen)) != len(chosen):
        return "a subset index is returned twice"
    for el in universe:
        if not any(el in subsets[i] for i in chosen):
            return f"element {el!r} is not covered"
    return None


def min_setcover(universe, subsets, weights):
    """exhaustive minimum total weight of a cover (2^n subsets), None when there is no cover"""
    n = len(subsets); best = None
    for mask in range(1 << n):
        ch = [i for i in range(n) if mask >> i & 1]
        if setcover_ok(universe, subsets, ch) is None:
            w = sum(F(weights[i]) for i in ch)
            if best is None or w < best[0]:
                best = (w, ch)
    return best


def flow_node_types(G, starts=(), ends=(), acyclic=True):
    """per node the conservation requirement MinErrorFlow's documentation states:
    'eq' in == out; 'start' out >= in; 'end' in >= out; 'free' none.  On graphs with cycles the
    additional starts/ends are documented not to apply."""
    ty = {}
    for v in G.nodes():
        s = G.in_degree(v) == 0 or (acyclic and v in starts)
        t = G.out_degree(v) == 0 or (acyclic and v in ends)
        ty[v] = "free" if (s and t) else "start" if s else "end" if t else "eq"
    return ty


def is_flow(G, x, types, tol=0):
    """x: {edge: value}.  Returns None or a reason."""
    for e, v in x.items():
        if v < -tol:
            return f"negative value {v} on {e}"
    for v in G.nodes():
        i = sum(x[e] for e in G.in_edges(v)); o = sum(x[e] for e in G.out_edges(v))
        t = types[v]
        if t == "eq" and abs(i - o) > tol:
            return f"conservation violated at {v!r}: in {i} out {o}"
        if t == "start" and o - i < -tol:
            return f"node {v!r} (start) has out {o} < in {i}"
        if t == "end" and i - o < -tol:
            return f"node {v!r} (end) has in {i} < out {o}"
    return None


def flow_cost(G, x, f, charged, scale, types, lam=0, scaled=True):
    """sum over charged edges of (scale_e *) |f_e - x_e|  (+ lam * flow entering at start-capable nodes)"""
    c = sum((scale.get(e, 1) if scaled else 1) * abs(f[e] - x[e]) for e in charged)
    if lam and scaled:
        for v in G.nodes():
            if types[v] in ("start", "free"):
                i = sum(x[e] for e in G.in_edges(v)); o = sum(x[e] for e in G.out_edges(v))
                c += lam * max(0, o - i)
    return c


def min_l1_flow(G, f, charged, scale, types, lam=0, bound=None, budget=400000):
    """exhaustive minimum of flow_cost over INTEGER flows 0 <= x_e <= bound on all edges of G
    (bound default = sum of the charged values, which loses nothing: in a path/cycle decomposition of an
    optimal flow every component contains a charged edge with x_e <= f_e).  Depth-first over the edges,
    checking each node as soon as its last incident edge is assigned, with cost-based pruning.
    Returns (cost, witness) or None if the node budget was exhausted."""
    es = list(G.edges())
    if bound is None:
        bound = int(sum(F(f[e]) for e in charged))
    last = {}
    for idx, e in enumerate(es):
        last[e[0]] = idx; last[e[1]] = idx
    done_at = {}
    for v, idx in last.items():
        done_at.setdefault(idx, []).append(v)
    x = {}; best = [None, None]; steps = [0]
    ch = set(charged)
    inn = {v: 0 for v in G.nodes()}; out = {v: 0 for v in G.nodes()}

    def node_ok(v):
        t = types[v]
        if t == "eq": return inn[v] == out[v]
        if t == "start": return out[v] >= inn[v]
        if t == "end": return inn[v] >= out[v]
        return True

    def rec(idx, cost):
        steps[0] += 1
        if steps[0] > budget:
            raise TimeoutError
        if best[0] is not None and cost >= best[0]:
            return
        if idx == len(es):
            c = cost
            if lam:
                for v in G.nodes():
                    if types[v] in ("start", "free"):
                        c += lam * max(0, out[v] - inn[v])
            if best[0] is None or c < best[0]:
                best[0] = c; best[1] = dict(x)
            return
        e = es[idx]; u, v = e
        # try values nearest to f first so that pruning bites early
        order = sorted(range(bound + 1), key=lambda val: abs(val - (f[e] if e in ch else 0)))
        for val in order:
            x[e] = val; out[u] += val; inn[v] += val
            if all(node_ok(w) for w in done_at.get(idx, [])):
                rec(idx + 1, cost + (scale.get(e, 1) * abs(F(f[e]) - val) if e in ch else 0))
            out[u] -= val; inn[v] -= val
        x.pop(e, None)

    try:
        rec(0, F(0))
    except TimeoutError:
        return None
    return best[0], best[1]
# ---------------------------------------------------------------------------------------------
# error models (C07 / C08).  Elements are edges (flow_attr_origin="edge") or nodes ("node"); a route
# "uses" an element if it traverses the edge / visits the node (counted with multiplicity for walks).
def _num(x, exact):
    return F(x) if exact else float(x)


def err_elements(G, attr, origin="edge", ignore=(), scaling=None):
    """the non-ignored weighted elements with (flow value, scale): ignored = listed, scale 0, or
    (node origin) without the attribute"""
    scaling = scaling or {}
    ign = set(ignore)
    out = {}
    items = G.edges(data=True) if origin == "edge" else G.nodes(data=True)
    for it in items:
        x = (it[0], it[1]) if origin == "edge" else it[0]
        d = it[-1]
        if x in ign or scaling.get(x, 1) == 0 or attr not in d:
            continue
        out[x] = (d[attr], scaling.get(x, 1))
    return out


def usage(routes, origin="edge"):
    """per route: Counter element -> multiplicity"""
    res = []
    for r in routes:
        res.append(collections.Counter(route_edges(r) if origin == "edge" else list(r)))
    return res


def abs_errors(G, attr, routes, weights, origin="edge", ignore=(), scaling=None, exact=True):
    """element -> |f - sum_i w_i * mult_i| over the non-ignored weighted elements"""
    el = err_elements(G, attr, origin, ignore, scaling)
    us = usage(routes, origin)
    out = {}
    for x, (f, s) in el.items():
        tot = sum((_num(w, exact) * u[x] for u, w in zip(us, weights)), _num(0, exact))
        out[x] = abs(_num(f, exact) - tot)
    return out


def lae_objective(G, attr, routes, weights, origin="edge", ignore=(), scaling=None, exact=True):
    el = err_elements(G, attr, origin, ignore, scaling)
    errs = abs_errors(G, attr, routes, weights, origin, ignore, scaling, exact)
    return sum((_num(el[x][1], exact) * errs[x] for x in el), _num(0, exact)), errs


def mpe_feasible(G, attr, routes, weights, slacks, origin="edge", ignore=(), scaling=None, exact=True, tol=1e-6):
    """C08: for every non-ignored element scale*|f - sum w| <= sum of the (scaled) slacks of the routes
    through it (with multiplicity).  Returns None or a reason."""
    el = err_elements(G, attr, origin, ignore, scaling)
    errs = abs_errors(G, attr, routes, weights, origin, ignore, scaling, exact)
    us = usage(routes, origin)
    for x, (f, s) in el.items():
        sl = sum((_num(z, exact) * u[x] for u, z in zip(us, slacks)), _num(0, exact))
        lhs = _num(s, exact) * errs[x]
        n = sum(1 for u in us if u[x]) + 1
        if lhs > sl + (0 if exact else tol * n):
            return f"element {x}: scale*|f - explained| = {lhs} > slack through it {sl}"
    return None
