"""E3 for the dominator route to safe sequences in digraphs with cycles (flowpaths/utils/safetypathcoverscycles.py, dominators.py)
against the extracted DomAlg model -- the functions the theorems C06_find_idom_is_the_first_dominator,
C06_dominator_chain_model_is_the_dominator_order and C06_dominator_sequences_are_safe are about.  On the cyclic instances of the C06
engine (random digraphs and SCC gadgets on which every arc lies on a source-to-sink walk, with its trusted sets X):
  * the s_idoms / t_idoms dictionaries that maximal_safe_sequences_via_dominators computes with find_idom (one augmenting path and a
    residual search) and hands to Arc_Dominator_Tree are tapped and compared, arc by arc, with DomAlg.idom_s / idom_t (the first arc
    on every walk to the source / sink, computed from the definition with the verified closure);
  * the returned list of sequences is compared, as a set, with DomAlg.dominator_sequences (trees restricted to X, unitary paths,
    cores, chains).
The precondition of the theorems -- every arc lies between the source and the sink -- holds by construction of stDiGraph on these
instances and is re-checked here with networkx."""
import networkx as nx
import common


def run_dom_e3(ctx, n, engine="E3_dominator_sequences"):
    import flowpaths as fp
    from flowpaths.utils import safetypathcoverscycles as spcc
    from flowpaths.utils import dominators as dom
    from engines import c06
    reqs = []; cases = []
    for i in range(n):
        rng = ctx.rng("dom", i)
        try:
            spec = c06.gen_cyc_spec(rng, i)
        except ValueError:
            continue
        G = c06.base_graph(spec)
        try:
            st = fp.stDiGraph(G)
        except Exception as e:
            ctx.count(engine, "constructor_raised"); continue
        g = c06.Gr(st)
        X = [tuple(e) for e in g.denorm(spec["X"])]
        if not X:
            ctx.count(engine, "empty_X"); continue
        edges = list(st.edges()); ids = {v: j for j, v in enumerate(st.nodes())}
        rep = {"engine": engine, "edges": [[str(u), str(v)] for u, v in edges], "X": [[str(u), str(v)] for u, v in X]}
        # the precondition: every arc between source and sink
        down = nx.descendants(st, st.source) | {st.source}; up = nx.ancestors(st, st.sink) | {st.sink}
        if any(u not in down or v not in up for u, v in edges):
            ctx.count(engine, "precondition_fails"); continue
        tapped = []
        orig = dom.Arc_Dominator_Tree.__init__
        def tap(self, nn, start, idoms, edgelist, XX, idd, _o=orig, _t=tapped):
            _t.append((start, dict(idoms))); return _o(self, nn, start, idoms, edgelist, XX, idd)
        dom.Arc_Dominator_Tree.__init__ = tap
        try:
            seqs = spcc.maximal_safe_sequences_via_dominators(st, set(X))
        except Exception as e:
            ctx.report(f"maximal_safe_sequences_via_dominators raised {e!r} although every arc lies between source and sink", rep); continue
        finally:
            dom.Arc_Dominator_Tree.__init__ = orig
        if len(tapped) != 2:
            ctx.report("maximal_safe_sequences_via_dominators did not build its two dominator trees", rep); continue
        (ss, sid), (tt, tid) = tapped
        enc = lambda x, root: (-1, -1) if x == root else (ids[x[0]], ids[x[1]])
        impl_idoms = [enc(sid[e], st.source) + enc(tid[e], st.sink) for e in edges]
        impl_seqs = sorted(tuple((ids[u], ids[v]) for u, v in q) for q in seqs)
        rep.update(sequences=[[[str(u), str(v)] for u, v in q] for q in seqs])
        reqs.append("domseq " + common.toks(len(edges), [[ids[u], ids[v]] for u, v in edges], ids[st.source], ids[st.sink],
                                            len(X), [[ids[u], ids[v]] for u, v in X]))
        cases.append((rep, impl_idoms, impl_seqs, len(edges)))
    outs = ctx.model.run(reqs) if reqs else []
    for (rep, impl_idoms, impl_seqs, ne), out in zip(cases, outs):
        ctx.count(engine, "cases")
        tv = [int(x) for x in out.split()]
        assert tv[0] == ne
        model_idoms = [tuple(tv[1 + 4 * j: 5 + 4 * j]) for j in range(ne)]
        pos = 1 + 4 * ne; ns = tv[pos]; pos += 1; model_seqs = []
        for _ in range(ns):
            ln = tv[pos]; pos += 1
            model_seqs.append(tuple((tv[pos + 2 * j], tv[pos + 2 * j + 1]) for j in range(ln))); pos += 2 * ln
        model_seqs = sorted(model_seqs)
        ok1 = model_idoms == [tuple(x) for x in impl_idoms]; ok2 = model_seqs == impl_seqs
        if ok1: ctx.count(engine, "idoms_agree")
        else:
            ctx.report("E3 correspondence broken: find_idom's immediate dominators differ from DomAlg.idom_s / idom_t (the first arc on every "
                       "walk to the source / sink)", dict(rep, model=model_idoms, implementation=impl_idoms), concrete=False)
        if ok2:
            ctx.count(engine, "sequences_agree")
            if impl_seqs: ctx.count(engine, "with_sequences")
        else:
            ctx.report("E3 correspondence broken: maximal_safe_sequences_via_dominators differs from DomAlg.dominator_sequences",
                       dict(rep, model=[list(map(list, q)) for q in model_seqs], implementation=[list(map(list, q)) for q in impl_seqs]), concrete=False)
        ctx.case(["dom", rep["edges"], rep["X"]], nontrivial=bool(impl_seqs))
