"""C04 — MinFlowDecompCycles finds a decomposition into the fewest walks; scale invariance.
E1: the LP of every kFlowDecompCycles that is constructed (stand-alone with random k / option vectors /
    given weights, and each k tried inside MinFlowDecompCycles.solve) == WalkEncRows.encode_kfdc.
E4: the k sequence / statuses / answer of MinFlowDecompCycles.solve == WalkSearch.mfdc_solve (extracted).
E2: every solution is checked directly (walks of the caller's graph, weights * multiplicities explain the flow,
    weight type, subset constraints); minimality against an exhaustive search on tiny instances; metamorphic
    scale runs (factors 1/4, 1/2, 2, 2.5, 4, float weights)."""
import math
from fractions import Fraction as F
import networkx as nx
import common, gen, gen2, lpdump, e1, e1cyc, props, oracle_walks as ow, voracle_walks

LEVEL = "proof"
EXPLANATION = (
    "Props/C04.v (closed under the global context): C04_lp_solution_is_decomposition — every assignment satisfying "
    "WalkEncRows.encode_kfdc I (the LP of kFlowDecompCycles for one k) is a decomposition into k source-to-sink walks "
    "(Hierholzer reconstruction succeeds per layer and uses each edge exactly x_i(e) times) with weights of the requested "
    "type that explain every non-ignored edge's flow, for every digraph, option vector and product encoding; "
    "C04_search_* — WalkSearch.mfdc_solve (model of MinFlowDecompCycles.solve) returns the least k whose LP the solver proves "
    "feasible and no answer after an inconclusive status. PARTIAL: the converse (every decomposition into k walks is an LP "
    "solution), needed for 'fewest over ALL decompositions', is refuted for the code as it is "
    "(C04_full_statement_refuted, C04_scale_invariance_refuted: repetition cap = the edge's own flow value, finding "
    "rep_cap_from_own_flow) and for integer flows it is only sampled by the exhaustive E2 oracle on tiny instances. "
    "Tie: E1 row-for-row LP equality per constructed model (reachability, SCC membership, caps, w_max, zero/fix rows, "
    "Pi shortcuts recomputed by the Coq model), E4 search correspondence, E2 direct property checks on every answer.")
ASSUMPTIONS = [
    "HiGHS: status kOptimal => assignment satisfies the rows within 1e-9; kInfeasible => no satisfying assignment (solver specification, DESIGN §4)",
    "safe_lists / walks_to_fix (dominator algorithm, incompatible-sequence selection) are read from the model object; their admissibility is C06's subject",
    "minimality over all decompositions: exhaustive search (unverified Python, every witness re-checked against the property) on instances with <= 6 edges, flow values <= 3, k <= 3",
    "float weights: tolerance 1e-6 per traversal when comparing explained flow"]
TRUSTED = ["models: coq/theories/WalkEncRows.v, WalkSearch.v, Blocks.v; harness/e1cyc.py, lpdump.py, oracle_walks.py (search side)"]
THREADS = 1
KEY_CAP = "rep_cap_from_own_flow"
FACTORS = [F(1, 4), F(1, 2), F(2), F(5, 2), F(4)]


# ----------------------------------------------------------------------------------------- hook
class Hook:
    """wraps kFlowDecompCycles.__init__ / solve from outside: E1 on every constructed model, status log"""
    installed = False
    ctx = None
    log = None          # list of dict(k, given, status, model)

    @classmethod
    def install(cls):
        if cls.installed:
            return
        import flowpaths.kflowdecompcycles as kmod
        K = kmod.kFlowDecompCycles
        orig_init = K.__init__
        orig_solve = K.solve

        def init(self, *a, **kw):
            lpdump.reset()
            orig_init(self, *a, **kw)
            if cls.ctx is not None and not a and kw.get("flow_attr_origin", "edge") == "edge":
                cls.on_construct(self, kw)

        def solve(self, *a, **kw):
            r = orig_solve(self, *a, **kw)
            if cls.log is not None:
                for rec in cls.log:
                    if rec["model"] is self:
                        rec["status"] = self.solver.get_model_status()
            return r
        K.__init__ = init
        K.solve = solve
        cls.installed = True

    @classmethod
    def on_construct(cls, m, kw):
        ctx = cls.ctx
        args = dict(kw)
        d, impl = e1cyc.compare(ctx, "E1_kFlowDecompCycles_LP", m, e1cyc.kfdc_request(m, args))
        given = (args.get("optimization_options") or {}).get("given_weights")
        if cls.log is not None:
            cls.log.append({"k": args["k"], "given": given is not None, "status": None, "model": m, "rows": len(impl["rows"]),
                            "kw": {key: args.get(key) for key in ("subset_constraints", "subset_constraints_coverage", "elements_to_ignore",
                                                                   "additional_starts", "additional_ends", "flow_attr", "weight_type")}})
        ctx.dist("E1 route:" + ("given-weights" if given is not None else "plain"))
        wf = getattr(m, "walks_to_fix", None) or []
        if wf: ctx.dist("E1 walks_to_fix non-empty")
        if m.edges_set_to_zero: ctx.dist("E1 zero rows present")
        if m.edges_set_to_one: ctx.dist("E1 Pi=W shortcut present")
        if m.optimize_with_safe_sequences_fix_via_bounds and wf and m.optimize_with_safe_sequences: ctx.dist("E1 fix via bounds")
        if m.subset_constraints: ctx.dist("E1 subset constraints present")
        if any(m.G.is_scc_edge(*e) for e in m.G.edges()): ctx.dist("E1 graph has a cycle")
        if d:
            cls.e1_reports += 1
        if d and cls.e1_reports <= 3:      # leave room for concrete failing inputs found by E2
            ctx.report("E1 correspondence broken: LP of kFlowDecompCycles differs from WalkEncRows.encode_kfdc: " + "; ".join(d[:3]),
                       {"kind": "e1", "class": "kFlowDecompCycles", "args": describe(args), "diff": d}, concrete=False)
            cls.e1_broken = True

    e1_broken = False
    e1_reports = 0


def describe(args):
    G = args["G"]
    d = {k: v for k, v in args.items() if k not in ("G", "weight_type", "solver_options")}
    d["edges"] = [[u, v, dd.get(args.get("flow_attr", "flow"))] for u, v, dd in G.edges(data=True)]
    d["weight_type"] = args.get("weight_type", float).__name__
    if "optimization_options" in d:
        d["optimization_options"] = {k: (sorted(map(str, v)) if isinstance(v, (set, frozenset)) else v)
                                     for k, v in (d["optimization_options"] or {}).items() if k != "trusted_edges_for_safety"}
    return d


def rebuild(desc):
    G = nx.DiGraph()
    for u, v, f in desc["edges"]:
        G.add_edge(u, v, flow=f)
    args = {k: v for k, v in desc.items() if k not in ("edges", "weight_type")}
    args["G"] = G
    args["weight_type"] = int if desc["weight_type"] == "int" else float
    args["solver_options"] = {"threads": THREADS}
    for key in ("subset_constraints", "elements_to_ignore"):
        if key in args:
            args[key] = [[tuple(e) for e in c] for c in args[key]] if key == "subset_constraints" else [tuple(e) for e in args[key]]
    return args


# ----------------------------------------------------------------------------------------- E2 pieces
def check_solution(ctx, cls, args, sol):
    G = args["G"]; wt = args.get("weight_type", float)
    why = props.walk_decomposition_ok(G, args["flow_attr"], sol["walks"], sol["weights"], wt,
                                      ignore=args.get("elements_to_ignore", []), cons=args.get("subset_constraints", []),
                                      coverage=args.get("subset_constraints_coverage", 1.0))
    if why:
        ctx.report(f"{cls}: returned solution violates the property: {why}",
                   {"kind": "solution", "class": cls, "args": describe(args), "solution": sol})
        return False
    ctx.count("E2_solution_checks", "passed")
    return True


def faithful_limits(G, flow, k, is_int):
    """restrictions the code as it is puts on a decomposition into k walks (caps, bit width, w_max)"""
    maxf = max(flow.values())
    wmax = k * (int(maxf) if is_int else maxf)
    nbits = math.ceil(math.log2(float(wmax) + 1))
    scc = {}
    for (u, v) in G.edges():
        scc[(u, v)] = nx.has_path(G, v, u)
    cap = {e: (min(math.floor(flow[e]), 2 ** nbits - 1) if scc[e] else min(1, 2 ** nbits - 1)) for e in G.edges()}
    return cap, wmax


def oracle_min(G, flow, kind, kmax, cons, cov, faithful=False, is_int=False):
    """(k, witness) with the least k <= kmax admitting a decomposition, in the SPEC domain or (faithful=True) under
    the restrictions of the code as it is"""
    if kind == "int" and not faithful:
        return ow.min_walks(G, {e: int(v) for e, v in flow.items()}, "int", kmax, cons=cons, cov=cov)
    for k in range(1, kmax + 1):
        if faithful:
            cap, wmax = faithful_limits(G, flow, k, is_int)
            xb = cap
        else:
            xb = {e: min(2 * int(math.ceil(flow[e])), 6) for e in G.edges()}
            n = 1
            for e in xb: n *= xb[e] + 1
            if n > 60000:
                xb = {e: int(math.ceil(flow[e])) + 1 for e in G.edges()}
            wmax = None
        if kind == "int":
            fl = {e: int(v) for e, v in flow.items()}
            bound = {e: min(xb[e], int(fl[e])) for e in xb}
            got = ow.exists_int(G, fl, k, cons, cov, ow.candidates(G, bound))
        else:
            got = ow.exists_real(G, flow, k, xb, cons, cov, wmax=wmax)
        if got:
            return k, got
    return None, None


def witness_ok(G, args, wit):
    """re-check a decomposition exhibited by the search directly against the property statement (exact arithmetic)"""
    xs, ws = wit
    walks = [ow.walk_of_vector(G, x) for x in xs]
    for w in walks:
        if props.valid_route(G, w):
            return None
    acc = {}
    for w, q in zip(walks, ws):
        for e in zip(w, w[1:]):
            acc[e] = acc.get(e, F(0)) + F(q)
    for u, v, d in G.edges(data=True):
        if acc.get((u, v), F(0)) != F(d[args["flow_attr"]]):
            return None
    if props.subset_constraints_covered(args.get("subset_constraints", []), walks, args.get("subset_constraints_coverage", 1.0)):
        return None
    return {"walks": walks, "weights": [str(q) for q in ws]}


def cap_certificate(G, attr="flow"):
    """Certificate that the flow on G has NO decomposition (into any number of walks, any real weights) that respects
    the implementation's repetition caps -- i.e. the open finding rep_cap_from_own_flow and nothing else:
    an edge e inside a strongly connected component C with  f(e) > cap(e) * inflow(C),  where cap(e) = floor(f(e)) is the
    largest value of the integer Edge column (upper bound = the edge's own flow value) and inflow(C) = total flow entering
    C from outside = total weight of the walks that visit C at all (the condensation is acyclic: a walk enters C at most
    once; a source of the caller's graph has no incoming edge, so no walk starts inside a non-trivial C).  Then the walks
    through e would have to traverse it  f(e) / inflow(C) > cap(e)  times on average: every decomposition contains a walk
    whose multiplicity on e exceeds the implementation's own cap.  Exact arithmetic.  Returns a description or None."""
    comp = {}
    for i, C in enumerate(nx.strongly_connected_components(G)):
        for v in C:
            comp[v] = i
    inflow = {}
    for u, v, d in G.edges(data=True):
        if comp[u] != comp[v]:
            inflow[comp[v]] = inflow.get(comp[v], F(0)) + F(d[attr])
    for u, v, d in G.edges(data=True):
        if comp[u] == comp[v]:
            f = F(d[attr]); cap = math.floor(f); tot = inflow.get(comp[u], F(0))
            if f > cap * tot:
                return {"edge": [u, v], "flow": str(f), "implementation_cap": cap, "weight_of_all_walks_through_its_component": str(tot),
                        "average_multiplicity_needed": (str(f / tot) if tot else "inf")}
    return None


def caps_lp_certificate(G, attr="flow", limit=100000):
    """second-level certificate for the same finding, for small cap boxes: enumerate ALL walk multiplicity vectors that
    respect the implementation's caps (floor(f(e)) inside SCCs, 1 outside) and ask an LP whether some non-negative
    combination of them equals the flow (any number of walks: by Caratheodory <= |E| suffice, zero-weight padding does the
    rest).  Infeasible => no decomposition respects the caps.  Returns a description, or None (feasible / box too large)."""
    import highspy, numpy as np
    cap = {}
    box = 1
    for u, v, d in G.edges(data=True):
        cap[(u, v)] = math.floor(F(d[attr])) if nx.has_path(G, v, u) else 1
        box *= cap[(u, v)] + 1
        if box > limit:
            return None
    cands = ow.candidates(G, cap)
    h = highspy.Highs(); h.setOptionValue("output_flag", False); h.setOptionValue("threads", THREADS)
    for _ in cands:
        h.addVar(0.0, highspy.kHighsInf)
    for (u, v, d) in G.edges(data=True):
        idx = [j for j, x in enumerate(cands) if x.get((u, v), 0)]
        vals = [float(cands[j][(u, v)]) for j in idx]
        h.addRow(float(d[attr]), float(d[attr]), len(idx), np.array(idx, dtype=np.int32), np.array(vals, dtype=np.float64))
    h.run()
    if h.modelStatusToString(h.getModelStatus()) == "Infeasible":
        return {"cap_respecting_walk_vectors": len(cands), "caps": {f"{u}->{v}": c for (u, v), c in cap.items()},
                "lp": "no non-negative combination of them equals the flow"}
    return None


def presolve_false_infeasible(ctx, res):
    """HiGHS 1.15.1: presolve sometimes reports a feasible MILP as kInfeasible.  Re-solve every model of this search that
    ended kInfeasible with presolve off; True (and a count under solver_specification) if one of them is feasible."""
    for r in res.get("log") or []:
        if r.get("status") == "kInfeasible":
            try:
                again = lpdump.infeasible_without_presolve(r["model"].solver)
            except Exception:
                continue
            if again == "Optimal":
                ctx.count("solver_specification", "kInfeasible_from_presolve_on_a_feasible_model")
                return True
    return False


def solve_mfdc(ctx, args):
    """runs MinFlowDecompCycles; returns dict(solved, k, sol, log, lb, model) ; E1 on every k tried through the hook"""
    import flowpaths as fp
    Hook.log = []
    try:
        m = fp.MinFlowDecompCycles(**args)
        m.solve()
    except Exception as e:
        Hook.log = None
        return {"error": repr(e)}
    log = Hook.log; Hook.log = None
    res = {"solved": m.is_solved(), "log": log, "lb": m._lowerbound_k, "model": m, "k": None, "sol": None}
    if m.is_solved():
        res["sol"] = m.get_solution(); res["k"] = len(res["sol"]["walks"])
    return res


def e4_search(ctx, args, res):
    """k sequence / statuses / answer against the extracted WalkSearch.mfdc_solve"""
    m = res["model"]; lb = res["lb"]; nE = args["G"].number_of_edges()
    loop = [r for r in res["log"] if not r["given"]]
    g = -1
    gm = getattr(m, "_given_weights_model", None)
    if gm is not None and gm.is_solved():
        g = len(gm.get_solution(remove_empty_walks=True)["walks"])
    ks = [r["k"] for r in loop]
    code = {"kOptimal": 0, "kInfeasible": 1}
    seq = []; expect_k = lb
    by_k = {r["k"]: r for r in loop}
    last = max(ks + ([g] if (g >= lb and res["solved"] and res["k"] == g) else []) + [lb - 1])
    for k in range(lb, last + 1):
        if k in by_k:
            seq.append([code.get(by_k[k]["status"], 2), 0])
        else:
            seq.append([2, 0])          # not constructed: only legal when the given-weights model was used for this k
    req = "mfdcsearch " + common.toks(lb, nE, g, len(seq), seq)
    out = ctx.model.run([req])[0]
    got = ("SOLVED %d" % res["k"]) if res["solved"] else "UNSOLVED"
    ctx.count("E4_search", "cases")
    ok = (out == got) and ks == list(range(lb, lb + len(ks)))
    if ok:
        ctx.count("E4_search", "agreements")
    else:
        ctx.count("E4_search", "disagreements")
        ctx.report(f"E4 correspondence broken: MinFlowDecompCycles.solve tried k={ks} (lb={lb}, |E|={nE}, given={g}) and answered {got}; WalkSearch.mfdc_solve says {out}",
                   {"kind": "e4", "class": "MinFlowDecompCycles", "args": describe(args), "ks": ks, "statuses": [r["status"] for r in loop]}, concrete=False)
    return ok


def e4_inner_kwargs(ctx, args, res):
    """every kFlowDecompCycles that MinFlowDecompCycles.solve builds (the given-weights model AND the model of each k) must be
    constructed with the caller's subset constraints, coverage, ignore list, additional starts / ends, flow attribute and
    weight type: the answer of either is returned as the answer of the outer model without any re-check"""
    want = {"subset_constraints": [list(map(tuple, c)) for c in (args.get("subset_constraints") or [])],
            "subset_constraints_coverage": args.get("subset_constraints_coverage", 1.0),
            "elements_to_ignore": sorted(map(tuple, args.get("elements_to_ignore") or [])),
            "additional_starts": sorted(args.get("additional_starts") or []), "additional_ends": sorted(args.get("additional_ends") or []),
            "flow_attr": args["flow_attr"], "weight_type": args.get("weight_type", int)}
    for r in res.get("log") or []:
        kw = r.get("kw") or {}
        got = {"subset_constraints": [list(map(tuple, c)) for c in (kw.get("subset_constraints") or [])],
               "subset_constraints_coverage": 1.0 if kw.get("subset_constraints_coverage") is None else kw.get("subset_constraints_coverage"),
               "elements_to_ignore": sorted(map(tuple, kw.get("elements_to_ignore") or [])),
               "additional_starts": sorted(kw.get("additional_starts") or []), "additional_ends": sorted(kw.get("additional_ends") or []),
               "flow_attr": kw.get("flow_attr"), "weight_type": kw.get("weight_type") or float}
        ctx.count("E4_inner_model_arguments", "models")
        bad = [key for key in want if want[key] != got[key]]
        if bad:
            ctx.count("E4_inner_model_arguments", "disagreements")
            if ctx.engines["E4_inner_model_arguments"]["disagreements"] > 3:      # keep room for concrete failing inputs
                return False
            which = "given-weights model" if r["given"] else "model for k=%d" % r["k"]
            ctx.report(f"E4: the {which} built by MinFlowDecompCycles.solve is not constructed with the caller's {', '.join(bad)}",
                       {"kind": "e4-kwargs", "class": "MinFlowDecompCycles", "args": describe(args), "inner": {b: str(got[b]) for b in bad},
                        "outer": {b: str(want[b]) for b in bad}, "given_weights_model": r["given"]}, concrete=False)
            return False
        ctx.count("E4_inner_model_arguments", "agreements")
    return True


def hub_instance(rng):
    """n in-branches and n out-branches through a hub m, the in-flows are pairwise different and the out-flows are a
    permutation of them, so the unconstrained minimum pairs equal values (n walks, weights = flow values: exactly what the
    guessed-weights heuristic finds); optionally the hub carries a self-loop or a 2-cycle traversed once by every walk.
    ONE subset constraint pairs an in-branch with an out-branch of a DIFFERENT value: it cannot be realised by the
    unconstrained optimum and raises the minimum.  Returns (G, constraints)."""
    n = rng.choice([2, 2, 3])
    vals = rng.sample([1, 2, 3, 4], n)
    perm = vals[:]; rng.shuffle(perm)
    cyc = rng.choice(["none", "loop", "two"]) if n == 2 else rng.choice(["none", "loop"])
    total = sum(vals)
    es = [("a%d" % i, "m", vals[i]) for i in range(n)] + [("m", "c%d" % j, perm[j]) for j in range(n)]
    if cyc == "loop":
        es.append(("m", "m", total))
    elif cyc == "two":
        es += [("m", "x", total), ("x", "m", total)]
    rng.shuffle(es)
    G = nx.DiGraph()
    for u, v, f in es:
        G.add_edge(u, v, flow=f)
    pairs = [(i, j) for i in range(n) for j in range(n) if vals[i] != perm[j]]
    i, j = rng.choice(pairs)
    cons = [[("a%d" % i, "m"), ("m", "c%d" % j)]]
    if rng.random() < 0.3:
        cons.append([("a%d" % i, "m")])
    return G, cons


def check_minimality(ctx, args, res, flow, kind, label=""):
    """compare the implementation's number of walks with the exhaustive search; classify differences"""
    G = args["G"]; cons = args.get("subset_constraints", []); cov = args.get("subset_constraints_coverage", 1.0)
    impl_k = res["k"] if res["solved"] else None
    upto = 3 if impl_k is None else min(3, impl_k - 1)
    if upto < 1:
        ctx.count("E2_minimality", "optimal_trivially"); return True
    k_spec, wit = oracle_min(G, flow, kind, upto, cons, cov)
    if kind == "int" and voracle_walks.in_reach(G, flow, upto, cons, args.get("elements_to_ignore") or ()):
        k_ver = voracle_walks.verified_min(ctx, G, {e: int(v) for e, v in flow.items()}, upto)
        ctx.count("E2_minimality", "verified_oracle_decided")
        if k_ver != k_spec:
            ctx.report(f"the verified oracle WalkOracle.min_wfd_model says the least number of walks (<= {upto}) is {k_ver}, the Python search {k_spec}",
                       {"kind": "oracle_cross_check", "args": describe(args), "verified": k_ver, "python": k_spec}, concrete=False)
    if k_spec is None:
        if impl_k is None:
            ctx.count("E2_minimality", "unsolved_and_no_small_decomposition")
        else:
            ctx.count("E2_minimality", "agreements")
        return True
    checked = witness_ok(G, args, wit)
    if checked is None:
        ctx.count("E2_minimality", "oracle_witness_rejected"); return True
    # the implementation missed a smaller decomposition: is it the known cap finding?
    k_f, _ = oracle_min(G, flow, kind, 3 if impl_k is None else min(3, impl_k), cons, cov, faithful=True, is_int=(kind == "int"))
    explained = (k_f == impl_k) or (k_f is None and (impl_k is None or impl_k > 3))
    rep = {"kind": "minimality", "class": "MinFlowDecompCycles", "args": describe(args), "implementation_walks": impl_k,
           "smaller_decomposition": checked, "faithful_model_minimum": k_f, "label": label}
    what = (f"MinFlowDecompCycles {'is unsolved' if impl_k is None else 'returns %d walks' % impl_k} but a decomposition into {k_spec} walks exists{label}")
    if explained and kind == "real":
        ctx.report(what, rep, key=KEY_CAP)
    elif not presolve_false_infeasible(ctx, res):
        ctx.report(what, rep)
    return False


# ----------------------------------------------------------------------------------------- generators
def rand_mfdc_opts(rng):
    o = gen2.rand_walk_opts(rng)
    if rng.random() < 0.25:
        o["optimize_with_guessed_weights"] = True
        if rng.random() < 0.5:
            o["optimize_with_given_weights_num_free_walks"] = rng.choice([0, 1])
    if rng.random() < 0.15:
        o["use_min_gen_set_lowerbound"] = True
    return o


def tiny_instance(rng):
    while True:
        G, walks, ws, _ = gen2.rand_flow_cyclic(rng, nmax=4, nwalks=(1, 3), intw=True, maxedges=6, maxlen=7, weights=[1, 1, 2])
        if max(d["flow"] for _, _, d in G.edges(data=True)) <= 3:
            return G, walks, ws


def selfloop_instance(rng):
    """DAG skeleton whose only cycles are SELF-LOOPS: 2-3 branches with distinct values from one or two sources converge on
    an inner node a that carries a self-loop (walk j goes round it m_j times), then to the sink; optionally a second
    looped node.  Every edge value is a sum of branch values with multiplicities, so the min-gen-set lower bound is exact
    only if multiplicities are allowed.  Returns (G, walks, weights)."""
    while True:
        nb = rng.choice([2, 2, 3])
        vals = rng.sample([1, 2, 3, 4], nb)
        mults = [rng.choice([0, 0, 1, 2, 2, 3]) for _ in range(nb)]
        if not any(m >= 2 for m in mults):
            continue
        # mostly keep the loop value below the total flow: otherwise MinGenSet (generators sum to the total) is infeasible
        # and the lower bound is not used at all
        if rng.random() < 0.9 and sum(m * v for m, v in zip(mults, vals)) > sum(vals):
            continue
        two_sources = rng.random() < 0.3
        second_loop = nb == 2 and rng.random() < 0.3
        walks = []
        for j in range(nb):
            src = ("s%d" % j) if two_sources else "s"
            w = [src, "x%d" % j] + ["a"] * (1 + mults[j])
            if second_loop:
                w += ["b"] * (1 + (j % 2))
            walks.append(w + ["t"])
        f = gen2.superpose(rng, None, walks, vals)
        box = 1
        for v in f.values():
            box *= v + 1
        if box > 60000 or len(f) > 9:
            continue
        es = list(f); rng.shuffle(es)
        G = nx.DiGraph()
        for (u, v) in es:
            G.add_edge(u, v, flow=int(f[(u, v)]))
        return G, walks, vals


def guessed_weight_opts(rng, force=False):
    """the guessed-weights route of MinFlowDecompCycles with its satellites"""
    if not force and rng.random() < 0.5:
        return {}
    o = {"optimize_with_guessed_weights": True}
    r = rng.random()
    if r < 0.35:
        o["optimize_with_given_weights_num_free_walks"] = rng.choice([0, 1, 1, 2])
    if rng.random() < 0.35:
        o["use_min_gen_set_lowerbound"] = True
        o["add_min_gen_set_to_given_weights"] = rng.random() < 0.7
    return o


def scaled_loop_instance(rng):
    """1-2 source branches into a node a whose self-loop (or 2-cycle) is traversed m >= 2 times by the first branch's walk, so
    that the cycle value m*v EXCEEDS the total source flow; all values multiplied by a factor c with a fractional result
    (float weights).  The minimum is the number of branches (they leave the source in parallel; the explicit walks below
    decompose the flow).  Exercises lower bounds / caps that are derived from flow VALUES (fractional maxima, value > total).
    Returns (G, witness walks, witness weights, number of branches)."""
    nb = rng.choice([1, 2]); m = rng.choice([2, 3, 3]); v = rng.choice([1, 1, 3]); u = rng.choice([x for x in (1, 2, 3) if x != v])
    c = rng.choice([F(5, 2), F(3, 2), F(5, 4)]); two = rng.random() < 0.4
    loopw = ["a", "b"] * m + ["a"] if two else ["a"] * (m + 1)
    walks = [["s", "x0"] + loopw + ["t"]]; ws = [v * c]
    if nb == 2:
        walks.append(["s", "x1", "a", "t"]); ws.append(u * c)
    f = {}
    for w, q in zip(walks, ws):
        for e in zip(w, w[1:]):
            f[e] = f.get(e, F(0)) + q
    es = list(f); rng.shuffle(es)
    G = nx.DiGraph()
    for e in es:
        G.add_edge(*e, flow=float(f[e]))
    return G, walks, [float(q) for q in ws], nb


def staged_instance(b1, b2, loop):
    """2 stages of parallel branches through a hub m (b1 branches into m, b2 out of it), unit weight per combination, and
    ALL b1*b2 pairwise subset constraints {first-stage branch edge, second-stage branch edge}: a walk uses one branch per
    stage, so it realises at most one constraint -- the minimum number of walks is exactly b1*b2 (closed form), although
    the unconstrained minimum is max(b1, b2) + ... <= |E| - |V| + 2.  loop: the hub carries a self-loop used once by every walk."""
    G = nx.DiGraph(); T = b1 * b2
    for i in range(b1):
        G.add_edge("s", "x%d" % i, flow=b2); G.add_edge("x%d" % i, "m", flow=b2)
    for j in range(b2):
        G.add_edge("m", "y%d" % j, flow=b1); G.add_edge("y%d" % j, "t", flow=b1)
    if loop:
        G.add_edge("m", "m", flow=T)
    cons = [[("x%d" % i, "m"), ("m", "y%d" % j)] for i in range(b1) for j in range(b2)]
    return G, cons, T


def scaled(G, c, as_float=True):
    H = nx.DiGraph()
    for u, v, d in G.edges(data=True):
        x = F(d["flow"]) * c
        H.add_edge(u, v, flow=(float(x) if as_float else int(x)))
    return H


# ----------------------------------------------------------------------------------------- run
def run(ctx):
    import flowpaths as fp
    lpdump.install(); Hook.install(); Hook.ctx = ctx; Hook.e1_broken = False; Hook.e1_reports = 0
    ctx.rule = ("digraphs with cycles (<= 5 nodes, <= 9 edges; 80% with a cycle; self-loops, several sources/sinks) with flows = "
                "superpositions of 1-3 weighted walks (int / dyadic float); self-loop family (DAG skeleton + self-loops, distinct branch values, min-gen-set lower bound on) and staged-branch family with all pairwise subset constraints (minimum = product of branch counts; also on the guessed-weights route), hub family (one subset constraint pairing branches of different values, guessed weights / free walks / min-gen-set satellites), scaled-cycle family (cycle value above the source flow, fractional values); kFlowDecompCycles with random k, ignore lists, subset "
                "constraints (coverage 1 / 0.5 / 0.75), the 64 safety option vectors, given weights; MinFlowDecompCycles incl. guessed "
                "weights / min-gen-set lower bound; tiny instances (<= 6 edges, flows <= 3) against the exhaustive search; scale factors "
                "1/4 1/2 2 2.5 4; non-trivial = LP with >= 2 layers or a cycle, or a solved instance with >= 2 walks")
    import time as _t
    _t0 = _t.time(); _marks = {}
    def _mark(name):
        nonlocal _t0
        _marks[name] = round(_t.time() - _t0, 1); _t0 = _t.time()
    # ---- A: stand-alone kFlowDecompCycles: E1 on all option vectors, E2 on every solution
    nA = ctx.budget(110, 3000)
    for i in range(nA):
        rng = ctx.rng("kfdc", i)
        G, walks, ws, is_int = gen2.rand_flow_cyclic(rng)
        ign = gen2.rand_ignore(rng, G) if rng.random() < 0.3 else []
        cons = gen2.rand_subset_constraints(rng, walks) if rng.random() < 0.45 else []
        opts = gen2.rand_walk_opts(rng, n=(i % 64) if i < 64 or ctx.tier == "thorough" and i < 640 else None)
        k = max(1, len(walks) + rng.choice([-1, 0, 0, 1]))
        if rng.random() < 0.2:
            opts = dict(opts); opts["optimize_with_safe_sequences"] = False; opts["optimize_with_safety_as_subset_constraints"] = False
            opts["given_weights"] = sorted(set(int(x) if is_int else float(x) for x in ws))[:k]
            opts["allow_empty_walks"] = True
        args = dict(G=G, flow_attr="flow", k=k, weight_type=int if is_int else float, subset_constraints=cons,
                    elements_to_ignore=ign, optimization_options=dict(opts), solver_options={"threads": THREADS})
        if cons and rng.random() < 0.3:
            args["subset_constraints_coverage"] = rng.choice([0.5, 0.75])
        Hook.log = []
        try:
            m = fp.kFlowDecompCycles(**args)
        except ValueError:
            ctx.dist("kfdc ctor ValueError"); Hook.log = None; continue
        rows = Hook.log[-1]["rows"] if Hook.log else 0
        Hook.log = None
        try:
            m.solve()
        except Exception as e:
            ctx.report("kFlowDecompCycles.solve() raised " + repr(e), {"kind": "crash", "class": "kFlowDecompCycles", "args": describe(args)}); continue
        nontriv = k >= 2 or any(m.G.is_scc_edge(*e) for e in m.G.edges())
        if m.is_solved():
            sol = m.get_solution()
            check_solution(ctx, "kFlowDecompCycles", args, sol)
            ctx.count("E2_solution_checks", "kfdc_solved")
        else:
            ctx.count("E2_solution_checks", "kfdc_unsolved:" + str(m.solver.get_model_status()))
        ctx.case(["kfdc", describe(args)], nontrivial=nontriv,
                 sample={"edges": describe(args)["edges"], "k": k, "opts": describe(args)["optimization_options"], "lp_rows": rows})

    _mark('A')
    # ---- B: MinFlowDecompCycles: E1 per k tried, E4 search, E2 solution, minimality on tiny instances
    nB = ctx.budget(60, 1500)
    for i in range(nB):
        rng = ctx.rng("mfdc", i)
        tiny = rng.random() < 0.7
        if tiny:
            G, walks, ws = tiny_instance(rng); is_int = rng.random() < 0.6; flows_int = True
        else:
            G, walks, ws, is_int = gen2.rand_flow_cyclic(rng); flows_int = is_int
        use_cons = rng.random() < 0.3
        cons = gen2.rand_subset_constraints(rng, walks) if use_cons else []
        ign = gen2.rand_ignore(rng, G) if (not tiny and rng.random() < 0.3) else []
        args = dict(G=G, flow_attr="flow", weight_type=int if is_int else float, subset_constraints=cons,
                    elements_to_ignore=ign, optimization_options=rand_mfdc_opts(rng), solver_options={"threads": THREADS})
        res = solve_mfdc(ctx, args)
        if "error" in res:
            ctx.report("MinFlowDecompCycles raised " + res["error"], {"kind": "crash", "class": "MinFlowDecompCycles", "args": describe(args)}); continue
        ctx.dist("mfdc:" + ("solved k=%d" % res["k"] if res["solved"] else "unsolved"))
        e4_search(ctx, args, res); e4_inner_kwargs(ctx, args, res)
        if res["solved"]:
            check_solution(ctx, "MinFlowDecompCycles", args, res["sol"])
        if tiny and not ign:
            flow = {(u, v): F(d["flow"]) for u, v, d in G.edges(data=True)}
            check_minimality(ctx, args, res, flow, "int" if is_int else "real")
        elif not res["solved"] and not ign:
            cert = (cap_certificate(G) or caps_lp_certificate(G)) if not is_int else None
            rep = {"kind": "unsolved", "class": "MinFlowDecompCycles", "args": describe(args), "generating_walks": walks,
                   "weights": [str(w) for w in ws], "cap_certificate": cert}
            if cert is not None:
                ctx.report("MinFlowDecompCycles is unsolved on a flow that was built as a superposition of walks: every decomposition needs "
                           "more traversals of some edge by one walk than the implementation's cap (= the edge's own flow value) allows", rep, key=KEY_CAP)
            elif not presolve_false_infeasible(ctx, res):
                ctx.report("MinFlowDecompCycles is unsolved on a flow that was built as a superposition of walks", rep)
        ctx.case(["mfdc", describe(args)], nontrivial=True, sample={"edges": describe(args)["edges"], "opts": describe(args)["optimization_options"],
                                                                     "walks": res["k"], "ks": [r["k"] for r in res["log"]]})

    _mark('B')
    # ---- C: scale invariance (float weights): same solvability, same number of walks
    nC = ctx.budget(14, 300)
    for i in range(nC):
        rng = ctx.rng("scale", i)
        G, walks, ws = tiny_instance(rng)
        opts = dict(gen2.rand_walk_opts(rng)) if rng.random() < 0.5 else {}
        base = dict(G=scaled(G, F(1)), flow_attr="flow", weight_type=float, optimization_options=dict(opts), solver_options={"threads": THREADS})
        r1 = solve_mfdc(ctx, base)
        if "error" in r1:
            ctx.report("MinFlowDecompCycles raised " + r1["error"], {"kind": "crash", "class": "MinFlowDecompCycles", "args": describe(base)}); continue
        if r1["solved"]:
            check_solution(ctx, "MinFlowDecompCycles", base, r1["sol"])
        flow1 = {(u, v): F(d["flow"]) for u, v, d in G.edges(data=True)}
        check_minimality(ctx, base, r1, flow1, "real", label=" (float weights, scale 1)")
        for c in FACTORS:
            args = dict(base); args["G"] = scaled(G, c); args["optimization_options"] = dict(opts)
            rc = solve_mfdc(ctx, args)
            ctx.count("E2_scale_invariance", "runs")
            if "error" in rc:
                ctx.report("MinFlowDecompCycles raised " + rc["error"], {"kind": "crash", "class": "MinFlowDecompCycles", "args": describe(args)}); continue
            if rc["solved"]:
                check_solution(ctx, "MinFlowDecompCycles", args, rc["sol"])
            same = (rc["solved"] == r1["solved"]) and (rc["k"] == r1["k"])
            if same:
                ctx.count("E2_scale_invariance", "agreements"); continue
            # explained by the faithful model (cap = own flow value, bit width from w_max)?
            flowc = {e: v * c for e, v in flow1.items()}
            kf_c, _ = oracle_min(args["G"], flowc, "real", 3, [], 1.0, faithful=True)
            kf_1, _ = oracle_min(base["G"], flow1, "real", 3, [], 1.0, faithful=True)
            explained = (kf_c == rc["k"] or (kf_c is None and (rc["k"] is None or rc["k"] > 3))) and \
                        (kf_1 == r1["k"] or (kf_1 is None and (r1["k"] is None or r1["k"] > 3)))
            ctx.count("E2_scale_invariance", "differences")
            if not explained and (presolve_false_infeasible(ctx, rc) or presolve_false_infeasible(ctx, r1)):
                continue
            ctx.report(f"scaling all flow values by {c} changes the answer of MinFlowDecompCycles (float weights): "
                       f"scale 1 -> {r1['k'] if r1['solved'] else 'unsolved'} walks, scale {c} -> {rc['k'] if rc['solved'] else 'unsolved'} walks",
                       {"kind": "scale", "class": "MinFlowDecompCycles", "args": describe(base), "factor": str(c),
                        "faithful_model": {"scale1": kf_1, "scaled": kf_c}}, key=(KEY_CAP if explained else None))
        ctx.case(["scale", describe(base)], nontrivial=True)

    _mark('C')
    # ---- F: graphs whose only cycles are self-loops, with the min-gen-set lower bound switched on (exhaustive optimum)
    nF = ctx.budget(14, 300)
    for i in range(nF):
        rng = ctx.rng("selfloop", i)
        G, walks, ws = selfloop_instance(rng)
        as_float = rng.random() < 0.35
        c = F(1)                 # (scaling is the subject of section C; large values would blow up the exhaustive search)
        H = scaled(G, c, as_float=True) if as_float else G
        opts = dict(gen2.rand_walk_opts(rng)) if rng.random() < 0.5 else {}
        opts["use_min_gen_set_lowerbound"] = True
        args = dict(G=H, flow_attr="flow", weight_type=float if as_float else int, optimization_options=opts, solver_options={"threads": THREADS})
        res = solve_mfdc(ctx, args)
        if "error" in res:
            ctx.report("MinFlowDecompCycles raised " + res["error"], {"kind": "crash", "class": "MinFlowDecompCycles", "args": describe(args)}); continue
        ctx.dist("selfloop:" + ("solved k=%d" % res["k"] if res["solved"] else "unsolved"))
        e4_search(ctx, args, res); e4_inner_kwargs(ctx, args, res)
        if res["solved"]:
            check_solution(ctx, "MinFlowDecompCycles", args, res["sol"])
        flow = {(u, v): F(d["flow"]) * c for u, v, d in G.edges(data=True)}
        check_minimality(ctx, args, res, flow, "real" if as_float else "int", label=" (self-loop family, min-gen-set lower bound on)")
        ctx.case(["selfloop", describe(args)], nontrivial=True)

    _mark('F')
    # ---- F2: a cycle value that exceeds the total source flow, scaled to fractional values, lower-bound options on
    for i in range(ctx.budget(8, 200)):
        rng = ctx.rng("scaledloop", i)
        G, wwalks, wws, nb = scaled_loop_instance(rng)
        opts = dict(gen2.rand_walk_opts(rng)) if rng.random() < 0.3 else {}
        if i % 4 != 3:
            opts["use_min_gen_set_lowerbound"] = True
        opts.update(guessed_weight_opts(rng) if rng.random() < 0.3 else {})
        args = dict(G=G, flow_attr="flow", weight_type=float, optimization_options=opts, solver_options={"threads": THREADS})
        res = solve_mfdc(ctx, args)
        if "error" in res:
            ctx.report("MinFlowDecompCycles raised " + res["error"], {"kind": "crash", "class": "MinFlowDecompCycles", "args": describe(args)}); continue
        ctx.count("E2_scaled_cycle_family", "cases")
        e4_search(ctx, args, res); e4_inner_kwargs(ctx, args, res)
        if res["solved"]:
            check_solution(ctx, "MinFlowDecompCycles", args, res["sol"])
        if res["solved"] and res["k"] == nb:
            ctx.count("E2_scaled_cycle_family", "agreements")
        elif props.walk_decomposition_ok(G, "flow", wwalks, wws, float) is None and not presolve_false_infeasible(ctx, res):
            ctx.report(f"MinFlowDecompCycles {'returns %d walks' % res['k'] if res['solved'] else 'is unsolved'} (float weights) but {nb} walks decompose the flow "
                       "(a cycle value above the total source flow, fractional values)",
                       {"kind": "scaledloop", "class": "MinFlowDecompCycles", "args": describe(args), "smaller_decomposition": {"walks": wwalks, "weights": wws},
                        "expected_walks": nb})
        ctx.case(["scaledloop", describe(args)], nontrivial=True)

    # ---- G: staged branches with all pairwise subset constraints: the minimum is the product of the branch counts
    shapes = [(2, 3, False), (2, 2, False), (3, 2, True), (1, 3, False), (2, 2, True), (2, 3, True), (3, 2, False), (1, 2, True)]
    nG = ctx.budget(3, 40)
    for i in range(nG):
        rng = ctx.rng("staged", i)
        b1, b2, loop = shapes[(i + ctx.seed) % len(shapes)] if i < len(shapes) else rng.choice(shapes)
        G, cons, T = staged_instance(b1, b2, loop)
        opts = dict(gen2.rand_walk_opts(rng)) if rng.random() < 0.4 else {}
        opts.update(guessed_weight_opts(rng, force=(i % 2 == 1)))
        is_int = rng.random() < 0.7
        args = dict(G=G, flow_attr="flow", weight_type=int if is_int else float, subset_constraints=cons, optimization_options=opts,
                    solver_options={"threads": THREADS})
        res = solve_mfdc(ctx, args)
        if "error" in res:
            ctx.report("MinFlowDecompCycles raised " + res["error"], {"kind": "crash", "class": "MinFlowDecompCycles", "args": describe(args)}); continue
        ctx.count("E2_staged_constraints", "cases")
        e4_search(ctx, args, res); e4_inner_kwargs(ctx, args, res)
        if res["solved"]:
            check_solution(ctx, "MinFlowDecompCycles", args, res["sol"])
        if res["solved"] and res["k"] == T:
            ctx.count("E2_staged_constraints", "agreements")
        elif not presolve_false_infeasible(ctx, res):
            ctx.report(f"MinFlowDecompCycles {'returns %d walks' % res['k'] if res['solved'] else 'is unsolved'} on the staged instance "
                       f"{b1} x {b2} with all pairwise subset constraints, whose minimum is {T} walks (one per constraint; a walk realises at most one)",
                       {"kind": "staged", "class": "MinFlowDecompCycles", "args": describe(args), "expected_walks": T,
                        "ks_tried": [r["k"] for r in res["log"]], "statuses": [r["status"] for r in res["log"]]})
        ctx.case(["staged", b1, b2, loop, describe(args)["optimization_options"], is_int], nontrivial=True)

    _mark('G')
    # ---- H: a subset constraint that pairs branches of DIFFERENT generating walks (raises the optimum), with the
    #         guessed-weights route on: minimality (exhaustive search), constraint realised (C10's clause), E4 inner arguments
    nH = ctx.budget(10, 300)
    for i in range(nH):
        rng = ctx.rng("hub", i)
        G, cons = hub_instance(rng)
        opts = dict(gen2.rand_walk_opts(rng)) if rng.random() < 0.35 else {}
        opts.update(guessed_weight_opts(rng, force=(i % 4 != 3)))
        is_int = rng.random() < 0.75
        args = dict(G=(G if is_int else scaled(G, F(1), as_float=True)), flow_attr="flow", weight_type=int if is_int else float,
                    subset_constraints=cons, optimization_options=opts, solver_options={"threads": THREADS})
        res = solve_mfdc(ctx, args)
        if "error" in res:
            ctx.report("MinFlowDecompCycles raised " + res["error"], {"kind": "crash", "class": "MinFlowDecompCycles", "args": describe(args)}); continue
        ctx.dist("hub:" + ("solved k=%d" % res["k"] if res["solved"] else "unsolved") + (" guessed" if opts.get("optimize_with_guessed_weights") else ""))
        e4_search(ctx, args, res); e4_inner_kwargs(ctx, args, res)
        if res["solved"]:
            check_solution(ctx, "MinFlowDecompCycles", args, res["sol"])
        flow = {(u, v): F(d["flow"]) for u, v, d in G.edges(data=True)}
        check_minimality(ctx, args, res, flow, "int" if is_int else "real", label=" (hub family: constraint pairing branches of different values)")
        ctx.case(["hub", describe(args)], nontrivial=True)
    _mark('H')

    # ---- D: the witness of Props/C04.v (WalkExamples.loop_inst) replayed on the implementation
    witness_replay(ctx)

    _mark('D')
    # ---- E: the sibling encoder encode_kpcc (kPathCoverCycles) is kept tied as well (used by C09 / C01)
    nE = ctx.budget(30, 600)
    for i in range(nE):
        rng = ctx.rng("kpcc", i)
        G, walks, ws, _ = gen2.rand_flow_cyclic(rng)
        ign = gen2.rand_ignore(rng, G) if rng.random() < 0.3 else []
        cons = gen2.rand_subset_constraints(rng, walks) if rng.random() < 0.4 else []
        o = dict(gen2.rand_walk_opts(rng))
        if rng.random() < 0.2: o["allow_empty_walks"] = True
        args = dict(G=G, k=rng.randint(1, 3), subset_constraints=cons, elements_to_ignore=ign, optimization_options=o,
                    solver_options={"threads": THREADS})
        lpdump.reset()
        try:
            m = fp.kPathCoverCycles(**args)
        except ValueError:
            ctx.dist("kpcc ctor ValueError"); continue
        d, impl = e1cyc.compare(ctx, "E1_kPathCoverCycles_LP", m, e1cyc.kpcc_request(m, args))
        if d:
            ctx.report("E1 correspondence broken: LP of kPathCoverCycles differs from WalkEncRows.encode_kpcc: " + "; ".join(d[:3]),
                       {"kind": "e1", "class": "kPathCoverCycles", "edges": [list(e) for e in G.edges()], "k": args["k"], "opts": o, "diff": d}, concrete=False)
        ctx.case(["kpcc", sorted(map(list, G.edges())), args["k"], sorted(o.items()), cons, ign], nontrivial=True)
    _mark('E'); ctx.notes.append({"section_wall_s": _marks})


def witness_replay(ctx):
    """self-loop at x with additional start/end x: flow 1 solvable with one walk; flow 1/4 (float) is what the
    faithful model proves infeasible (C04_scale_invariance_refuted)"""
    import flowpaths as fp
    for f, expect in ((1.0, True), (0.25, e1cyc.SCALE_FREE_CAP)):   # with the scale-free cap the model says feasible
        G = nx.DiGraph(); G.add_edge("x", "x", flow=f)
        args = dict(G=G, flow_attr="flow", k=1, weight_type=float, additional_starts=["x"], additional_ends=["x"],
                    optimization_options={"optimize_with_safe_sequences": False}, solver_options={"threads": THREADS})
        m = fp.kFlowDecompCycles(**args); m.solve()
        ctx.count("witness_replay", "runs")
        if m.is_solved() != expect:
            ctx.report(f"witness of C04_scale_invariance_refuted does not replay: loop flow {f} solved={m.is_solved()}, model says {expect}",
                       {"kind": "witness", "flow": f}, concrete=False)
        elif not m.is_solved():
            ctx.report("kFlowDecompCycles: self-loop with flow 1/4 (float weights) is infeasible although it is the walk x x with weight 1/4",
                       {"kind": "witness", "flow": f, "status": m.solver.get_model_status()}, key=KEY_CAP)


def replay(ctx, body):
    """re-executes a stored failing case; True = still failing"""
    import flowpaths as fp
    lpdump.install(); Hook.install(); Hook.ctx = ctx
    kind = body.get("kind")
    if kind == "witness":
        before = len(ctx.violations) + len(ctx.known_hits); witness_replay(ctx)
        return len(ctx.violations) + len(ctx.known_hits) > before
    if "args" not in body:
        return False
    args = rebuild(body["args"])
    before = len(ctx.violations) + len(ctx.known_hits)
    if body.get("class") == "kFlowDecompCycles":
        m = fp.kFlowDecompCycles(**args); m.solve()
        if m.is_solved():
            check_solution(ctx, "kFlowDecompCycles", args, m.get_solution())
    else:
        res = solve_mfdc(ctx, args)
        if "error" in res:
            return True
        e4_search(ctx, args, res); e4_inner_kwargs(ctx, args, res)
        if res["solved"]:
            check_solution(ctx, "MinFlowDecompCycles", args, res["sol"])
        flow = {(u, v): F(d["flow"]) for u, v, d in args["G"].edges(data=True)}
        if kind in ("minimality", "scale") and args["G"].number_of_edges() <= 6:
            check_minimality(ctx, args, res, flow, "int" if args["weight_type"] == int else "real")
        if kind == "scale":
            c = F(body["factor"]); a2 = dict(args); a2["G"] = scaled(args["G"], c)
            rc = solve_mfdc(ctx, a2)
            if (rc.get("solved"), rc.get("k")) != (res["solved"], res["k"]):
                return True
        if kind == "scaledloop":
            return not (res["solved"] and res["k"] == body.get("expected_walks"))
        if kind == "staged":
            return not (res["solved"] and res["k"] == body.get("expected_walks"))
        if kind == "unsolved" and not res["solved"]:
            cert = (cap_certificate(args["G"]) or caps_lp_certificate(args["G"])) if args["weight_type"] == float else None
            if cert is not None:
                ctx.report("MinFlowDecompCycles is unsolved: every decomposition needs more traversals of an edge than its cap", {"cap_certificate": cert}, key=KEY_CAP)
            elif not presolve_false_infeasible(ctx, res):
                return True
    return len(ctx.violations) + len(ctx.known_hits) > before
