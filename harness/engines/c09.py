"""C09 — minimum path/walk covers cover everything with fewest routes; width equals it.
E2 per instance: the implementation's cover is checked (`covers`), a set of pairwise incompatible
non-ignored edges of the same size is searched exhaustively and checked (antichain): by weak duality
(Cover.v: certificate_opt) the pair certifies the optimum of THAT instance; get_width() (ignored edges
passed together with the synthetic edges) must equal it; k-cover models are solved exactly for k >= width."""
import itertools
import networkx as nx
import common, gen, gen2, zoo, props, oracles, vcheck, voracle

LEVEL = "proof"
EXPLANATION = ("Props/C09.v: weak duality (any cover of a demand has at least as many routes as any set of pairwise incompatible "
               "edges) and certificate optimality — a cover and an antichain of equal size are both optimal — proved abstractly for "
               "paths and walks; cover rows of kPathCover force every non-ignored edge into some layer (kpc_covers) and each layer "
               "is one route (C01). Per run, for every sampled instance a cover (the implementation's) and an antichain "
               "(exhaustive search, then checked) of equal size are exhibited, which by the theorem PROVES the optimum of that "
               "instance; width and k-cover solvability are compared with it.")
ASSUMPTIONS = ["solver specification (kOptimal/kInfeasible)", "strong duality is observed per instance, not proved",
               "antichain search is exhaustive over <= 14 non-ignored edges"]
TRUSTED = ["harness/oracles.py antichain search; the certificate check itself (pairwise incompatibility, coverage) is re-evaluated in the engine"]
THREADS = 1


def reach_sets(G):
    return {v: nx.descendants(G, v) | {v} for v in G}


def compatible(R, e, g):
    """two edges lie on a common source-to-sink route (every node lies on one in our generators)"""
    return e == g or g[0] in R[e[1]] or e[0] in R[g[1]]


def max_antichain(G, need, starts=(), ends=()):
    """maximum set of pairwise incompatible edges among `need` (exhaustive).  With additional starts/ends
    compatibility is unchanged: every node of the generated graphs lies on a source-to-sink route."""
    R = reach_sets(G)
    need = list(need)
    if len(need) > 14:
        return None
    best = []
    # self-compatible duplicates do not exist (DiGraph); plain subset enumeration, largest first
    for r in range(len(need), 0, -1):
        for S in itertools.combinations(need, r):
            if all(not compatible(R, a, b) for a, b in itertools.combinations(S, 2)):
                return list(S)
    return best


def check_instance(ctx, info, cyclic, strict=False):
    import flowpaths as fp
    name = info["class"]; G = info["G"]; node = info["node"]
    rep = {"instance": zoo.describe(info)}
    try:
        m = zoo.construct(info); ok = m.solve()
    except ValueError as e:
        if strict:
            ctx.report(f"{name} raised {e!r} on an input inside the documented domain", rep)
        ctx.dist("ValueError"); return
    except Exception as e:
        ctx.report(f"{name} raised {e!r}", rep); return
    rk = zoo.routes_key(name)
    def rebuild(extra):
        inf2 = dict(info); inf2["kwargs"] = dict(info["kwargs"]); inf2["kwargs"]["solver_options"] = dict(info["kwargs"].get("solver_options") or {}, **extra)
        m2 = zoo.construct(inf2); m2.solve(); return m2
    if not ok or not m.is_solved():
        if common.solver_artifact(ctx, rebuild, lambda m2: m2.is_solved()):
            return
        ctx.report(f"{name}.solve() did not succeed", rep); return
    routes = m.get_solution()[rk]
    rep["solution"] = routes
    # what must be covered, in terms of the caller's graph
    if node:
        need_nodes = [v for v in G.nodes() if v not in info["ignore"]]
        seen = set(v for r in routes for v in r)
        miss = [v for v in need_nodes if v not in seen]
        if miss:
            ctx.report(f"{name}: node {miss[0]!r} is not covered", rep); return
    else:
        why = props.covers(G, routes, ignore=info["ignore"])
        VB.covers(G, routes, [tuple(e) for e in info["ignore"]], why is None, f"{name}: {why}", rep)   # verified checker Checkers.covers_b
        if why:
            return
    for r in routes:
        why = props.valid_route(G, r, starts=info["starts"], ends=info["ends"], simple=not cyclic)
        if why:
            ctx.report(f"{name}: route {r} invalid: {why}", rep); return
    # certificate of optimality: an antichain of the same size
    if node:
        # node cover: incompatibility of nodes = neither reaches the other
        R = reach_sets(G)
        need = [v for v in G.nodes() if v not in info["ignore"]]
        anti = []
        if len(need) <= 14:
            for r in range(len(need), 0, -1):
                found = next((S for S in itertools.combinations(need, r)
                              if all(b not in R[a] and a not in R[b] for a, b in itertools.combinations(S, 2))), None)
                if found:
                    anti = list(found); break
        if cyclic:
            anti = None       # nodes of one SCC are compatible; handled through the edge formulation below only in edge mode
    else:
        need = [e for e in G.edges() if e not in set(map(tuple, info["ignore"]))]
        anti = max_antichain(G, need)
    ctx.count("E2_cover_certificate", "cases")
    if info["cons"]:
        ctx.count("E2_cover_certificate", "with_constraints(lower bound only)")
        if anti is not None and len(routes) < len(anti):
            ctx.report(f"{name}: cover of {len(routes)} routes but {len(anti)} pairwise incompatible edges exist", rep)
        if not cyclic and not node:
            # with constraints: the optimum decided by the verified exhaustive oracle (CoverOracle.min_cover_correct)
            lengths = None; frac = info.get("coverage", 1.0)
            if "coverage_length" in info:
                lengths = {e: G.edges[e].get("len", 1) for e in G.edges()}; frac = info["coverage_length"]
            vk = voracle.min_cover(ctx, G, ignore=info["ignore"], starts=info["starts"], ends=info["ends"], cons=info["cons"],
                                   coverage=frac, lengths=lengths, kmax=max(5, len(routes)))
            if vk != "too-large":
                ctx.count("E2_cover_certificate", "with_constraints_decided_by_verified_oracle")
                if vk != len(routes):
                    ctx.report(f"{name} returned {len(routes)} paths; the minimum cover realising the constraints has {vk} (verified exhaustive oracle)", rep)
        return
    if anti is None:
        ctx.count("E2_cover_certificate", "no_certificate_search"); return
    rep["antichain"] = anti
    if len(routes) < len(anti):
        ctx.report(f"{name}: cover of {len(routes)} routes but {len(anti)} pairwise incompatible elements exist (checker inconsistency)", rep, concrete=False); return
    if len(routes) > len(anti) and common.solver_artifact(ctx, rebuild, lambda m2: m2.is_solved() and len(m2.get_solution()[rk]) == len(anti)):
        return
    if len(routes) > len(anti):
        # no certificate of equal size: decide by exhaustive minimum cover (DAG, edge mode)
        if not cyclic and not node:
            kmin = oracles.min_path_cover_bf(G, ignore=info["ignore"], starts=info["starts"], ends=info["ends"])
            if kmin is not None and kmin < len(routes):
                ctx.report(f"{name} returned {len(routes)} paths, a cover with {kmin} exists", rep); return
        else:
            ctx.report(f"{name} returned {len(routes)} routes but the largest set of pairwise incompatible elements has {len(anti)}", rep); return
    ctx.count("E2_cover_certificate", "certified_optimal")
    opt = len(routes)
    if cyclic and not node:
        import voracle_wcover          # the verified exhaustive walk-cover oracle (WalkCoverOracle.min_wcover_is_walk_width) next to the certificate
        stw = fp.stDiGraph(G, additional_starts=info["starts"], additional_ends=info["ends"])
        if voracle_wcover.in_reach(stw, need, opt):
            vk = voracle_wcover.verified_min_cover(ctx, stw, need, opt)
            ctx.count("E2_cover_certificate", "verified_walk_cover_oracle_decided")
            if vk != opt:
                ctx.report(f"{name} returned {opt} walks; the verified exhaustive walk-cover oracle says the minimum (<= {opt}) is {vk}", rep, concrete=False)
    if not cyclic and not node:
        # the same certificate decided by the EXTRACTED VERIFIED checker Cover.certificate_ok (theorem
        # C09_checked_certificate_proves_the_optimum): cover = the implementation's paths in the s-t graph, antichain = A
        try:
            st = fp.stDAG(G, additional_starts=info["starts"], additional_ends=info["ends"])
            names = list(st.nodes()); ids = {v: i for i, v in enumerate(names)}
            E_ = list(st.edges()); ign = set(map(tuple, info["ignore"])) | set(st.source_sink_edges)
            W = [[ids[u], ids[v], 0 if (u, v) in ign else 1] for u, v in E_]
            Pt = [[1, len(r) + 2, [ids[st.source]] + [ids[x] for x in r] + [ids[st.sink]]] for r in routes]
            req = "cert " + common.toks(len(names), [ids[v] for v in names], len(E_), [[ids[u], ids[v]] for u, v in E_], ids[st.source], ids[st.sink],
                                        len(W), W, len(anti), [[ids[u], ids[v]] for u, v in anti], len(Pt), Pt)
            out = ctx.model.run([req])[0].split()
            if out and out[0] == "OK" and out[1] == "1":
                ctx.count("E2_cover_certificate", "optimum_proved_by_verified_checker")
            else:
                ctx.report(f"{name}: the cover/antichain certificate is rejected by the verified checker certificate_ok: {' '.join(out)[:80]}", rep, concrete=False)
        except Exception as e:
            ctx.report(f"{name}: verified certificate check crashed: {e!r}", rep, concrete=False)
    if m.get_objective_value() != opt:
        ctx.report(f"{name}.get_objective_value() = {m.get_objective_value()} != {opt}", rep); return
    # width of the s-t graph classes, ignored edges passed together with the synthetic edges
    if not node and need:
        st = (fp.stDiGraph if cyclic else fp.stDAG)(G, additional_starts=info["starts"], additional_ends=info["ends"])
        w = st.get_width(edges_to_ignore=list(map(tuple, info["ignore"])) + list(st.source_sink_edges))
        ctx.count("E2_width", "cases")
        if w != opt:
            ctx.report(f"get_width() = {w} but the minimum cover has {opt} routes", rep); return
        # k-cover models: solved exactly for k >= width
        kcls = "kPathCoverCycles" if cyclic else "kPathCover"
        for k in (opt - 1, opt, opt + 1):
            if k < 1:
                continue
            kw = {kk: v for kk, v in info["kwargs"].items() if kk != "k"}
            try:
                km = getattr(fp, kcls)(G, k=k, **kw); km.solve()
            except Exception as e:
                ctx.report(f"{kcls}(k={k}) raised {e!r}", rep); break
            ctx.count("E2_k_cover_solvable_iff_k_ge_width", "cases")
            if km.is_solved() != (k >= opt):
                ctx.report(f"{kcls}(k={k}) solved={km.is_solved()} but the width is {opt}", rep); break


VB = None


def run(ctx):
    global VB
    VB = vcheck.Batch(ctx)
    ctx.rule = ("MinPathCover on random DAGs and MinPathCoverCycles on random cyclic digraphs (every edge on a source-to-sink walk), "
                "edge and node cover type, ignore sets, additional starts/ends, constraints; non-trivial = optimum >= 2; "
                "distinct by graph + arguments")
    n = ctx.budget(150, 12000)
    for i in range(n):
        rng = ctx.rng("cov", i)
        cyclic = i % 2 == 1
        name = "MinPathCoverCycles" if cyclic else "MinPathCover"
        info = zoo.make(rng, name, node=rng.random() < 0.25, nmax=6)
        before = len(ctx.violations)
        check_instance(ctx, info, cyclic)
        ctx.case(zoo.describe(info), nontrivial=info["G"].number_of_edges() >= 3,
                 sample={"class": name, "edges": [list(e) for e in info["G"].edges()], "ignore": info["ignore"]})
        ctx.dist(f"{name}:{'node' if info['node'] else 'edge'}")
    run_ignored_scc(ctx)
    run_width_histories(ctx)
    run_families(ctx)
    run_constraints_over_ignored(ctx, ctx.budget(24, 400))
    VB.flush()
    import e3condense; e3condense.run_condense_e3(ctx, ctx.budget(60, 1500))


def scc_edge_sets(G):
    out = []
    for comp in nx.strongly_connected_components(G):
        es = [(u, v) for u, v in G.edges() if u in comp and v in comp]
        if es:
            out.append(es)
    return out


def run_ignored_scc(ctx):
    """every edge of a whole strongly connected component ignored (plus, sometimes, the edges entering/leaving it):
    nothing of that component needs covering; the width / cover must be computed on the rest"""
    for i in range(ctx.budget(70, 1200)):
        rng = ctx.rng("ignscc", i)
        info = zoo.make(rng, "MinPathCoverCycles", node=False, with_ignore=False, with_cons=False, with_starts=False, nmax=6)
        G = info["G"]
        sccs = scc_edge_sets(G)
        if not sccs:
            continue
        es = list(rng.choice(sccs))
        comp = set(v for e in es for v in e)
        if rng.random() < 0.5:
            es += [e for e in G.edges() if (e[0] in comp) != (e[1] in comp) and rng.random() < 0.7]
        es += [e for e in G.edges() if e not in es and rng.random() < 0.1]
        if len(set(es)) >= G.number_of_edges():
            continue
        info["ignore"] = [tuple(e) for e in dict.fromkeys(es)]
        info["kwargs"]["elements_to_ignore"] = [tuple(e) for e in dict.fromkeys(es)]
        check_instance(ctx, info, True, strict=True)
        ctx.case(["ignscc", zoo.describe(info)], nontrivial=True); ctx.count("E2_ignored_scc", "cases")


def run_width_histories(ctx):
    """get_width asked repeatedly on ONE s-t graph object with different ignore sets (pieces of a component, then the whole,
    then nothing) answers like a fresh object each time"""
    import flowpaths as fp
    for i in range(ctx.budget(60, 1000)):
        rng = ctx.rng("widthhist", i)
        cyclic = i % 3 != 0
        G = (gen.rand_cyclic(rng, nmax=6) if cyclic else gen.rand_dag(rng, nmax=6))
        if G.number_of_edges() == 0 or G.number_of_edges() > 12:
            continue
        G.graph["id"] = "graph 1"
        cls0 = fp.stDiGraph if cyclic else fp.stDAG
        extra = {}
        if rng.random() < 0.4:
            # synthetic edges that the real edges do not imply: additional starts / ends at inner nodes, a node without any edge
            extra = {"additional_starts": [v for v in G.nodes() if rng.random() < 0.3], "additional_ends": [v for v in G.nodes() if rng.random() < 0.3]}
        if rng.random() < 0.2:
            G.add_node("lonely")
        cls = (lambda g, c=cls0, x=extra: c(g, **x))
        try:
            st = cls(G)
        except ValueError:
            continue
        edges = list(G.edges()); sccs = scc_edge_sets(G) if cyclic else []
        sets_ = []
        for _ in range(rng.randint(3, 6)):
            r = rng.random()
            if sccs and r < 0.5:
                comp = rng.choice(sccs); sets_.append([e for e in comp if rng.random() < 0.6] or comp[:1])
            elif sccs and r < 0.7:
                sets_.append(list(rng.choice(sccs)))
            elif r < 0.85:
                sets_.append([e for e in edges if rng.random() < 0.3])
            else:
                sets_.append([])
        rep = {"edges": [list(e) for e in edges], "cyclic": cyclic, "ignore_sets": [[list(e) for e in s_] for s_ in sets_]}
        ctx.case(["widthhist", rep], nontrivial=True); ctx.count("E4_width_histories", "histories")
        # query kinds: ignore set + synthetic edges (what the models ask), the bare call, an explicitly empty list, synthetic edges only
        kinds = [("set", ig) for ig in sets_]
        for _ in range(rng.randint(1, 3)):
            kinds.insert(rng.randrange(len(kinds) + 1), (rng.choice(["bare", "empty", "synthetic"]), []))
        rep["queries"] = [k_ for k_, _ in kinds]
        for j, (kind, ig) in enumerate(kinds):
            if len(ig) >= len(edges):
                continue

            def ask(obj):
                if kind == "bare":
                    return obj.get_width()
                if kind == "empty":
                    return obj.get_width(edges_to_ignore=[])
                return obj.get_width(edges_to_ignore=list(ig) + list(obj.source_sink_edges))
            got = exp = None
            try:
                got = ask(st)
            except Exception as e:
                got = f"raise:{type(e).__name__}"
            try:
                fresh = cls(G); exp = ask(fresh)
            except Exception as e:
                exp = f"raise:{type(e).__name__}"
            ctx.count("E4_width_histories", "queries")
            if got != exp:
                ctx.report(f"get_width call #{j + 1} on one object = {got}, a fresh object answers {exp}", rep); break
            if isinstance(exp, str):
                ctx.report(f"get_width raised on a fresh object: {exp}", rep); break


def bottleneck_scc(nA, nB):
    """an SCC with halves A and B, ONE edge from A to B and all |A|*|B| edges back: a single covering walk exists but
    has to cross the A->B edge once per back edge (high repetition count)"""
    A = [f"a{i}" for i in range(nA)]; B = [f"b{i}" for i in range(nB)]
    G = nx.DiGraph(); G.graph["id"] = "graph 1"
    G.add_edge("s", A[0]); G.add_edge(A[0], "t"); G.add_edge(A[0], B[0])
    for a in A[1:]: G.add_edge(a, A[0])
    for b in B[1:]: G.add_edge(B[0], b)
    for b in B:
        for a in A: G.add_edge(b, a)
    return G


def run_families(ctx):
    import flowpaths as fp
    sizes = [(1, 2), (2, 2), (2, 3), (3, 3)] + ([(3, 4), (4, 4)] if ctx.tier == "thorough" or True else [])
    for nA, nB in sizes:
        G = bottleneck_scc(nA, nB)
        rep = {"family": "bottleneck_scc", "nA": nA, "nB": nB, "edges": [list(e) for e in G.edges()]}
        ctx.case(["bottleneck", nA, nB], nontrivial=True); ctx.count("E2_repetition_family", "cases")
        try:
            m = fp.MinPathCoverCycles(G, solver_options={"threads": THREADS}); m.solve()
            km = fp.kPathCoverCycles(G, k=1, solver_options={"threads": THREADS}); km.solve()
        except Exception as e:
            ctx.report(f"cover model raised {e!r}", rep); continue
        if not m.is_solved():
            ctx.report("MinPathCoverCycles not solved although one walk covers every edge", rep); continue
        walks = m.get_solution()["walks"]
        if props.covers(G, walks) is not None or len(walks) != 1:
            ctx.report(f"MinPathCoverCycles returned {len(walks)} walks ({props.covers(G, walks)}); one covering walk exists", rep); continue
        if not km.is_solved():
            ctx.report("kPathCoverCycles(k=1) not solved although the width is 1", rep)


def run_constraints_over_ignored(ctx, n):
    """the minimum also counts the routes the CONSTRAINTS force: b parallel branches (optionally a cycle on one of them for the
    cyclic class), most edges ignored, one subset/subpath constraint per branch made of (ignored) edges of that branch -- b
    routes are needed although far fewer elements remain to be covered; edge and node covers"""
    import flowpaths as fp
    for i in range(n):
        rng = ctx.rng("consign", i)
        cyclic = i % 2 == 0
        b = rng.randint(2, 4); depth = rng.randint(1, 2)
        G = nx.DiGraph(); G.graph["id"] = "branches"
        branches = []
        for j in range(b):
            nodes = ["s"] + [f"x{j}_{d}" for d in range(depth)] + ["t"]
            es = list(zip(nodes, nodes[1:])); G.add_edges_from(es); branches.append(es)
        if cyclic and rng.random() < 0.6:
            G.add_edge("x0_0", "x0_0")                      # a self-loop: the class for graphs with cycles
        es_all = list(G.edges())
        keep = rng.sample(es_all, rng.randint(1, 2))         # the only elements that still need covering
        ign = [e for e in es_all if e not in keep]
        cons = [list(br) for br in branches]
        rep = {"family": "constraints over ignored elements", "cyclic": cyclic, "edges": [list(e) for e in es_all], "ignored": ign, "constraints": cons}
        ctx.case(["consign", b, depth, cyclic, keep], nontrivial=True); ctx.count("E2_constraints_over_ignored", "cases")
        try:
            if cyclic:
                m = fp.MinPathCoverCycles(G, elements_to_ignore=ign, subset_constraints=cons, solver_options={"threads": THREADS})
            else:
                m = fp.MinPathCover(G, elements_to_ignore=ign, subpath_constraints=cons, solver_options={"threads": THREADS})
            m.solve()
        except Exception as e:
            ctx.report(f"cover model raised {e!r}", rep); continue
        if not m.is_solved():
            ctx.report(f"{'MinPathCoverCycles' if cyclic else 'MinPathCover'} is not solved although {b} routes (one per branch) cover the non-ignored "
                       f"elements and realise every constraint", rep); continue
        routes = m.get_solution()["walks" if cyclic else "paths"]
        why = props.constraint_covered(cons, routes, coverage=1.0, as_set=cyclic)
        if why or len(routes) != b:
            ctx.report(f"{'MinPathCoverCycles' if cyclic else 'MinPathCover'} returned {len(routes)} routes ({why}); every route realises at most one "
                       f"of the {b} constraints, so the minimum is {b}", dict(rep, solution=routes))
