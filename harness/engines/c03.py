"""C03 — MinFlowDecomp (DAG) always finds a decomposition and it has the fewest paths.
E2: solved + explains the flow + number of paths == exhaustive minimum (exact rational oracle) for
    int and float weights, subpath constraints, ignored elements, node-weighted input, every
    lower-bound / greedy / guessed-weights option; get_lowerbound_k() <= minimum.
E4: the sequence of k tried by solve() vs the proved search model (Search.v) on the same outcomes."""
import collections
from fractions import Fraction as F
import networkx as nx
import common, gen, gen2, props, oracles, voracle

LEVEL = "proof"
EXPLANATION = ("Props/C03.v: the k-search returns the least feasible k >= lower bound when every per-k model is decided exactly "
               "(search_min), lower bounds are valid (weak duality: a decomposition covers the positive edges, so it needs at least "
               "a maximum antichain many paths), an optimum with at most |E| paths exists (peeling theorem), so the inclusive range "
               "[lb, |E|] always contains the optimum; feasibility of the per-k LP is exactly existence of a decomposition into <= k "
               "paths (C02 soundness + completeness). Tie: E4 k-sequence, E2 exhaustive minimum on tiny instances.")
ASSUMPTIONS = ["solver specification: kOptimal => feasible assignment, kInfeasible => none exists (DESIGN §4)",
               "oracle domain: DAGs <= 6 nodes, <= 4 paths in the optimum; float minimality decided by exact rational linear algebra over path subsets"]
TRUSTED = ["oracle harness/oracles.py (unverified Python; used to search for failing inputs and to cross-check optima)"]
THREADS = 1

OPTS = [
    {}, {"optimize_with_greedy": False}, {"optimize_with_greedy": True},
    {"optimize_with_greedy": False, "optimize_with_safe_paths": True, "optimize_with_flow_safe_paths": False},
    {"optimize_with_greedy": False, "optimize_with_safe_sequences": True, "optimize_with_safe_paths": False, "optimize_with_flow_safe_paths": False},
    {"optimize_with_greedy": False, "optimize_with_flow_safe_paths": True, "optimize_with_safe_paths": False},
    {"optimize_with_greedy": False, "use_min_gen_set_lowerbound": True},
    {"optimize_with_greedy": False, "optimize_with_guessed_weights": True},
    {"optimize_with_greedy": False, "use_subgraph_scanning_lowerbound": True},
    {"optimize_with_greedy": False, "optimize_with_safety_as_subpath_constraints": True, "optimize_with_safe_paths": True, "optimize_with_flow_safe_paths": False},
]


def expand_nodes(G, attr):
    """independent node expansion: v -> (v|in, v|out) carrying v's value; original edges carry nothing"""
    H = nx.DiGraph()
    for v, d in G.nodes(data=True):
        if attr in d:
            H.add_edge(v + "|in", v + "|out", **{attr: d[attr]})
        else:
            H.add_edge(v + "|in", v + "|out")
    for u, v in G.edges():
        H.add_edge(u + "|out", v + "|in")
    return H


def make(rng):
    G, paths, ws, is_int = gen2.rand_flow_dag(rng, nmax=rng.choice([4, 5, 6]), npaths=(1, 4))
    G.graph["id"] = "graph 1"
    node = rng.random() < 0.2
    info = {"node": node, "is_int": is_int}
    kw = {"flow_attr": "flow", "weight_type": int if is_int else float, "solver_options": {"threads": THREADS}}
    if node:
        # node weights = total weight of the generating paths through the node; edges carry nothing
        val = collections.Counter()
        for p, w in zip(paths, ws):
            for v in p:
                val[v] += w
        H = nx.DiGraph(); H.graph["id"] = "graph 1"; H.add_nodes_from(G.nodes()); H.add_edges_from(G.edges())
        for v in H.nodes():
            H.nodes[v]["flow"] = int(val[v]) if is_int else float(val[v])
        if rng.random() < 0.3 and H.number_of_nodes() > 2:
            v = rng.choice(list(H.nodes())); del H.nodes[v]["flow"]
        G = H
        kw["flow_attr_origin"] = "node"
    cons = []
    r = rng.random()
    if r < 0.3:
        cons = gen2.rand_constraints(rng, paths, maxn=2)
    elif r < 0.45 and not node:
        # constraints taken from ARBITRARY source-to-sink paths: several of them may be pairwise incompatible, so
        # that the constrained minimum exceeds the unconstrained one (realised by additional paths)
        allp = gen.all_st_paths(G)
        cons = [c for c in gen2.rand_constraints(rng, [rng.choice(allp) for _ in range(4)], maxn=4) if c][:4]
    elif r < 0.55 and not node:
        # all (in-edge, out-edge) pairs through one inner node: pairwise incompatible two-edge constraints, whose
        # number can exceed every bound that only looks at the graph (e.g. |E| - |V| + 2)
        inner = [v for v in G if G.in_degree(v) >= 2 and G.out_degree(v) >= 2]
        if inner:
            c = rng.choice(inner)
            pairs_ = [[(u, c), (c, w)] for u in G.predecessors(c) for w in G.successors(c)]
            rng.shuffle(pairs_)
            cons = pairs_[:4]
    elif r < 0.7 and not node:
        # a "shortcut" edge (a,c) for which a longer route a -> .. -> c exists, together with a neighbouring edge:
        # containment has to be decided on EDGES, visiting both endpoints is not enough
        short = []
        for (a, c) in G.edges():
            H = G.copy(); H.remove_edge(a, c)
            if nx.has_path(H, a, c):
                short.append((a, c))
        if short:
            a, c = rng.choice(short)
            nxt = [(c, d) for d in G.successors(c)]; prv = [(p_, a) for p_ in G.predecessors(a)]
            con = ([rng.choice(prv)] if prv and rng.random() < 0.5 else []) + [(a, c)] + ([rng.choice(nxt)] if nxt else [])
            if len(con) >= 2:
                cons = [con]; info["force_default_options"] = True      # the greedy shortcut decides containment itself
    if cons and node:
        cn = []
        for c in cons:
            ns = []
            for (u, v) in c:
                if not ns or ns[-1] != u: ns.append(u)
                ns.append(v)
            cn.append(ns)
        cons = cn
    if cons:
        kw["subpath_constraints"] = cons
    ign = []
    if rng.random() < 0.3:
        elems = list(G.nodes()) if node else list(G.edges())
        ign = [x for x in elems if rng.random() < 0.25]
        if len(ign) == len(elems): ign = []
        if ign:
            kw["elements_to_ignore"] = ign
    # documented domain: at least one non-ignored weighted element
    live = [x for x in (G.nodes() if node else G.edges()) if x not in ign and "flow" in (G.nodes[x] if node else G.edges[x])]
    if not live:
        kw.pop("elements_to_ignore", None); ign = []
    kw["optimization_options"] = {} if info.get("force_default_options") else dict(rng.choice(OPTS))
    info.update({"G": G, "kwargs": kw, "cons": cons, "ignore": ign, "paths": paths, "weights": ws})
    return info


def describe(info):
    G = info["G"]
    kw = {k: (v.__name__ if isinstance(v, type) else v) for k, v in info["kwargs"].items()}
    return {"class": "MinFlowDecomp", "nodes": [[v, dict(d)] for v, d in G.nodes(data=True)],
            "edges": [[u, v, dict(d)] for u, v, d in G.edges(data=True)], "kwargs": kw}


def oracle_min(info):
    G = info["G"]; is_int = info["is_int"]
    if not info["node"]:
        return oracles.min_fd(G, "flow", is_int, ignore=info["ignore"], cons=info["cons"], kmax=4)
    H = expand_nodes(G, "flow")
    ign = [e for e in H.edges() if "flow" not in H.edges[e]] + [(v + "|in", v + "|out") for v in info["ignore"]]
    cons = []
    for c in info["cons"]:
        # a node-level constraint is the sequence of the nodes' expansion edges only (NodeExpandedDiGraph docs):
        # the nodes must be visited by one path, not necessarily consecutively
        cons.append([(v + "|in", v + "|out") for v in c])
    return oracles.min_fd(H, "flow", is_int, ignore=ign, cons=cons, kmax=4)


def corpus():
    """hand-made instances that exercised past or seeded defects; run first on every run"""
    out = []
    def inst(edges, **kw):
        G = nx.DiGraph(); G.graph["id"] = "graph 1"
        for u, v, f in edges: G.add_edge(u, v, flow=f)
        k = {"flow_attr": "flow", "weight_type": int, "solver_options": {"threads": THREADS}, "optimization_options": {}}
        k.update(kw)
        return {"node": False, "is_int": True, "G": G, "kwargs": k, "cons": k.get("subpath_constraints", []),
                "ignore": k.get("elements_to_ignore", []), "paths": [], "weights": []}
    bow = [("a1", "c", 2), ("a2", "c", 2), ("c", "b1", 2), ("c", "b2", 2)]
    out.append(inst(bow, subpath_constraints=[[(a, "c"), ("c", b)] for a in ("a1", "a2") for b in ("b1", "b2")]))   # constrained minimum 4 > |E|-|V|+2
    out.append(inst([("s", "a", 10), ("a", "b", 7), ("b", "c", 7), ("a", "c", 3), ("c", "d", 7), ("c", "e", 3), ("d", "t", 7), ("e", "t", 3)],
                    subpath_constraints=[[("a", "c"), ("c", "d")]]))                    # shortcut edge a->c next to the route a->b->c (greedy default)
    out.append(inst([("a", "b", 3)]))                                                   # minimum = |E| = 1
    out.append(inst([("s", "a", 3), ("s", "b", 2), ("s", "c", 1)]))                     # star: minimum = |E|
    out.append(inst([(f"v{i}", f"v{i+1}", i + 1) for i in range(9)], elements_to_ignore=[(f"v{i}", f"v{i+1}") for i in range(8)]))
    out.append(inst([("a", "c", 5), ("b", "c", 3), ("c", "d", 5)], elements_to_ignore=[("b", "c")]))
    out.append(inst([("v1", "v4", 4), ("v5", "v2", 4)], elements_to_ignore=[("v5", "v2")],
                    optimization_options={"optimize_with_greedy": False, "use_min_gen_set_lowerbound": True}))
    return out


def run(ctx):
    import flowpaths as fp
    ctx.rule = ("random DAGs (<= 6 nodes) with positive conserving flows = superpositions of 1-4 weighted paths (int / dyadic float), "
                "20% node-weighted (some nodes without the attribute), 30% subpath constraints, 30% ignored elements, one of 10 "
                "option vectors (greedy, safety, min-gen-set / subgraph-scanning lower bounds, guessed weights); "
                "non-trivial = optimum >= 2 paths; distinct by graph+arguments")
    n = ctx.budget(420, 24000)
    fixed = corpus()
    for i in range(-len(fixed), n):
        if i < 0:
            info = fixed[i + len(fixed)]
        else:
            rng = ctx.rng("mfd", i)
            info = make(rng)
        rep = {"instance": describe(info)}
        try:
            m = fp.MinFlowDecomp(info["G"], **info["kwargs"])
            lb = m.get_lowerbound_k()
            ok = m.solve()
        except ValueError as e:
            ctx.dist("ValueError"); ctx.report("MinFlowDecomp rejected a positive conserving flow: " + repr(e), rep); continue
        except Exception as e:
            ctx.report("MinFlowDecomp raised " + repr(e), rep); continue
        kmin, wit = oracle_min(info)
        if info["is_int"] and not info["node"]:
            # integer edge-weighted instances: the minimum decided by the VERIFIED exhaustive oracle (FlowOracle.min_fd_correct)
            vk = voracle.min_fd(ctx, info["G"], "flow", ignore=info["ignore"], cons=info["cons"], kmax=4)
            if vk not in ("too-large", "not-integer"):
                ctx.count("E2_minimum", "decided_by_verified_oracle")
                if kmin != vk:
                    ctx.report(f"harness inconsistency: Python oracle says {kmin}, the verified flow oracle says {vk}", rep, concrete=False)
                kmin = vk
        ctx.case(describe(info), nontrivial=(kmin or 0) >= 2,
                 sample={"edges": describe(info)["edges"], "kwargs": describe(info)["kwargs"], "oracle_min": kmin})
        ctx.dist("opts:" + ",".join(sorted(k for k, v in info["kwargs"]["optimization_options"].items() if v)) or "default")
        ctx.count("E2_minimum", "cases")
        rep["oracle_min"] = kmin; rep["oracle_witness"] = str(wit); rep["lowerbound_k"] = lb
        def rebuild(extra):
            kw2 = dict(info["kwargs"]); kw2["solver_options"] = dict(kw2.get("solver_options") or {}, **extra)
            m2 = fp.MinFlowDecomp(info["G"], **kw2); m2.solve(); return m2
        if not ok or not m.is_solved():
            if common.solver_artifact(ctx, rebuild, lambda m2: m2.is_solved()):
                continue
            ctx.report("MinFlowDecomp.solve() did not succeed on a positive conserving flow", rep); continue
        sol = m.get_solution()
        rep["solution"] = {"paths": sol["paths"], "weights": sol["weights"]}
        # explained exactly (edge mode) / via the expansion (node mode)
        if not info["node"]:
            why = props.explains_flow(info["G"], "flow", sol["paths"], sol["weights"], ignore=info["ignore"], exact=info["is_int"])
        else:
            acc = collections.Counter()
            for p, w in zip(sol["paths"], sol["weights"]):
                for v in p: acc[v] += F(w) if info["is_int"] else w
            why = next((f"node {v}: explained {acc[v]} != {d['flow']}" for v, d in info["G"].nodes(data=True)
                        if "flow" in d and v not in info["ignore"] and abs(float(acc[v]) - d["flow"]) > 1e-6), None)
        if why:
            ctx.report("MinFlowDecomp solution does not explain the flow: " + why, rep); continue
        if info["cons"] and not info["node"]:
            whyc = props.constraint_covered(info["cons"], sol["paths"])
            if whyc:
                ctx.report("MinFlowDecomp solution violates a subpath constraint: " + whyc, rep); continue
        if any(w <= 1e-9 for w in sol["weights"]) and kmin is not None and len(sol["paths"]) > kmin:
            pass
        if kmin is None:
            ctx.count("E2_minimum", "oracle_out_of_domain"); continue
        if len(sol["paths"]) > kmin and common.solver_artifact(ctx, rebuild, lambda m2: m2.is_solved() and len(m2.get_solution()["paths"]) == kmin):
            continue
        if len(sol["paths"]) != kmin:
            ctx.report(f"MinFlowDecomp returned {len(sol['paths'])} paths, the minimum is {kmin}", rep); continue
        if lb > kmin:
            ctx.report(f"get_lowerbound_k() = {lb} exceeds the minimum {kmin}", rep); continue
        if m.get_objective_value() != kmin:
            ctx.report(f"get_objective_value() = {m.get_objective_value()} but the minimum is {kmin}", rep); continue
        ctx.count("E2_minimum", "agree")
