"""C08 — k-Minimum-Path-Error is feasible for k >= width and minimises total slack.
E1: the LP kMinPathError hands to HiGHS == ErrEnc.encode_kmpe on the caller's arguments (positions / path lengths,
    W, Pi, Slack, Gamma, products, scaled 9aa/9ab, piecewise-constant length factors, integer product for the
    scaled slack, given-weights variant, objective).
E2: on every solved instance (DAG and cyclic class): routes valid, k routes / weights / slacks, types; for every
    non-ignored element scale*|f - explained| <= (length-scaled) slack through it, recomputed from the returned routes;
    objective == sum of slacks == solver objective; scaled slacks == slack * factor of the range containing the
    route's length; k=None picks the covering number; every k >= width is feasible; on tiny integer instances the
    objective == exhaustive optimum; is_valid_solution() accepts."""
import math
from fractions import Fraction as F
import networkx as nx
import common, gen, gen2, lpdump, e1, e1err, errlib, props
from engines import c07

LEVEL = "proof"
EXPLANATION = ("Props/C08.v (12 theorems, all closed under the global context). For the LP without path-length factors and given weights, WITH subpath constraints and length attribute "
               "(executable premises kmpe_premises_b evaluated per E1 instance): C08_kmpe_feasible_iff_checked (LP satisfiable <=> a choice of k paths, weights, slacks exists), "
               "C08_kmpe_feasible_ge_width (k paths covering all non-ignored edges => feasible), C08_kmpe_optimal_checked (objective of an optimal satisfying assignment = minimum of the slack sum over "
               "ALL choices with scale_e*|f(e) - sum_i w_i[e on i]| <= sum_i slack_i[e on i], arbitrary non-negative typed weights/slacks; bound w_max removed by kmpe_clip); parts: kmpe_enc_sound(_checked), "
               "kmpe_complete. Also kmpe_factor_sound, kmpe_is_valid_accepts (code as it is), kmpe_is_valid_old_refuted; with length factors != 1 feasibility for k >= width is refuted (two open findings). "
               "Optimality is relative to the solver specification (DESIGN §4). Not proved: given-weights variant, length factors; cyclic class: E2 only. "
               "Tie: E1 per instance over the option space + per-instance premises check; E2 on every answer; exhaustive / closed-form optimum.")
ASSUMPTIONS = ["HiGHS status kOptimal => returned assignment satisfies the rows within 1e-9 and is optimal (solver specification, DESIGN §4)",
               "float weights: inequality checked with tolerance 1e-6 per route on an element; integer weights: exact",
               "exhaustive optimum: integer weights in [0, max f], integer slacks, DAGs <= 6 edges, k <= 3 (search space capped, larger cases skipped and counted)"]
TRUSTED = ["models: coq/theories/ErrEnc.v (+ PathEnc.v, Blocks.v); wire/colkeys harness/e1err.py; LP read-back harness/lpdump.py",
           "E2 oracle side: harness/errlib.py brute force / covering number and harness/props.py recomputation (plain Python, exact Fractions)"]

K_GT1 = "kmpe_factor_gt1_gamma_bound"
K_LT1 = "kmpe_factor_lt1_slack_bound"
K_CAP = "cycles_rep_cap_from_reachable_max"
K_WMAXREP = "cycles_products_bounded_by_wmax"


def route_length(args, route):
    """length of the internal s-t path of a returned route as the model encodes it (source and sink edges count 1)"""
    G = args["G"]; la = args.get("length_attr")
    if args.get("flow_attr_origin", "edge") == "edge":
        return sum((G.edges[e].get(la, 1) if la else 1) for e in zip(route, route[1:])) + 2
    tot = 2
    for v in route:
        tot += G.nodes[v].get(la, 1) if la else 1
    for e in zip(route, route[1:]):
        tot += (G.edges[e].get(la, 0) if la else 1)
    return tot


def factor_of_length(args, L):
    for (lo, hi), c in zip(args.get("path_length_ranges", []) or [], args.get("path_length_factors", []) or []):
        if lo <= L <= hi:
            return F(c)
    return None


def check_solution(ctx, cls, args, m, exact, eng="E2_mpe"):
    rk = errlib.routes_key(cls)
    origin = args.get("flow_attr_origin", "edge")
    G = args["G"]; ign = args.get("elements_to_ignore", []) or []; sc = args.get("error_scaling", {}) or {}
    kw_full = {"remove_empty_walks": False} if rk == "walks" else {"remove_empty_paths": False}
    sol = m.get_solution(); full = m.get_solution(**kw_full)
    rep = {"class": cls, "args": errlib.describe(args), "solution": {k: v for k, v in sol.items() if not k.startswith("_")}}
    if not errlib.check_shape(ctx, cls, args, m, sol, full, rep):
        return None
    routes, weights, slacks = sol[rk], sol["weights"], sol["slacks"]
    sslacks = sol.get("scaled_slacks")
    dropped = errlib.dropped_single_node_routes(cls, args, sol, full)
    if dropped:
        ctx.report(f"{cls} (node weights): get_solution() drops the single-node route(s) {dropped} with their weights/slacks", rep)
        return None
    has_fac = bool(args.get("path_length_factors"))
    if has_fac:
        if sslacks is None:
            ctx.report(f"{cls}: path_length_factors given but the solution has no scaled_slacks", rep); return None
        for r, s, ss in zip(routes, slacks, sslacks):
            c = factor_of_length(args, route_length(args, r))
            if c is None:
                ctx.report(f"{cls}: route {r} has length {route_length(args, r)} which lies in no path_length_range", rep); return None
            if abs(float(ss) - float(c) * float(s)) > 1e-6:
                ctx.report(f"{cls}: scaled slack {ss} of route {r} (length {route_length(args, r)}) != slack {s} * factor {c}", rep); return None
        ctx.count(eng, "length_factors_recomputed_ok")
        use = [float(x) for x in sslacks]; ex = False
    else:
        use = slacks; ex = exact
    why = props.mpe_feasible(G, args["flow_attr"], routes, weights, use, origin, ign, sc, exact=ex)
    if why:
        ctx.report(f"{cls}: returned solution violates the path-error inequality: {why}", rep); return None
    ctx.count(eng, "inequality_ok")
    so = m.solver.get_objective_value()
    tot = sum(full["slacks"])
    if abs(so - float(tot)) > 1e-6 * (m.k + 1) or abs(m.get_objective_value() - float(tot)) > 1e-6 * (m.k + 1):
        ctx.report(f"{cls}: objective: solver {so}, get_objective_value() {m.get_objective_value()}, sum of returned slacks {tot}", rep); return None
    ctx.count(eng, "objective_ok")
    try:
        valid = m.is_valid_solution()
    except Exception as e:
        ctx.report(f"{cls}: is_valid_solution() raised {e!r} on the model's own optimum", rep); valid = True
    if not valid:
        ctx.report(f"{cls}: is_valid_solution() rejects the model's own optimal solution", rep)
    else:
        ctx.count(eng, "is_valid_solution_accepts")
    return so


def e1_case(ctx, m, args):
    ids = e1.ids_of(m.G)
    impl = lpdump.dump_impl(m.solver, e1err.colkey(m, ids))
    req = e1err.request("kmpe", m, ids, args)
    d = e1.compare(ctx, "E1_kMinPathError_LP", "kmpe", m, impl, req, args)
    try:
        e1err.theorem_premises(ctx, "E1_kMinPathError_LP", "kmpepremises", m, ids, args)
    except Exception as e:
        ctx.report(f"E1_kMinPathError_LP: optimality-premises check crashed: {e!r}", {"engine": "E1_kMinPathError_LP"}, concrete=False)
    if d and ctx.engines.get("E1_kMinPathError_LP", {}).get("disagreements", 0) <= 3:   # keep room for concrete failing inputs
        ctx.report("E1 correspondence broken: LP of kMinPathError differs from ErrEnc.encode_kmpe: " + "; ".join(d[:3]),
                   {"class": "kMinPathError", "args": errlib.describe(args), "diff": d[:12]}, concrete=False)
    return impl, d


def faithful_bounds(args, m):
    """the bounds the LP of the code puts on slack and scaled slack (ErrEnc: slack <= w_max and < 2^bits, gamma product
    forces the multiplied variable <= w_max)"""
    w_max = F(m.w_max); fs = [F(c) for c in args.get("path_length_factors", [])]
    ub = w_max * max(fs)
    bits = math.ceil(math.log2(float(ub) + 1))
    return {"slack_ub": min(w_max, 2 ** bits - 1), "sslack_ub": w_max}


def run_dag(ctx, n, tiny):
    import flowpaths as fp
    stream = "mpe-tiny" if tiny else "mpe"
    for i in range(n):
        def _one(cur):
            rng = ctx.rng(stream, i)
            args, info = gen2.rand_err_args(rng, "mpe", tiny=tiny, force_int=True if tiny else None, nmax=None if tiny else rng.choice([3, 4, 5]))
            exact = args["weight_type"] == int
            base = dict(args, solver_options=dict(errlib.SOLVER))
            npspec = errlib.numpy_spec(ctx.rng(stream + "-np", i))
            if npspec:
                cur["args"] = dict(base, k=None)
                b0 = errlib.attach_numpy(ctx, "kMinPathError", dict(base, k=None), {x: y for x, y in npspec.items() if x != "k"})
                base = {x: y for x, y in b0.items() if x != "k"}
            given = args.get("solution_weights_superset")
            # the model's own covering number (k=None)
            try:
                m0 = fp.kMinPathError(**errlib.clean_args(dict(base, k=None)))
            except (ValueError, OverflowError) as e:
                ctx.dist("ctor " + type(e).__name__); return
            width = m0.original_k
            if width > 4 or (tiny and width > 3):
                ctx.dist("skipped: width > cap"); return
            edge_mode = args.get("flow_attr_origin", "edge") == "edge"
            el = paths = None
            if edge_mode:
                el = errlib.elements_edge(args)
                paths = errlib.st_paths(args["G"], args.get("additional_starts", ()), args.get("additional_ends", ()))
                if len(paths) <= 40 and len(el) <= 10:
                    mc = errlib.min_cover(paths, el)
                    if mc is not None:
                        if mc != width:
                            ctx.report(f"kMinPathError(k=None) chose k={width}, but {mc} source-to-sink paths are needed to cover the non-ignored edges",
                                       {"class": "kMinPathError", "args": errlib.describe(dict(base, k=None)), "k_chosen": width, "covering_number": mc})
                        else:
                            ctx.count("E2_width", "k_none_equals_covering_number")
            kchoice = rng.choice(["none", "w", "w", "w+1", "below"])
            k = {"none": None, "w": width, "w+1": width + 1, "below": max(1, width - 1)}[kchoice]
            if tiny and k is not None and k > 3:
                k = width
            if given is not None and len(given) < width:
                # given weights: the number of layers is len(given); make it a cover-capable instance half of the time
                if rng.random() < 0.6:
                    conv = int if exact else float
                    given = list(given) + [conv(rng.choice([1, 2, 3])) for _ in range(width - len(given))]
                    args["solution_weights_superset"] = given; base["solution_weights_superset"] = given
            a = dict(base, k=k)
            cur["args"] = a
            if npspec and "k" in npspec and "numpy_types" in a:
                a["numpy_types"] = dict(a["numpy_types"], k=npspec["k"]); cur["args"] = a
                a = errlib.numpy_k_check(ctx, "kMinPathError", a)
                cur["args"] = a
            lpdump.reset()
            try:
                m = fp.kMinPathError(**errlib.clean_args(a))
            except (ValueError, OverflowError) as e:
                ctx.dist("ctor " + type(e).__name__); return
            c07.option_hist(ctx, a); ctx.dist("k:" + kchoice)
            impl, d = e1_case(ctx, m, a)
            try:
                m.solve()
            except Exception as e:
                ctx.report("kMinPathError.solve() raised " + repr(e), {"class": "kMinPathError", "args": errlib.describe(a)}); return
            status = m.solver.get_model_status()
            cons = a.get("subpath_constraints")
            fs = [F(c) for c in (a.get("path_length_factors") or [])]
            k_eff = m.k if given is None else min(m.k, m.original_k)
            so = None
            if m.is_solved():
                ctx.count("E2_mpe", "solved")
                so = check_solution(ctx, "kMinPathError", a, m, exact)
            else:
                ctx.count("E2_mpe", "unsolved:" + str(status))
                if status == "kInfeasible" and k_eff >= width and not cons:
                    rep = {"class": "kMinPathError", "args": errlib.describe(a), "status": status, "width": width}
                    key = None
                    if fs and max(fs) > 1:
                        key = K_GT1
                    elif fs and min(fs) < 1:
                        key = K_LT1
                    errlib.report(ctx, f"kMinPathError is infeasible although k={k_eff} >= covering number {width} (no subpath constraints)", rep,
                                  "kMinPathError", a, m, key=key)
            # exhaustive optimum (edge origin, integer data, no constraints, no given weights)
            if tiny and edge_mode and not cons and given is None and exact and not a.get("length_attr") and status in ("kOptimal", "kInfeasible") \
                    and m.k <= 3 and len(paths) <= 14:
                fo = (lambda p: factor_of_length(a, len(p) + 1)) if fs else None
                best, searched = errlib.brute_mpe(a, m.k, paths, el, factor_of=fo)
                if not searched:
                    ctx.count("E2_exhaustive_optimum", "skipped_too_large")
                else:
                    impl_val = so if m.is_solved() else None
                    same = (best is None and impl_val is None) or (best is not None and impl_val is not None and abs(float(best) - impl_val) <= 1e-6)
                    if same:
                        ctx.count("E2_exhaustive_optimum", "agreements")
                    else:
                        rep = {"class": "kMinPathError", "args": errlib.describe(a), "solver_objective": impl_val, "exhaustive_optimum": None if best is None else str(best)}
                        key = None
                        if fs:
                            # does the faithful model (the code's bounds on slack / scaled slack) reproduce the answer?
                            fb, _ = errlib.brute_mpe(a, m.k, paths, el, factor_of=fo, faithful=faithful_bounds(a, m))
                            reproduces = (fb is None and impl_val is None) or \
                                         (fb is not None and impl_val is not None and abs(float(fb) - impl_val) <= 1e-6)
                            if reproduces:
                                key = K_GT1 if max(fs) > 1 else (K_LT1 if min(fs) < 1 else None)
                        errlib.report(ctx, f"kMinPathError objective {impl_val} differs from the exhaustive optimum {best} (k={m.k})", rep, "kMinPathError", a, m, key=key)
            ctx.case(["mpe", tiny, errlib.describe(a)], nontrivial=len(impl["rows"]) > 12,
                     sample={"edges": errlib.describe(a)["edges"], "k": k, "options": {o: str(v) for o, v in a.items() if o not in ("G", "solver_options", "k")}})
        errlib.guarded(ctx, 'kMinPathError', f"{stream}#{i}", _one)


def scaled_copy(args, c):
    a = dict(args); G = args["G"].copy()
    for e in G.edges():
        if "flow" in G.edges[e]:
            G.edges[e]["flow"] = G.edges[e]["flow"] * c
    a["G"] = G
    return a


def run_cyclic(ctx, n):
    import flowpaths as fp
    for i in range(n):
        def _one(cur):
            rng = ctx.rng("mpe-cyc", i)
            args, is_int = c07.rand_cyclic_err(rng)
            base = dict(args, solver_options=dict(errlib.SOLVER))
            npspec = errlib.numpy_spec(ctx.rng("mpe-cyc-np", i))
            if npspec:
                cur["args"] = dict(base, k=None)
                b0 = errlib.attach_numpy(ctx, "kMinPathErrorCycles", dict(base, k=None), {x: y for x, y in npspec.items() if x != "k"})
                base = {x: y for x, y in b0.items() if x != "k"}
            try:
                m0 = fp.kMinPathErrorCycles(**errlib.clean_args(dict(base, k=None)))
            except (ValueError, OverflowError) as e:
                ctx.dist("cyc ctor " + type(e).__name__); return
            width = m0.k
            if width > 3:
                ctx.dist("cyc skipped: width > 3"); return
            k = rng.choice([None, width, width + 1])
            a = dict(base, k=k)
            cur["args"] = a
            if npspec and "k" in npspec and "numpy_types" in a:
                a["numpy_types"] = dict(a["numpy_types"], k=npspec["k"]); cur["args"] = a
                a = errlib.numpy_k_check(ctx, "kMinPathErrorCycles", a)
                cur["args"] = a
            try:
                m = fp.kMinPathErrorCycles(**errlib.clean_args(a)); m.solve()
            except Exception as e:
                ctx.report("kMinPathErrorCycles raised " + repr(e), {"class": "kMinPathErrorCycles", "args": errlib.describe(a)}); return
            c07.option_hist(ctx, a)
            if m.is_solved():
                ctx.count("E2_mpe_cycles", "solved")
                check_solution(ctx, "kMinPathErrorCycles", a, m, is_int, eng="E2_mpe_cycles")
            else:
                st = m.solver.get_model_status()
                ctx.count("E2_mpe_cycles", "unsolved:" + str(st))
                if st == "kInfeasible":
                    why = errlib.solver_disagrees("kMinPathErrorCycles", a, m)
                    if why:
                        ctx.count("solver_specification", "highs_answers_depend_on_presolve")     # solver defect (DESIGN 10.4), not reported
                    else:
                        cyclic_infeasible(ctx, "kMinPathErrorCycles", a, width, m.k)
            ctx.case(["mpe-cyc", errlib.describe(a)], nontrivial=c07.G_has_cycle(a["G"]))
        errlib.guarded(ctx, 'kMinPathErrorCycles', f"mpe-cyc#{i}", _one)


def run_family(ctx):
    """deterministic cyclic families (errlib.cyclic_families): feasible for every k >= width under the repetition caps of the
    code as it is, optimum known in closed form"""
    import flowpaths as fp
    for fi, fam in enumerate(errlib.cyclic_families()):
        for k in fam["k_list"]:
            def _one(cur):
                args = dict(G=fam["G"], flow_attr="flow", k=k, weight_type=fam["weight_type"], solver_options=dict(errlib.SOLVER))
                cur["args"] = args
                args = errlib.attach_numpy(ctx, "kMinPathErrorCycles", args, errlib.NP_ROT[(fi + 1) % len(errlib.NP_ROT)])
                cur["args"] = args
                rep = {"class": "kMinPathErrorCycles", "family": fam["name"], "args": errlib.describe(args), "closed_form_optimum": str(fam["mpe_opt"])}
                try:
                    m = fp.kMinPathErrorCycles(**errlib.clean_args(args)); m.solve()
                except Exception as e:
                    ctx.report(f"kMinPathErrorCycles raised {e!r} on family instance {fam['name']}", rep); return
                ctx.case(["mpe-family", fam["name"], k], nontrivial=True)
                if k is None and m.k != fam["width"]:
                    ctx.report(f"kMinPathErrorCycles(k=None) chose k={m.k} on '{fam['name']}', the covering number is {fam['width']}", rep); return
                st = m.solver.get_model_status()
                if not m.is_solved():
                    if st == "kInfeasible":
                        errlib.report(ctx, f"kMinPathErrorCycles is infeasible on '{fam['name']}' although k={m.k} >= covering number {fam['width']} "
                                      f"and a solution within every repetition cap exists", rep, "kMinPathErrorCycles", args, m)
                    else:
                        ctx.count("E2_cyclic_family", "inconclusive:" + str(st))
                    return
                so = check_solution(ctx, "kMinPathErrorCycles", args, m, fam["weight_type"] == int, eng="E2_cyclic_family")
                if so is None:
                    return
                if abs(so - float(fam["mpe_opt"])) > 1e-6:
                    rep["solution"] = {x: y for x, y in m.get_solution().items() if not x.startswith("_")}
                    errlib.report(ctx, f"kMinPathErrorCycles on '{fam['name']}' (k={m.k}) returns total slack {so}, the optimum is {fam['mpe_opt']}", rep,
                                  "kMinPathErrorCycles", args, m)
                else:
                    ctx.count("E2_cyclic_family", "optimum_agrees")
            errlib.guarded(ctx, 'kMinPathErrorCycles', f"{fam['name']} k={k}", _one)


def run_factor_family(ctx):
    """deterministic DAG instances with path_length_factors (errlib.length_factor_family): tight ranges, factors far apart, a perfect
    decomposition -- optimum total slack 0 with all slacks 0, so the open factor-bound findings do not apply; every instance must be
    solved with objective 0, k=None must pick 3, and the returned solution must pass the full E2 recomputation"""
    import flowpaths as fp
    for fi, fam in enumerate(errlib.length_factor_family()):
        def _one(cur):
            a = dict(fam["args"], solver_options=dict(errlib.SOLVER))
            cur["args"] = a
            a = errlib.attach_numpy(ctx, "kMinPathError", a, errlib.NP_ROT[fi % len(errlib.NP_ROT)])
            cur["args"] = a
            rep = {"class": "kMinPathError", "family": fam["name"], "args": errlib.describe(a), "closed_form_optimum": "0"}
            try:
                m = fp.kMinPathError(**errlib.clean_args(a)); m.solve()
            except Exception as e:
                ctx.report(f"kMinPathError raised {e!r} on family instance {fam['name']}", rep); return
            ctx.case(["mpe-length-factors", fam["name"]], nontrivial=True)
            if a["k"] is None and m.k != fam["width"]:
                ctx.report(f"kMinPathError(k=None) chose k={m.k} on '{fam['name']}', the covering number is {fam['width']}", rep); return
            st = m.solver.get_model_status()
            if not m.is_solved():
                if st == "kInfeasible":
                    errlib.report(ctx, f"kMinPathError is infeasible on '{fam['name']}' although k={m.k} >= covering number 3 and the three paths with "
                                       f"their exact weights and slack 0 satisfy every row (length factors only select a constant per path)", rep,
                                  "kMinPathError", a, m)
                else:
                    ctx.count("E2_length_factor_family", "inconclusive:" + str(st))
                return
            so = check_solution(ctx, "kMinPathError", a, m, True, eng="E2_length_factor_family")
            if so is None:
                return
            if abs(so) > 1e-6:
                rep["solution"] = {x: y for x, y in m.get_solution().items() if not x.startswith("_")}
                errlib.report(ctx, f"kMinPathError on '{fam['name']}' returns total slack {so}, the optimum is 0", rep, "kMinPathError", a, m)
            else:
                ctx.count("E2_length_factor_family", "optimum_agrees")
        errlib.guarded(ctx, 'kMinPathError', fam["name"], _one)


def cyclic_infeasible(ctx, cls, a, width, k_eff):
    """k >= width but infeasible.  Two known mechanisms, both "repetitions are bounded through the weights":
       (a) repetition cap = largest reachable weight: multiplying all weights by a large constant (which changes nothing
           but the caps, C04 scale invariance) makes the same instance feasible;
       (b) Pi = multiplicity*weight and Gamma = multiplicity*slack are bounded by w_max: explained only if the non-ignored
           edges cannot be covered by k_eff walks that use no edge twice (with such a cover, zero weights and slack max f
           satisfy every bound, so infeasibility would be a new defect)."""
    G = a["G"]
    verdict, c = errlib.rescale_feasible(cls, a)
    rep = {"class": cls, "args": errlib.describe(a), "width": width, "feasible_after_scaling_by": c}
    key = None
    if verdict == "feasible":
        key = K_CAP
    else:
        el = errlib.elements_edge(a) if a.get("flow_attr_origin", "edge") == "edge" else None
        if el is not None:
            trails, complete = errlib.st_trails(G, a.get("additional_starts", ()), a.get("additional_ends", ()))
            if complete and not errlib.trail_cover_exists(trails, set(el), k_eff):
                key = K_WMAXREP
            rep["trail_cover_exists"] = None if not complete else (key is None)
        if key is None and verdict == "inconclusive":
            ctx.count("E2_mpe_cycles", "infeasible_diagnosis_inconclusive(time limit)"); return
    ctx.report(f"{cls} is infeasible although k={k_eff} >= covering number {width}", rep, key=key)


def witnesses(ctx):
    """the _refuted witnesses and the figure-eight (DESIGN §6 #11) replayed on the implementation on every run"""
    import flowpaths as fp
    G = nx.DiGraph(); G.add_edge("a", "b", flow=1); G.add_edge("b", "c", flow=0)
    for fac, key in ((3, K_GT1),):
        a = dict(G=G, flow_attr="flow", k=1, weight_type=int, path_length_ranges=[(0, 40)], path_length_factors=[fac], solver_options=dict(errlib.SOLVER))
        m = fp.kMinPathError(**errlib.clean_args(a)); m.solve()
        if not m.is_solved():
            ctx.report("kMinPathError is infeasible although k=1 >= covering number 1 (witness of kmpe_factors_gt1_refuted)",
                       {"class": "kMinPathError", "args": errlib.describe(a), "status": m.solver.get_model_status()}, key=key)
        ctx.case(["witness-gt1"], nontrivial=True)
    G2 = nx.DiGraph(); G2.add_edge("a", "b", flow=4); G2.add_edge("b", "c", flow=0)
    a = dict(G=G2, flow_attr="flow", k=1, weight_type=int, path_length_ranges=[(0, 40)], path_length_factors=[0.5], solver_options=dict(errlib.SOLVER))
    m = fp.kMinPathError(**errlib.clean_args(a)); m.solve()
    if not m.is_solved():
        ctx.report("kMinPathError is infeasible although k=1 >= covering number 1 (witness of kmpe_factors_lt1_refuted)",
                   {"class": "kMinPathError", "args": errlib.describe(a), "status": m.solver.get_model_status()}, key=K_LT1)
    ctx.case(["witness-lt1"], nontrivial=True)
    # figure-eight whose two cycles share the edge a->b: one walk covers everything only by using a->b three times
    H = nx.DiGraph()
    for u, v in [("s", "a"), ("a", "b"), ("b", "c"), ("c", "a"), ("b", "d"), ("d", "a"), ("b", "t")]:
        H.add_edge(u, v, flow=1)
    a = dict(G=H, flow_attr="flow", k=None, weight_type=int, solver_options=dict(errlib.SOLVER))
    m = fp.kMinPathErrorCycles(**errlib.clean_args(a)); width = m.k; m.solve()
    if m.is_solved():
        ctx.count("E2_mpe_cycles", "figure_eight_solved")
        check_solution(ctx, "kMinPathErrorCycles", a, m, True, eng="E2_mpe_cycles")
    elif m.solver.get_model_status() == "kInfeasible":
        cyclic_infeasible(ctx, "kMinPathErrorCycles", a, width, m.k)
    ctx.case(["witness-figure-eight"], nontrivial=True)


def run(ctx):
    lpdump.install()
    ctx.rule = ("kMinPathError on random DAGs (<= 5 nodes; covering number <= 4) with arbitrary non-negative weights (int / dyadic float), "
                "k in {None, width, width+1, width-1}, ignore sets, error_scaling incl. 0 and 1/2, additional starts/ends, subpath constraints, "
                "solution_weights_superset, path_length_ranges/factors (int type), length_attr, edge and node origin; tiny stream: <= 6 edges, weights <= 4, "
                "integer type, k <= 3, compared with the exhaustive optimum; cyclic stream: kMinPathErrorCycles on <= 5-node digraphs + the figure-eight; deterministic cyclic families with closed-form optimum (chain with a zero-flow SCC 1..4 hops up-/downstream of the heavy edge, fractional perfect decompositions, loops with power-of-two weights, several heavy cycles through ONE hub vertex); deterministic DAG family with tight path-length ranges and far-apart factors on perfect decompositions (optimum 0). "
                "non-trivial = LP has more than 12 rows / graph has a cycle")
    for wfun in (witnesses, lambda c: c07.witness_6(c, "kMinPathError")):
        try:
            wfun(ctx)
        except Exception as e:
            ctx.report(f"the recorded witness instances raised {e!r}", {"witness": "C08"})
    run_dag(ctx, ctx.budget(130, 5000), tiny=False)
    run_dag(ctx, ctx.budget(130, 5000), tiny=True)
    run_family(ctx)
    run_factor_family(ctx)
    run_cyclic(ctx, ctx.budget(50, 1500))
    import e1werr   # E1_cycles: LP of kMinPathErrorCycles == WalkErrEnc.encode_kmpe_cycles (harness/e1werr.py)
    e1werr.run_e1_cycles(ctx, "kMinPathErrorCycles", c07.rand_cyclic_err, ctx.budget(50, 1200), "mpe-cyc-e1")
    import gencheck_enc; gencheck_enc.run_generated_kmpe(ctx)   # generated-model tie: the kMinPathError encoders regenerated from source (coq/gen_proofs/EncKmpe*.v)


def replay(ctx, body):
    import flowpaths as fp
    lpdump.install()
    a = body.get("args")
    if not a:
        return True
    G = nx.DiGraph()
    for v, d in a.get("nodes", []):
        G.add_node(v, **d)
    for u, v, d in a["edges"]:
        G.add_edge(u, v, **d)
    args = {k: v for k, v in a.items() if k not in ("edges", "nodes", "weight_type")}
    args["G"] = G; args["weight_type"] = int if a["weight_type"] == "int" else float
    edge_mode = args.get("flow_attr_origin", "edge") == "edge"
    if "error_scaling" in args:
        args["error_scaling"] = {(tuple(k) if edge_mode else k): v for k, v in args["error_scaling"]}
    if "elements_to_ignore" in args and edge_mode:
        args["elements_to_ignore"] = [tuple(e) for e in args["elements_to_ignore"]]
    if "subpath_constraints" in args and edge_mode:
        args["subpath_constraints"] = [[tuple(e) for e in c] for c in args["subpath_constraints"]]
    if "path_length_ranges" in args:
        args["path_length_ranges"] = [tuple(r) for r in args["path_length_ranges"]]
    cls = body.get("class", "kMinPathError")
    before = len(ctx.violations)
    lpdump.reset()
    m = getattr(fp, cls)(**errlib.clean_args(args))
    if cls == "kMinPathError":
        e1_case(ctx, m, args)
    m.solve()
    if m.is_solved():
        check_solution(ctx, cls, args, m, args["weight_type"] == int)
    else:
        return True
    return len(ctx.violations) > before
