"""C06 — safe paths / sequences are truly safe, mutually incompatible, prune soundly.

Level "proof + per-instance certificate".  The deciders safe_dec / incompat_dec / forbid_dec and the excess-flow
criterion are proved exact / sound in Coq for ALL graphs (Props/C06.v) and extracted; this engine runs them on
everything the library computes on generated DAGs and cyclic digraphs:
 (a) every sequence returned by safetypathcovers.safe_paths / safe_maximal_paths / safe_sequences (DAG),
     safetypathcoverscycles.maximal_safe_sequences_via_dominators (cyclic), compute_flow_decomp_safe_paths (flows)
     is decided safe (independent cross-check: exhaustive enumeration of paths / bounded walks / unit decompositions);
 (b) for constructed k-models (cyclic: kPathCoverCycles, kFlowDecompCycles, kLeastAbsErrorsCycles,
     kMinPathErrorCycles; DAG: kPathCover, kFlowDecomp) the safety state of the model object (safe_lists,
     walks_to_fix / paths_to_fix, edges_set_to_one, edges_set_to_zero) is certified: every sequence safe, every pair
     incompatible, every zero-fixed (u,v,i) forbidden for sequence i;
 (c) E3: safe_paths / safe_sequences / find_all_bridges equal the proved Gallina models on DAGs."""
import collections, itertools, math
from fractions import Fraction
import networkx as nx
import common, gen, gen_scc

LEVEL = "proof"   # proof + per-instance certificate (see claim text)
EXPLANATION = (
    "Proved for all graphs (cycles, self-loops included), Props/C06.v: safe_dec, incompat_dec, forbid_dec decide exactly the "
    "declarative notions (product automaton (node, matched prefix, matched prefix) + verified closure; greedy matching exact); "
    "cover-level safety <-> item-level safety; the DAG models safe_path (univocal extension), bridges, safe_sequence return "
    "safe sequences; positive excess flow => contained in every flow decomposition; layer assignment / zero fixing lemmas (C05). "
    "NOT re-modelled: the library's dominator-tree algorithm for cyclic graphs, get_longest_incompatible_sequences (min-flow "
    "antichain), the two-pointer loop of compute_flow_decomp_safe_paths and find_all_bridges' BFS (the Gallina `bridges` computes "
    "the canonical bridge list from its definition): their OUTPUTS are certified per generated instance by the verified deciders. "
    "The for-all-graphs quantifier over the implementation's cyclic / flow algorithms is therefore sampled, the for-all-covers / "
    "for-all-walks / for-all-decompositions quantifier is discharged by proof on each sampled instance.")
ASSUMPTIONS = [
    "graphs handed to the deciders are list(G.nodes()) / list(G.edges()) of the stDAG / stDiGraph the library itself built",
    "a trusted item is an edge or (subpath / subset constraints) a list of edges that must occur in order in one walk",
    "flows are integers or dyadic rationals; they are scaled to integers exactly before being handed to the Z-valued model",
    "flow-safety theorem: decomposition paths are simple (DAG), end at out-degree-0 nodes, have non-negative weights",
]
TRUSTED = ["model: coq/theories/Safety.v, SafetyReach.v; proofs SafetyProofs1-3.v",
           "Python brute-force enumerators in this engine are only an independent cross-check of the extracted deciders"]

S_TOK, T_TOK = "<S>", "<T>"


# ----------------------------------------------------------------------------- small helpers
def is_subseq(s, w):
    it = iter(w)
    return all(any(x == e for x in it) for e in s)


def contains_contig(p, path_nodes):
    n = len(p)
    return any(path_nodes[i:i + n] == p for i in range(len(path_nodes) - n + 1))


class Case:
    """One generated instance: the spec that rebuilds it, the requests for the extracted model and the
    evaluation callbacks.  Failures are collected and reported by run() / replay()."""
    def __init__(self, spec):
        self.spec = spec; self.reqs = []; self.fns = []; self.failures = []; self.counts = collections.Counter()
        self.nontrivial = False; self.sample = None; self.dists = []

    def ask(self, line, fn):
        self.reqs.append(line); self.fns.append(fn)

    def fail(self, what, detail, concrete=True, key=None):
        self.failures.append((what, detail, concrete, key))

    def evaluate(self, model):
        outs = model.run(self.reqs)
        for o, f in zip(outs, self.fns):
            f(o)


class Gr:
    """Interned view of an st-graph built by the library."""
    def __init__(self, st):
        self.st = st
        self.names = list(st.nodes())
        self.ids = {v: i for i, v in enumerate(self.names)}
        self.edges = [tuple(e) for e in st.edges()]
        self.s = self.ids[st.source]; self.t = self.ids[st.sink]

    def E(self, es):
        return [len(es), [[self.ids[u], self.ids[v]] for (u, v) in es]]

    def G(self):
        return self.E(self.edges)

    def norm_node(self, v):
        return S_TOK if v == self.st.source else (T_TOK if v == self.st.sink else v)

    def norm(self, es):
        return [[self.norm_node(u), self.norm_node(v)] for (u, v) in es]

    def denorm_node(self, v):
        return self.st.source if v == S_TOK else (self.st.sink if v == T_TOK else v)

    def denorm(self, es):
        return [(self.denorm_node(u), self.denorm_node(v)) for (u, v) in es]

    def parse_edges(self, out):
        if not out.startswith("OK"):
            return None
        xs = [int(x) for x in out.split()[1:]]
        return [(self.names[xs[i]], self.names[xs[i + 1]]) for i in range(0, len(xs), 2)]


def order_items(items, sq):
    """safe_dec is an `exists` over the items; putting the items that share an edge with sq first only saves time."""
    s = set(sq)
    return sorted(items, key=lambda c: 0 if any(e in s for e in c) else 1)


def ask_safe(case, g, items, sq, on_result):
    items = order_items([list(c) for c in items], sq)
    line = "sf_safe " + common.toks(g.s, g.t, g.G(), len(items), [g.E(c) for c in items], g.E(list(sq)))
    case.ask(line, lambda out: on_result(out.strip() == "1", out))


def ask_incompat(case, g, a, b, on_result):
    line = "sf_incompat " + common.toks(g.s, g.t, g.G(), g.E(list(a)), g.E(list(b)))
    case.ask(line, lambda out: on_result(out.strip() == "1", out))


def ask_forbid(case, g, sq, es, on_result):
    line = "sf_forbid " + common.toks(g.s, g.t, g.G(), g.E(list(sq)), g.E(list(es)))
    case.ask(line, lambda out: on_result([c == "1" for c in out.strip().rstrip(".")], out))


# ----------------------------------------------------------------------------- brute force (independent cross-check)
def enum_walks(st, max_rep=2, max_len=18, cap=3000):
    """Source-to-sink walks as edge lists, each edge at most max_rep times.  Returns (walks, complete?)."""
    res = []; complete = [True]
    used = collections.Counter()
    def rec(v, w):
        if len(res) >= cap:
            complete[0] = False; return
        if v == st.sink:
            res.append(list(w)); return
        if len(w) >= max_len:
            complete[0] = False; return
        for x in st.successors(v):
            e = (v, x)
            if used[e] >= max_rep:
                complete[0] = False
                continue
            used[e] += 1; w.append(e)
            rec(x, w)
            w.pop(); used[e] -= 1
    rec(st.source, [])
    return res, complete[0]


def brute_safe(walks, items, sq):
    return any(all(is_subseq(sq, w) for w in walks if is_subseq(c, w)) for c in items)


def is_dag_graph(st):
    return nx.is_directed_acyclic_graph(st)


# ----------------------------------------------------------------------------- spec -> graphs
def base_graph(spec):
    G = nx.DiGraph()
    for n in spec.get("nodes", []):
        G.add_node(n)
    for e in spec["edges"]:
        if len(e) == 3:
            G.add_edge(e[0], e[1], flow=e[2])
        else:
            G.add_edge(e[0], e[1])
    for e, l in zip(spec["edges"], spec.get("lens") or []):
        G.edges[e[0], e[1]]["len"] = l
    return G


def choose_X(rng, g, st_kind):
    """Trusted items: (mode, edge items, constraint items).  Constraint items are lists of >= 2 edges."""
    edges = g.edges
    mode = rng.choice(["all", "all", "subset", "subset", "base", "constraints"])
    cons = []
    if mode == "all":
        X = list(edges)
    elif mode == "base":
        X = [e for e in edges if e[0] != g.st.source and e[1] != g.st.sink] or list(edges)
    elif mode == "subset":
        k = rng.randint(1, len(edges))
        X = rng.sample(edges, k)
    else:
        X = []
        for _ in range(rng.randint(1, 3)):
            w = gen.rand_walk(rng, g.st, maxlen=12, srcs=[g.st.source], snks=[g.st.sink])
            if w is None:
                continue
            es = gen.pairs(w)
            if st_kind == "dag":
                i = rng.randrange(len(es)); j = rng.randint(i + 1, len(es))
                c = es[i:j]
            else:
                c = [e for e in es if rng.random() < 0.5] or [rng.choice(es)]
                c = list(dict.fromkeys(c))
            if len(c) >= 2:
                cons.append(c)
            X += c
        X = list(dict.fromkeys(X))
        if not X:
            X = [rng.choice(edges)]
    rng.shuffle(X)
    return mode, X, cons


# ----------------------------------------------------------------------------- DAG stream
def build_dag_case(spec, T):
    import flowpaths as fp
    from flowpaths.utils import safetypathcovers as spc
    case = Case(spec)
    G = base_graph(spec)
    st = fp.stDAG(G, additional_starts=list(spec.get("starts", [])), additional_ends=list(spec.get("ends", []))); g = Gr(st)
    if spec.get("starts") or spec.get("ends"):
        case.dists.append("dag:additional_starts/ends")
    X = g.denorm(spec["X"]); cons = [g.denorm(c) for c in spec["constraints"]]
    edge_items = [[e] for e in X]
    walks, complete = enum_walks(st, max_rep=1, max_len=40, cap=20000)
    case.nontrivial = len(walks) >= 2
    case.dists.append(f"dag:X={spec['xmode']}")

    def certify(label, items, sq, extra):
        """(a): the library's sequence must be decided safe; brute force must agree."""
        sq = [tuple(e) for e in sq]
        det = dict(extra, sequence=g.norm(sq), what=label)
        b = brute_safe(walks, items, sq) if complete else None
        def res(ok, out):
            case.counts["a_certified"] += 1
            if not ok:
                case.fail(f"{label}: returned sequence is NOT safe (safe_dec = false): a cover of the trusted items avoids it", det)
            elif b is False:
                case.fail(f"{label}: exhaustive path enumeration finds a cover avoiding the sequence although safe_dec accepted it", det)
            else:
                case.counts["a_ok"] += 1
        ask_safe(case, g, items, sq, res)

    # --- safe_paths (+ E3)
    paths = spc.safe_paths(st, list(X), no_duplicates=False, threads=T)
    if len(paths) != len(X):
        case.fail("safe_paths: number of results differs from number of trusted edges", {"n": len(paths)}, concrete=True)
    for e, p in zip(X, paths):
        certify("safe_paths", edge_items, p, {"edge": g.norm([e])})
        def e3(out, e=e, p=p):
            m = g.parse_edges(out)
            case.counts["c_E3_safe_paths"] += 1
            if m != [tuple(x) for x in p]:
                case.fail("E3: safe_paths differs from the Gallina model Safety.safe_path",
                          {"edge": g.norm([e]), "impl": g.norm(p), "model": out}, concrete=False)
        case.ask("sf_safepath " + common.toks(g.G(), g.ids[e[0]], g.ids[e[1]]), e3)
    nd = spc.safe_paths(st, list(X), no_duplicates=True, threads=T)
    if sorted(map(tuple, nd)) != sorted(set(tuple(map(tuple, p)) for p in paths)):
        case.fail("safe_paths(no_duplicates=True) is not the duplicate-free set of safe_paths(no_duplicates=False)", {}, concrete=True)
    # --- the convenience wrappers: X = the edges of the input graph (never the source / sink attachment edges)
    base_items = [[tuple(e)] for e in st.base_graph.edges()]
    for wname, wf in (("safe_paths_of_base_edges", spc.safe_paths_of_base_edges), ("safe_sequences_of_base_edges", spc.safe_sequences_of_base_edges)):
        nd_ = bool(spec.get("case", 0) % 2)
        try:
            wres = wf(st, no_duplicates=nd_, threads=T)
        except Exception as ex:
            case.fail(f"{wname} raised " + repr(ex), {}, concrete=True); continue
        wres = sorted({tuple(tuple(e) for e in q) for q in wres})
        if not nd_ and len(wres) > st.base_graph.number_of_edges():
            case.fail(f"{wname}: more results than edges of the input graph", {"n": len(wres)}, concrete=True)
        for q in wres:
            certify(wname + " (X = edges of the input graph)", base_items, list(q), {})
    # --- safe_maximal_paths
    try:
        mp = spc.safe_maximal_paths(st, list(X))
        case.counts["a_safe_maximal_paths_calls_ok"] += 1
    except AttributeError as ex:
        mp = []
        case.fail("safe_maximal_paths raised " + repr(ex), {}, concrete=True,
                  key="safe_maximal_paths:AttributeError:stDAG-lacks-unitig-helpers" if "has_unique" in str(ex) or "neighbors" in str(ex) else None)
    except Exception as ex:
        mp = []; case.fail("safe_maximal_paths raised " + repr(ex), {}, concrete=True)
    for p in mp:
        certify("safe_maximal_paths", edge_items, p, {})
    # --- safe_sequences on edges and on subpath constraints (+ E3)
    items_in = [tuple(e) for e in X] + [list(c) for c in cons]
    items = edge_items + [list(c) for c in cons]
    seqs = spc.safe_sequences(st, list(items_in), no_duplicates=False, threads=T)
    if len(seqs) != len(items_in):
        case.fail("safe_sequences: number of results differs from number of items", {"n": len(seqs)}, concrete=True)
    for c, q in zip(items, seqs):
        certify("safe_sequences", items, q, {"item": g.norm(c)})
        def e3s(out, c=c, q=q):
            m = g.parse_edges(out)
            case.counts["c_E3_safe_sequences"] += 1
            if m != [tuple(x) for x in q]:
                case.fail("E3: safe_sequences differs from the Gallina model Safety.safe_sequence",
                          {"item": g.norm(c), "impl": g.norm(q), "model": out}, concrete=False)
        case.ask("sf_safeseq " + common.toks(g.s, g.t, g.G(), g.E(c)), e3s)
    # --- find_all_bridges directly (forward, from a trusted edge's head), adjacency must be restored
    if X:
        v = X[0][1]
        adj = {u: list(st.successors(u)) for u in st.nodes()}
        before = {u: sorted(l) for u, l in adj.items()}
        br = spc.find_all_bridges(adj, v, st.sink)
        if {u: sorted(l) for u, l in adj.items()} != before:
            case.fail("find_all_bridges does not restore the adjacency lists it was given", {"v": v}, concrete=True)
        def e3b(out, br=br, v=v):
            m = g.parse_edges(out)
            case.counts["c_E3_bridges"] += 1
            if m != [tuple(x) for x in br]:
                # search: is some returned edge not a bridge / a bridge missing?  decided on the spot by brute force
                bad = [e for e in br if not all(tuple(e) in w for w in walks if any(x[0] == v for x in w) or v == st.source)]
                case.fail("E3: find_all_bridges differs from the Gallina model Safety.bridges",
                          {"v": g.norm_node(v), "impl": g.norm(br), "model": out}, concrete=False)
        case.ask("sf_bridges " + common.toks(g.G(), g.ids[v], g.t), e3b)
    # --- negative controls: perturbed sequences, decider vs exhaustive enumeration (both directions)
    for j, pert in enumerate(spec.get("perturb", [])):
        src = seqs if pert["from"] == "seq" else paths
        if not src:
            continue
        q = [tuple(e) for e in src[pert["i"] % len(src)]]
        e = g.edges[pert["e"] % len(g.edges)]
        pos = pert["pos"] % (len(q) + 1)
        q2 = q[:pos] + [e] + q[pos:]
        if complete:
            b = brute_safe(walks, items, q2)
            def ctl(ok, out, b=b, q2=q2):
                case.counts["control_cases"] += 1
                case.counts["control_decided_unsafe"] += (not ok)
                if ok != b:
                    case.fail("decider and exhaustive enumeration disagree on a perturbed sequence (harness/extraction defect)",
                              {"sequence": g.norm(q2), "safe_dec": ok, "brute": b}, concrete=False)
            ask_safe(case, g, items, q2, ctl)
    # --- DAG k-model: safe_lists of the constructed object, paths_to_fix pairwise incompatible, zero fixing
    mk = spec.get("model")
    if mk:
        build_dag_model(case, spec, G, mk, T)
    case.sample = {"kind": "dag", "edges": spec["edges"], "X": spec["X"][:6], "safe_path[0]": g.norm(paths[0]) if paths else None}
    return case


def build_dag_model(case, spec, G, mk, T):
    import flowpaths as fp
    opts = dict(mk["opts"])
    kw = dict(optimization_options=opts, additional_starts=list(spec.get("starts", [])), additional_ends=list(spec.get("ends", [])))
    subp = [[tuple(e) for e in c] for c in mk.get("subpaths", [])]
    full_cov = True
    if mk.get("covlen") is not None:          # the constraints need only a fraction of their LENGTH in some path
        kw.update(subpath_constraints_coverage_length=mk["covlen"], length_attr="len"); full_cov = mk["covlen"] == 1
    elif mk.get("cov") is not None:           # ... or only a fraction of their edges
        kw.update(subpath_constraints_coverage=mk["cov"]); full_cov = mk["cov"] == 1
    if subp and not full_cov:
        case.dists.append("dag_model:partial_constraint_coverage")
    try:
        if mk["cls"] == "kPathCover":
            m = fp.kPathCover(G, k=mk["k"], subpath_constraints=subp, **kw)
        elif mk["cls"] == "kFlowDecomp" and opts.get("optimize_with_flow_safe_paths") is False:
            kw.pop("additional_starts"); kw.pop("additional_ends")
            m = fp.kFlowDecomp(G, flow_attr="flow", k=mk["k"], subpath_constraints=subp, **kw)
        elif mk["cls"] == "kFlowDecomp":
            m = fp.kFlowDecomp(G, flow_attr="flow", k=mk["k"], optimization_options=opts)      # no additional starts/ends (spec has none)
        else:
            m = getattr(fp, mk["cls"])(G, flow_attr="flow", k=mk["k"], subpath_constraints=subp, **kw)
    except Exception as ex:
        case.counts["model_ctor_errors"] += 1
        case.dists.append("model_ctor_error:" + type(ex).__name__ + ":" + str(ex)[:60])
        return
    g = Gr(m.G)
    case.counts["b_dag_models"] += 1
    case.dists.append("model:" + mk["cls"])
    lists = [[tuple(e) for e in l] for l in (m.safe_lists or [])]
    flow_safe = mk["cls"] == "kFlowDecomp" and opts.get("optimize_with_flow_safe_paths")
    X = [tuple(e) for e in (m.trusted_edges_for_safety or [])]
    # a subpath constraint is a trusted item only if some solution path must contain ALL of it; with partial coverage
    # (by edge count or by length) it is not, and safety is decided for the trusted edges alone (sound: fewer items = stricter)
    items = [[e] for e in X] + ([[tuple(e) for e in c] for c in mk.get("subpaths", [])] if full_cov else [])
    det0 = {"model": mk}
    if flow_safe:
        fl = flow_tokens(G)
        for l in lists:
            p = [l[0][0]] + [e[1] for e in l]
            ask_excess(case, G, fl, p, "model.safe_lists (flow-safe paths)", det0)
        return
    if getattr(m, "optimize_with_safety_as_subpath_constraints", False):
        # safe_lists were appended to subpath_constraints (aliasing) -- only certify the lists
        pass
    for l in lists:
        def res(ok, out, l=l):
            case.counts["b_safe_lists"] += 1
            if not ok:
                case.fail("DAG model: a sequence in model.safe_lists is not safe for the trusted edges / subpath constraints"
                          + ("" if full_cov else " (the constraints need only partial coverage, so they are not trusted items)"),
                          dict(det0, sequence=g.norm(l), X=g.norm(X)))
        ask_safe(case, g, items, l, res)
    try:
        ptf = [[tuple(e) for e in p] for p in m._get_paths_to_fix_from_safe_lists()]
    except Exception as ex:
        case.fail("_get_paths_to_fix_from_safe_lists raised " + repr(ex), det0, concrete=True); return
    for a, b in itertools.combinations(range(len(ptf)), 2):
        def res(ok, out, a=a, b=b):
            case.counts["b_pairs"] += 1
            if not ok:
                case.fail("DAG model: two sequences of paths_to_fix can occur together in one source-to-sink path",
                          dict(det0, a=g.norm(ptf[a]), b=g.norm(ptf[b])))
        ask_incompat(case, g, ptf[a], ptf[b], res)
    # the dormant fixing code path (never called by the pinned constructors): run it and certify its state too
    try:
        m.edges_set_to_zero = {}; m.edges_set_to_one = {}
        m._apply_safety_optimizations()
    except TypeError as ex:
        # pinned tree: stDAG.nodes_reaching is a dict property, the dormant code calls it -> TypeError; unreachable via the API
        case.counts["dag_dormant_fixing_code_raises_TypeError"] += 1
        return
    except Exception as ex:
        case.counts["dag_dormant_fixing_code_raises_other"] += 1
        return
    case.counts["dag_dormant_fixing_code_ran"] += 1
    certify_fix_state(case, g, m, getattr(m, "paths_to_fix", []), items, det0, "DAG model")


def certify_fix_state(case, g, m, wtf, items, det0, label):
    wtf = [[tuple(e) for e in w] for w in (wtf or [])]
    k = m.k
    zero = collections.defaultdict(list); one = collections.defaultdict(list)
    for (u, v, i) in m.edges_set_to_zero:
        zero[i].append((u, v))
    for (u, v, i) in m.edges_set_to_one:
        one[i].append((u, v))
    for i in set(zero) | set(one):
        if i >= min(len(wtf), k):
            case.fail(f"{label}: an edge variable is fixed in layer {i} which has no sequence assigned", dict(det0, layer=i))
    for i, w in enumerate(wtf[:k]):
        for e in one.get(i, []):
            case.counts["b_one_fixed"] += 1
            if e not in w:
                case.fail(f"{label}: edge fixed to one in layer {i} is not in that layer's sequence", dict(det0, edge=g.norm([e]), sequence=g.norm(w)))
        if zero.get(i):
            def res(bits, out, i=i, w=w, zs=list(zero[i])):
                for e, ok in zip(zs, bits):
                    case.counts["b_zero_fixed"] += 1
                    if not ok:
                        case.fail(f"{label}: edge fixed to zero in layer {i} lies on a source-to-sink walk containing that layer's sequence",
                                  dict(det0, edge=g.norm([e]), sequence=g.norm(w), layer=i))
                if len(bits) != len(zs):
                    case.fail("driver answered with a wrong number of bits", {"out": out}, concrete=False)
            ask_forbid(case, g, w, zero[i], res)
        def sres(ok, out, i=i, w=w):
            case.counts["b_fixed_sequences"] += 1
            if not ok:
                case.fail(f"{label}: the sequence fixed to layer {i} is not safe for the trusted edges", dict(det0, sequence=g.norm(w), layer=i))
        ask_safe(case, g, items, w, sres)
    for a, b in itertools.combinations(range(len(wtf)), 2):
        def res(ok, out, a=a, b=b):
            case.counts["b_pairs"] += 1
            if not ok:
                case.fail(f"{label}: two sequences assigned to different slots can occur together in one source-to-sink walk",
                          dict(det0, a=g.norm(wtf[a]), b=g.norm(wtf[b]), slots=[a, b]))
        ask_incompat(case, g, wtf[a], wtf[b], res)


# ----------------------------------------------------------------------------- cyclic stream
def build_cyc_case(spec, T):
    import flowpaths as fp
    from flowpaths.utils import safetypathcoverscycles as spcc
    case = Case(spec)
    G = base_graph(spec)
    st = fp.stDiGraph(G, additional_starts=list(spec.get("starts", [])), additional_ends=list(spec.get("ends", []))); g = Gr(st)
    if spec.get("starts") or spec.get("ends"):
        case.dists.append("cyc:additional_starts/ends")
    X = g.denorm(spec["X"])
    items = [[e] for e in X]
    walks, complete = enum_walks(st, max_rep=2, max_len=16, cap=2500)
    nscc = st.get_number_of_nontrivial_SCCs()
    case.nontrivial = nscc >= 1
    case.dists.append(f"cyc:X={spec['xmode']}"); case.dists.append(f"cyc:nontrivial_SCCs={nscc}")
    for gd in spec.get("gadgets", []):
        case.dists.append("gadget:" + gd)
    seqs = spcc.maximal_safe_sequences_via_dominators(st, set(X))
    seqs = [[tuple(e) for e in q] for q in seqs]
    for q in seqs:
        b = brute_safe(walks, items, q)          # necessary condition (walk enumeration is bounded)
        def res(ok, out, q=q, b=b):
            case.counts["a_certified"] += 1
            det = {"sequence": g.norm(q), "what": "maximal_safe_sequences_via_dominators"}
            if not ok:
                case.fail("maximal_safe_sequences_via_dominators: returned sequence is NOT safe (safe_dec = false): "
                          "a walk cover of the trusted edges avoids it", det)
            elif not b:
                case.fail("bounded walk enumeration finds a cover avoiding the sequence although safe_dec accepted it", det)
            else:
                case.counts["a_ok"] += 1
                if len(set(q)) < len(q):
                    case.counts["a_with_repeated_edge"] += 1
        ask_safe(case, g, items, q, res)
    # what stDiGraph exposes: get_longest_incompatible_sequences on these sequences
    if seqs:
        try:
            inc = [[tuple(e) for e in q] for q in st.get_longest_incompatible_sequences(seqs)]
        except Exception as ex:
            inc = []; case.fail("get_longest_incompatible_sequences raised " + repr(ex), {"sequences": [g.norm(q) for q in seqs]}, concrete=True)
        for a, b in itertools.combinations(range(len(inc)), 2):
            def res(ok, out, a=a, b=b):
                case.counts["b_pairs"] += 1
                if not ok:
                    case.fail("get_longest_incompatible_sequences: two returned sequences can occur together in one source-to-sink walk",
                              {"a": g.norm(inc[a]), "b": g.norm(inc[b])})
            ask_incompat(case, g, inc[a], inc[b], res)
    # negative controls (decider true => bounded brute force true; complete enumeration: equality)
    for pert in spec.get("perturb", []):
        if not seqs:
            continue
        q = list(seqs[pert["i"] % len(seqs)])
        e = g.edges[pert["e"] % len(g.edges)]
        pos = pert["pos"] % (len(q) + 1)
        q2 = q[:pos] + [e] + q[pos:]
        b = brute_safe(walks, items, q2)
        def ctl(ok, out, b=b, q2=q2):
            case.counts["control_cases"] += 1
            case.counts["control_decided_unsafe"] += (not ok)
            if (ok and not b) or (complete and ok != b):
                case.fail("decider and walk enumeration disagree on a perturbed sequence (harness/extraction defect)",
                          {"sequence": g.norm(q2), "safe_dec": ok, "brute": b, "complete": complete}, concrete=False)
        ask_safe(case, g, items, q2, ctl)
    for mk in spec.get("models", []):
        build_cyc_model(case, G, mk, T, spec)
    case.sample = {"kind": "cyc", "edges": spec["edges"], "X": spec["X"][:6], "sequences": [g.norm(q) for q in seqs[:2]]}
    return case


CYC_CLASSES = ["kPathCoverCycles", "kFlowDecompCycles", "kLeastAbsErrorsCycles", "kMinPathErrorCycles"]


def build_cyc_model(case, G, mk, T, spec=None):
    import flowpaths as fp
    opts = dict(mk["opts"])
    kw = dict(optimization_options=opts)
    if spec and (spec.get("starts") or spec.get("ends")):
        kw.update(additional_starts=list(spec.get("starts", [])), additional_ends=list(spec.get("ends", [])))
    if mk.get("subsets"):
        kw["subset_constraints"] = [[tuple(e) for e in c] for c in mk["subsets"]]
    if mk.get("ignore"):
        kw["elements_to_ignore"] = [tuple(e) for e in mk["ignore"]]
    if mk.get("trusted") and mk["cls"] == "kLeastAbsErrorsCycles":
        kw["trusted_edges_for_safety"] = [tuple(e) for e in mk["trusted"]]
    try:
        if mk["cls"] == "kPathCoverCycles":
            m = fp.kPathCoverCycles(G, k=mk["k"], **kw)
        else:
            m = getattr(fp, mk["cls"])(G, flow_attr="flow", k=mk["k"], **kw)
    except Exception as ex:
        case.counts["model_ctor_errors"] += 1
        case.dists.append("model_ctor_error:" + type(ex).__name__ + ":" + str(ex)[:60])
        return
    g = Gr(m.G)
    case.counts["b_cyc_models"] += 1
    case.dists.append("model:" + mk["cls"])
    det0 = {"model": mk}
    X = [tuple(e) for e in (m.trusted_edges_for_safety or [])]
    items = [[e] for e in X]
    lists = [[tuple(e) for e in l] for l in (getattr(m, "safe_lists", None) or [])]
    for l in lists:
        def res(ok, out, l=l):
            case.counts["b_safe_lists"] += 1
            if not ok:
                case.fail(f"{mk['cls']}: a sequence in model.safe_lists is not safe for model.trusted_edges_for_safety",
                          dict(det0, sequence=g.norm(l), X=g.norm(X)))
        ask_safe(case, g, items, l, res)
    wtf = getattr(m, "walks_to_fix", None)
    if wtf is None:
        if m.edges_set_to_zero or m.edges_set_to_one:
            case.fail("edges fixed although the model has no walks_to_fix", det0)
        return
    if wtf:
        case.counts["b_models_with_fixed_walks"] += 1
    certify_fix_state(case, g, m, wtf, items, det0, mk["cls"])


# ----------------------------------------------------------------------------- flow-safe stream
def flow_tokens(G):
    vals = [Fraction(d["flow"]) for _, _, d in G.edges(data=True)]
    den = 1
    for x in vals:
        den = den * x.denominator // math.gcd(den, x.denominator)
    return {(u, v): int(Fraction(d["flow"]) * den) for u, v, d in G.edges(data=True)}


def ask_excess(case, G, fl, p, label, det0):
    names = list(G.nodes()); ids = {v: i for i, v in enumerate(names)}
    es = list(G.edges())
    line = "sf_excess " + common.toks(len(es), [[ids[u], ids[v], fl[(u, v)]] for u, v in es], len(p), [ids[v] for v in p])
    def res(out, p=p):
        case.counts["a_flow_certified"] += 1
        ok = out.split()[0] == "1"
        if not ok:
            case.fail(f"{label}: returned path does not have positive excess flow (excess = {out.split()[1] if len(out.split()) > 1 else out}): "
                      "some flow decomposition avoids it", dict(det0, path=list(p)))
        else:
            case.counts["a_flow_ok"] += 1
    case.ask(line, res)


def unit_decompositions(G, fl, cap=4000):
    """All decompositions of the integer flow into unit-weight source-to-sink paths (as multisets), tiny instances."""
    paths = gen.all_st_paths(G, limit=200)
    res = []
    rem = dict(fl)
    def rec(i, cur):
        if len(res) >= cap:
            return
        if i == len(paths):
            if all(v == 0 for v in rem.values()):
                res.append(list(cur))
            return
        es = gen.pairs(paths[i])
        mx = min(rem[e] for e in es) if es else 0
        for m in range(mx, -1, -1):
            for e in es: rem[e] -= m
            cur.append((i, m))
            rec(i + 1, cur)
            cur.pop()
            for e in es: rem[e] += m
    rec(0, [])
    return paths, res


def build_flow_case(spec, T):
    from flowpaths.utils import safetyflowdecomp as sfd
    case = Case(spec)
    G = base_graph(spec)
    fl = flow_tokens(G)
    case.dists.append("flow:scale=" + str(spec.get("scale", 1)))
    try:
        res = sfd.compute_flow_decomp_safe_paths(G, "flow", no_duplicates=spec.get("nodup", True))
    except Exception as ex:
        case.fail("compute_flow_decomp_safe_paths raised " + repr(ex), {}, concrete=True)
        return case
    plist = []
    for l in res:
        l = [tuple(e) for e in l]
        p = [l[0][0]] + [e[1] for e in l]
        if any(a[1] != b[0] for a, b in zip(l, l[1:])) or any(not G.has_edge(*e) for e in l):
            case.fail("compute_flow_decomp_safe_paths returned something that is not a path of G", {"path": l}); continue
        plist.append(p)
        ask_excess(case, G, fl, p, "compute_flow_decomp_safe_paths", {})
    case.nontrivial = any(len(p) >= 3 for p in plist)
    # independent cross-check on tiny integer instances: every unit decomposition has a path containing p contiguously
    total = sum(v for (u, v2), v in fl.items() if G.in_degree(u) == 0)
    if spec.get("scale", 1) == 1 and total <= 7 and G.number_of_edges() <= 10:
        paths, decs = unit_decompositions(G, fl)
        if decs and len(decs) < 4000:
            case.counts["flow_bruteforce_instances"] += 1
            for p in plist:
                for d in decs:
                    if not any(m > 0 and contains_contig(p, paths[i]) for i, m in d):
                        case.fail("exhaustive unit-decomposition enumeration: a decomposition avoids a returned flow-safe path",
                                  {"path": p, "decomposition": [[paths[i], m] for i, m in d if m]})
                        break
    case.sample = {"kind": "flow", "edges": spec["edges"], "safe_paths": plist[:3]}
    return case


# ----------------------------------------------------------------------------- inexact-flow stream
def py_excess(G, f, p):
    val = f[(p[0], p[1])]
    for a, b in zip(p[1:], p[2:]):
        val -= sum(f[e] for e in G.out_edges(a)) - f[(a, b)]
    return val


def feasible_flows(G0, cap=20000, zero_edge=None):
    """Conserving integer flows inside the intervals [lb, ub], enumerated node by node in topological order (the inflow
    of a node is known when its out-edges are chosen, so non-conserving assignments are pruned at once).
    Returns (flows, complete?)."""
    G = G0
    if zero_edge is not None:                      # only flows that put 0 on this edge
        G = G0.copy(); G.edges[zero_edge]["ub"] = 0
    order = list(nx.topological_sort(G))
    res = []; complete = [True]
    f = {}
    def splits(outs, total, i):
        """all assignments of the out-edges outs[i:] within their bounds that sum to total"""
        if i == len(outs):
            if total == 0:
                yield
            return
        e = outs[i]
        lo = G.edges[e]["lb"]; hi = G.edges[e]["ub"]
        rest_lo = sum(G.edges[x]["lb"] for x in outs[i + 1:]); rest_hi = sum(G.edges[x]["ub"] for x in outs[i + 1:])
        for val in range(max(lo, total - rest_hi), min(hi, total - rest_lo) + 1):
            f[e] = val
            yield from splits(outs, total - val, i + 1)
    def free(outs, i):
        if i == len(outs):
            yield; return
        e = outs[i]
        for val in range(G.edges[e]["lb"], G.edges[e]["ub"] + 1):
            f[e] = val
            yield from free(outs, i + 1)
    def rec(k):
        if len(res) >= cap:
            complete[0] = False; return
        if k == len(order):
            res.append(dict(f)); return
        v = order[k]
        outs = list(G.out_edges(v))
        if not outs:
            rec(k + 1); return
        if G.in_degree(v) == 0:
            for _ in free(outs, 0):
                rec(k + 1)
                if len(res) >= cap: break
        else:
            tot = sum(f[e] for e in G.in_edges(v))
            for _ in splits(outs, tot, 0):
                rec(k + 1)
                if len(res) >= cap: break
    rec(0)
    return res, complete[0]


def find_avoiding_decomposition(G, f, p, budget=200000):
    """A decomposition of the integer flow f into unit source-to-sink paths none of which contains p contiguously, or None."""
    paths = [q for q in gen.all_st_paths(G, limit=400) if not contains_contig(p, q)]
    pes = [gen.pairs(q) for q in paths]
    rem = dict(f); steps = [0]
    # an edge with flow that no avoiding path uses: impossible at once
    usable = set(e for es in pes for e in es)
    if any(v > 0 and e not in usable for e, v in rem.items()):
        return None
    def rec(i, cur):
        steps[0] += 1
        if steps[0] > budget:
            return None
        if i == len(paths):
            return list(cur) if all(v == 0 for v in rem.values()) else None
        es = pes[i]
        mx = min(rem[e] for e in es) if es else 0
        for m in range(mx, -1, -1):
            for e in es: rem[e] -= m
            cur.append((paths[i], m))
            r = rec(i + 1, cur)
            cur.pop()
            for e in es: rem[e] += m
            if r is not None:
                return r
        return None
    r = rec(0, [])
    return None if r is None else [[q, m] for q, m in r if m]


def build_iflow_case(spec, T):
    from flowpaths.utils import safetyflowdecomp as sfd
    case = Case(spec)
    G = nx.DiGraph()
    G.add_nodes_from(spec.get("nodes", []))
    for u, v, lb, ub in spec["edges"]:
        G.add_edge(u, v, lb=lb, ub=ub)
    names = list(G.nodes()); ids = {v: i for i, v in enumerate(names)}
    es = list(G.edges())
    try:
        res = sfd.compute_inexact_flow_decomp_safe_paths(G, "lb", "ub", [list(p) for p in spec["paths"]], no_duplicates=spec.get("nodup", True))
    except Exception as ex:
        case.fail("compute_inexact_flow_decomp_safe_paths raised " + repr(ex), {}, concrete=True)
        return case
    plist = []
    for l in res:
        l = [tuple(e) for e in l]
        if any(a[1] != b[0] for a, b in zip(l, l[1:])) or any(not G.has_edge(*e) for e in l):
            case.fail("compute_inexact_flow_decomp_safe_paths returned something that is not a path of G", {"path": l}); continue
        plist.append([l[0][0]] + [e[1] for e in l])
    case.nontrivial = any(len(p) >= 3 for p in plist) and any(lb < ub for _, _, lb, ub in spec["edges"])
    ninex = sum(1 for _, _, lb, ub in spec["edges"] if lb < ub)
    case.dists.append("iflow:inexact_edges=" + (str(ninex) if ninex < 4 else ">=4"))
    flows = [None]                                      # computed lazily, once per case
    def get_flows():
        if flows[0] is None:
            flows[0] = feasible_flows(G)
        return flows[0][0]
    bl = [len(es), [[ids[u], ids[v], G.edges[u, v]["lb"], G.edges[u, v]["ub"]] for u, v in es]]
    for p in plist:
        def resf(out, p=p):
            case.counts["a_inexact_certified"] += 1
            ok = out.split()[0] == "1"
            if ok:
                case.counts["a_inexact_ok"] += 1
                return
            # the verified sufficient criterion fails: look for a feasible flow and a decomposition of it that avoids p
            # known finding: a fresh window of ONE edge is reported without looking at its excess (= the edge's lower bound)
            key = "compute_inexact_flow_decomp_safe_paths:single-edge-window:lb=0" if len(p) == 2 and G.edges[p[0], p[1]]["lb"] == 0 else None
            if key:
                case.counts["a_inexact_single_edge_lb0"] += 1
            wit = None; fbad = None
            tried = 0
            cand = feasible_flows(G, cap=3, zero_edge=(p[0], p[1]))[0] if key else get_flows()
            for f in sorted(cand, key=lambda f: (py_excess(G, f, p), sum(f.values()))):
                if py_excess(G, f, p) > 0 or tried >= 12:
                    break
                fbad = fbad or f; tried += 1
                d = find_avoiding_decomposition(G, f, p)
                if d is not None:
                    wit = (f, d); break
            det = {"path": p, "worst_case_excess": out.split()[1] if len(out.split()) > 1 else out}
            if wit:
                det["feasible_flow"] = [[u, v, x] for (u, v), x in wit[0].items()]; det["decomposition_avoiding_the_path"] = wit[1]
                case.fail("compute_inexact_flow_decomp_safe_paths: a reported path is avoided by a decomposition of a feasible flow inside the intervals "
                          "(worst-case excess not positive)", det, concrete=True, key=key)
            else:
                if fbad:
                    det["feasible_flow_with_nonpositive_excess"] = [[u, v, x] for (u, v), x in fbad.items()]
                case.fail("compute_inexact_flow_decomp_safe_paths: a reported path does not have positive worst-case excess "
                          "(verified criterion inexact_pos_dec = false); no avoiding decomposition found by the bounded search", det, concrete=False, key=key)
        case.ask("sf_iexcess " + common.toks(bl, len(p), [ids[v] for v in p]), resf)
    # correspondence with the definition (completeness is not part of the property, so a difference is never a failing input):
    # the function returns, per decomposition path, exactly the maximal windows of positive worst-case excess
    def wexc(q):
        val = G.edges[q[0], q[1]]["lb"]
        for a, b in zip(q[1:], q[2:]):
            val -= sum(G.edges[e]["ub"] for e in G.out_edges(a)) - G.edges[a, b]["ub"]
        return val
    expected = set()
    for dp in spec["paths"]:
        best = 0
        for L in range(len(dp) - 1):
            R = L
            while R + 1 < len(dp) and wexc(dp[L:R + 2]) > 0:
                R += 1
            if R > L and R > best:
                expected.add(tuple(dp[L:R + 1]))
            best = max(best, R)
    case.counts["c_E3_inexact_windows"] += 1
    if expected != set(tuple(q) for q in plist):
        case.fail("E3: compute_inexact_flow_decomp_safe_paths does not return exactly the maximal windows of positive worst-case excess "
                  "of the given decomposition paths", {"impl": sorted(plist), "expected": sorted(map(list, expected))}, concrete=False)
    # independent cross-check: under every feasible integer flow every reported path has positive exact excess
    fl = get_flows() if spec.get("brute") else None
    if fl and flows[0][1]:
        case.counts["inexact_bruteforce_instances"] += 1
        for p in plist:
            for f in fl:
                if py_excess(G, f, p) <= 0:
                    case.counts["inexact_bruteforce_nonpositive"] += 1
                    break
    case.sample = {"kind": "iflow", "edges": spec["edges"], "reported": plist[:3]}
    return case


def gen_iflow_spec(rng, i):
    """DAG + conserving integer flow f (superposition of weighted paths) + intervals lb = f - d1 >= 0, ub = f + d2 per edge.
    Two of three cases are larger and mostly inexact (windows of several edges that cross merging and leaking nodes)."""
    big = i % 3 != 0
    G = gen.rand_dag(rng, nmax=rng.choice([6, 7, 8] if big else [4, 5, 6, 7]))
    f = collections.Counter(); paths = []
    for _ in range(rng.randint(2, 5) if big else rng.randint(1, 4)):
        w = gen.rand_walk(rng, G, maxlen=30)
        if w is None:
            continue
        wt = rng.randint(1, 4 if big else 3); paths.append(w)
        for e in gen.pairs(w):
            f[e] += wt
    dmax = rng.choice([1, 2, 3, 4])
    pin = 0.8 if big else 0.6
    edges = []
    for u, v in G.edges():
        x = f.get((u, v), 0)
        if rng.random() >= pin:
            lb = ub = x
        else:
            lb = max(0, x - rng.randint(0, dmax)); ub = x + rng.randint(0, dmax)
        edges.append([u, v, lb, ub])
    rng.shuffle(paths)
    return {"kind": "iflow", "edges": edges, "nodes": list(G.nodes()), "paths": paths, "nodup": rng.random() < 0.7, "brute": i % 3 == 0}


# ----------------------------------------------------------------------------- generators of specs
def rand_flow_on(rng, G, walks=False, st=None):
    """Flow = superposition of 1..4 weighted source-to-sink paths / walks (conservation holds by construction)."""
    f = collections.Counter()
    for _ in range(rng.randint(1, 4)):
        w = gen.rand_walk(rng, G, maxlen=14 if walks else 30)
        if w is None:
            continue
        wt = rng.randint(1, 6)
        for e in gen.pairs(w):
            f[e] += wt
    return f


def gen_dag_spec(rng, i):
    import flowpaths as fp
    G = gen.rand_dag(rng, nmax=rng.choice([4, 5, 6, 7, 8]))
    starts = []; ends = []
    if rng.random() < 0.4:
        # extra start / end nodes: solution paths may begin / stop there, so the s-t graph gets extra source / sink edges
        nodes = list(G.nodes())
        inner = [v for v in nodes if G.in_degree(v) > 0 and G.out_degree(v) > 0] or nodes
        pool_s = [v for v in nodes if G.in_degree(v) == 1] or inner        # favour nodes with a unique in-neighbour
        pool_e = [v for v in nodes if G.out_degree(v) == 1] or inner
        r2 = rng.random()
        if r2 < 0.7:
            starts = sorted(set(rng.choice(pool_s if rng.random() < 0.7 else nodes) for _ in range(rng.randint(1, 2))))
        if r2 > 0.3:
            ends = sorted(set(rng.choice(pool_e if rng.random() < 0.7 else nodes) for _ in range(rng.randint(1, 2))))
    st = fp.stDAG(G, additional_starts=starts, additional_ends=ends); g = Gr(st)
    mode, X, cons = choose_X(rng, g, "dag")
    spec = {"kind": "dag", "edges": [list(e) for e in G.edges()], "nodes": list(G.nodes()), "xmode": mode,
            "starts": starts, "ends": ends,
            "X": g.norm(X), "constraints": [g.norm(c) for c in cons],
            "perturb": [{"from": rng.choice(["seq", "path"]), "i": rng.randrange(100), "e": rng.randrange(100), "pos": rng.randrange(100)}
                        for _ in range(2)]}
    r = rng.random()
    if r < 0.45:
        o = rng.choice([{}, {"optimize_with_safe_paths": False, "optimize_with_safe_sequences": True},
                        {"optimize_with_safety_as_subpath_constraints": True},
                        {"optimize_with_safety_from_largest_antichain": True},
                        {"optimize_with_safe_paths": False, "optimize_with_safe_sequences": True, "optimize_with_safety_from_largest_antichain": True}])
        base_cons = [[list(e) for e in c] for c in cons if all(e[0] != st.source and e[1] != st.sink for e in c)]
        spec["model"] = {"cls": "kPathCover", "k": rng.choice([1, 2, 3, 4]), "opts": o, "subpaths": base_cons if rng.random() < 0.6 else []}
    elif r < 0.6 and not starts and not ends:
        f = rand_flow_on(rng, G)
        spec["edges"] = [[u, v, f.get((u, v), 0)] for u, v in G.edges()]
        spec["model"] = {"cls": "kFlowDecomp", "k": rng.choice([1, 2, 3]),
                         "opts": {"optimize_with_flow_safe_paths": True, "optimize_with_safe_paths": False, "optimize_with_greedy": False}}
    elif r < 0.85:
        # error models: flow = superposition of weighted routes of the s-t graph (they may begin / stop at the extra nodes)
        f = collections.Counter()
        for _ in range(rng.randint(1, 4)):
            w = gen.rand_walk(rng, st, maxlen=30, srcs=[st.source], snks=[st.sink])
            if w is None:
                continue
            wt = rng.randint(1, 6)
            for e in gen.pairs(w[1:-1]):
                f[e] += wt
        for e in G.edges():
            if f.get(e, 0) == 0 or rng.random() < 0.3:
                f[e] += rng.randint(1, 3)
        spec["edges"] = [[u, v, f.get((u, v), 0)] for u, v in G.edges()]
        o = rng.choice([{}, {}, {"optimize_with_safe_paths": False, "optimize_with_safe_sequences": True},
                        {"optimize_with_safety_as_subpath_constraints": True}])
        base_cons = [[list(e) for e in c] for c in cons if all(e[0] != st.source and e[1] != st.sink for e in c)]
        spec["model"] = {"cls": rng.choice(["kMinPathError", "kLeastAbsErrors"]), "k": rng.choice([1, 2, 3, 4]), "opts": o,
                         "subpaths": base_cons if rng.random() < 0.4 else []}
    # partial coverage of subpath constraints (by length, rarely by edge count): constraints from arbitrary routes of the input graph
    mk = spec.get("model")
    if mk and rng.random() < 0.45 and not (mk["cls"] == "kFlowDecomp" and (starts or ends)):
        allp = gen.all_st_paths(G, 300)
        cs = []
        for _ in range(rng.randint(1, 3)):
            es = gen.pairs(rng.choice(allp))
            if len(es) >= 2:
                n_ = min(len(es), rng.choice([2, 2, 3, 4])); a_ = rng.randrange(0, len(es) - n_ + 1)
                cs.append([list(e) for e in es[a_:a_ + n_]])
        if cs:
            mk["subpaths"] = cs
            spec["lens"] = [rng.choice([1, 1, 2, 5, 10]) for _ in spec["edges"]]
            if rng.random() < 0.8:
                mk["covlen"] = rng.choice([0.3, 0.5, 0.75, 0.75, 1])
            else:
                mk["cov"] = rng.choice([0.5, 0.75])
            if mk["cls"] == "kFlowDecomp":
                mk["opts"] = {"optimize_with_flow_safe_paths": False, "optimize_with_greedy": False}
    return spec


CYC_OPTS = [
    {},
    {"optimize_with_safe_sequences_allow_geq_constraints": False},
    {"optimize_with_safe_sequences_fix_via_bounds": True},
    {"optimize_with_max_safe_antichain_as_subset_constraints": True},
    {"optimize_with_safe_sequences_fix_zero_edges": False},
    {"optimize_with_safety_as_subset_constraints": True},
]


def gen_cyc_spec(rng, i, extra_starts=False):
    """extra_starts=False (the default, also used by harness/e3dom.py): the s-t graph is stDiGraph(G) of the spec's edges."""
    import flowpaths as fp
    gadgets = []
    if rng.random() < 0.55:
        G, gadgets = gen_scc.rand_scc_graph(rng)
    else:
        G = gen.rand_cyclic(rng, nmax=rng.choice([3, 4, 5, 6]))
        if G.number_of_nodes() > 8 or G.number_of_edges() > 14:
            G, gadgets = gen_scc.rand_scc_graph(rng)
    starts = []; ends = []
    if extra_starts and rng.random() < 0.3:          # walks may also begin / stop at inner nodes: extra source / sink edges in the s-t graph
        inner = [v for v in G.nodes() if G.in_degree(v) > 0 and G.out_degree(v) > 0] or list(G.nodes())
        r2 = rng.random()
        if r2 < 0.7:
            starts = sorted(set(rng.choice(inner) for _ in range(rng.randint(1, 2))))
        if r2 > 0.3:
            ends = sorted(set(rng.choice(inner) for _ in range(rng.randint(1, 2))))
    st = fp.stDiGraph(G, additional_starts=starts, additional_ends=ends); g = Gr(st)
    mode, X, cons = choose_X(rng, g, "cyc")
    f = collections.Counter()       # flow = superposition of weighted s-t walks (they may use the extra starts / ends)
    for _ in range(rng.randint(1, 4)):
        w = gen.rand_walk(rng, st, maxlen=14, srcs=[st.source], snks=[st.sink])
        if w is None:
            continue
        wt = rng.randint(1, 6)
        for e in gen.pairs(w[1:-1]):
            f[e] += wt
    scale = rng.choice([1, 1, 1, 0.25, 0.5, 2, 4])
    spec = {"kind": "cyc", "edges": [[u, v, f.get((u, v), 0) * scale] for u, v in G.edges()], "nodes": list(G.nodes()),
            "xmode": mode, "X": g.norm(X), "gadgets": gadgets, "starts": starts, "ends": ends,
            "perturb": [{"i": rng.randrange(100), "e": rng.randrange(100), "pos": rng.randrange(100)} for _ in range(2)],
            "models": []}
    for _ in range(rng.choice([1, 1, 2])):
        cls = rng.choice(CYC_CLASSES)
        mk = {"cls": cls, "k": rng.choice([1, 2, 2, 3, 4]), "opts": dict(rng.choice(CYC_OPTS))}
        if rng.random() < 0.3:
            base_cons = [[list(e) for e in c] for c in cons if all(e[0] != st.source and e[1] != st.sink for e in c)]
            if base_cons:
                mk["subsets"] = base_cons
        if rng.random() < 0.2:
            es = list(G.edges())
            mk["ignore"] = [list(e) for e in rng.sample(es, min(len(es), rng.randint(1, 2)))]
        if cls == "kLeastAbsErrorsCycles" and rng.random() < 0.6:      # a sparse caller-supplied trusted set
            es = list(G.edges())
            mk["trusted"] = [list(e) for e in rng.sample(es, min(len(es), rng.randint(1, 4)))]
        spec["models"].append(mk)
    return spec


def gen_flow_spec(rng, i):
    G = gen.rand_dag(rng, nmax=rng.choice([4, 5, 6, 7]))
    f = rand_flow_on(rng, G)
    if rng.random() < 0.7:                      # cover every edge
        for e in G.edges():
            if f.get(e, 0) == 0:
                ps = [p for p in gen.all_st_paths(G, 300) if e in gen.pairs(p)]
                if ps:
                    wt = rng.randint(1, 3)
                    for x in gen.pairs(rng.choice(ps)):
                        f[x] += wt
    scale = rng.choice([1, 1, 1, 1, 0.25, 0.5, 2, 4])
    if not any(f.values()):
        f[next(iter(G.edges()))] = 0
    return {"kind": "flow", "edges": [[u, v, f.get((u, v), 0) * scale] for u, v in G.edges()], "nodes": list(G.nodes()),
            "scale": scale, "nodup": rng.random() < 0.7}


# ----------------------------------------------------------------------------- slot stream (sparse trusted sets)
def gen_slot_spec(rng, i):
    """Many cheap instances for the clause "sequences in different slots never occur together": sparse trusted sets
    (a few trusted edges, everything else has weight zero in the antichain computation) on dense DAGs / DAGs with cycles."""
    import flowpaths as fp
    sub = ["dagw", "dagp", "cyc", "cyc"][i % 4]
    if sub == "cyc":
        G = None
        while G is None:
            G = gen_scc.rand_dag_with_cycles(rng, gen.rand_dag, nmax=rng.choice([6, 7, 8]))
        st = fp.stDiGraph(G); kmax = rng.choice([3, 6, 8])
    else:
        G = gen.rand_dag(rng, nmax=rng.choice([7, 8, 8]))
        st = fp.stDAG(G); kmax = 6 if sub == "dagw" else 4
    g = Gr(st)
    X = rng.sample(g.edges, rng.randint(min(2, len(g.edges)), min(kmax, len(g.edges))))      # one trusted edge gives at most one slot
    return {"kind": "slot", "sub": sub, "edges": [list(e) for e in G.edges()], "nodes": list(G.nodes()), "X": g.norm(X),
            "weights": [rng.randint(1, 5) for _ in X], "largest": rng.random() < 0.3}


def build_slot_case(spec, T):
    import flowpaths as fp
    case = Case(spec)
    G = base_graph(spec)
    sub = spec["sub"]
    st = fp.stDiGraph(G) if sub == "cyc" else fp.stDAG(G)
    g = Gr(st)
    X = g.denorm(spec["X"])
    case.dists.append("slot:" + sub); case.dists.append(f"slot:|X|={len(X)}")
    if sub == "dagw":
        # what stDAG exposes: a maximum-weight antichain for a weight function that is zero outside X
        wf = {e: w for e, w in zip(X, spec["weights"])}
        cost, ac = st.compute_max_edge_antichain(get_antichain=True, weight_function=wf)
        slots = [[tuple(e)] for e in ac]; label = "stDAG.compute_max_edge_antichain (weights only on the trusted edges)"
    elif sub == "dagp":
        from flowpaths.utils import safetypathcovers as spc
        lists = spc.safe_paths(st, list(X), no_duplicates=False, threads=T)
        stub = object.__new__(fp.kPathCover)
        stub.G = st; stub.safe_lists = lists; stub.optimize_with_safety_from_largest_antichain = spec["largest"]
        slots = [[tuple(e) for e in p] for p in stub._get_paths_to_fix_from_safe_lists()]
        label = "AbstractPathModelDAG._get_paths_to_fix_from_safe_lists (safe paths of a sparse trusted set)"
    else:
        from flowpaths.utils import safetypathcoverscycles as spcc
        seqs = spcc.maximal_safe_sequences_via_dominators(st, set(X))
        slots = [[tuple(e) for e in q] for q in st.get_longest_incompatible_sequences(seqs)] if seqs else []
        label = "stDiGraph.get_longest_incompatible_sequences (maximal safe sequences of a sparse trusted set)"
    case.nontrivial = len(slots) >= 2
    case.counts["b_slot_instances"] += 1
    if len(slots) >= 2:
        def res(out):
            case.counts["b_slot_sets_decided"] += 1
            if out.strip() != "1":
                case.fail(f"{label}: two of the returned slot sequences occur together in one source-to-sink walk (pairwise_incompat_dec = false)",
                          {"slots": [g.norm(q) for q in slots], "X": spec["X"]})
        case.ask("sf_pairwise " + common.toks(g.s, g.t, g.G(), len(slots), [g.E(q) for q in slots]), res)
    case.sample = None
    return case


BUILDERS = {"iflow": (gen_iflow_spec, build_iflow_case), "slot": (gen_slot_spec, build_slot_case), "dag": (gen_dag_spec, build_dag_case), "cyc": (lambda rng, i: gen_cyc_spec(rng, i, extra_starts=True), build_cyc_case), "flow": (gen_flow_spec, build_flow_case)}


# ----------------------------------------------------------------------------- run / replay
def solver_threads():
    import flowpaths.utils.solverwrapper as sw
    return sw.SolverWrapper.threads


class CaseTimeout(BaseException):
    pass


def guarded_build(ctx, kind, buildf, spec, T, limit=30.0):
    """Builds one case under a CPU-time limit of this process (ITIMER_PROF: independent of how busy the machine is;
    a library loop that no longer terminates burns CPU and must not hang or exhaust the memory of the check).  Exceptions whose innermost frame is inside the library are failures
    of the library on a valid generated input (concrete); anything else is a defect of this engine."""
    import signal, traceback, sys
    def on_alarm(signum, frame):
        raise CaseTimeout()
    old = signal.signal(signal.SIGPROF, on_alarm)
    signal.setitimer(signal.ITIMER_PROF, limit)
    try:
        return buildf(spec, T)
    except CaseTimeout:
        ctx.report(f"a safety computation of the library did not terminate within {limit:.0f} s of CPU time on a graph with <= 10 nodes ({kind} case)",
                   {"spec": spec}, concrete=True)
    except MemoryError:
        ctx.report(f"a safety computation of the library exhausted memory ({kind} case)", {"spec": spec}, concrete=True)
    except Exception as ex:
        tb = traceback.extract_tb(sys.exc_info()[2])
        in_lib = bool(tb) and "flowpaths" in tb[-1].filename and "/harness/" not in tb[-1].filename
        ctx.report((f"the library raised {ex!r} on a valid generated input ({kind} case, in {tb[-1].name})" if in_lib else
                    f"engine raised while building a {kind} case: {ex!r}"),
                   {"spec": spec, "traceback": traceback.format_exc()}, concrete=in_lib)
    finally:
        signal.setitimer(signal.ITIMER_PROF, 0)
        signal.signal(signal.SIGPROF, old)
    return None


def run(ctx):
    ctx.rule = ("case = one generated graph with one trusted set X: DAG stream (random DAG <= 8 nodes, in ~40% of the cases with additional_starts / "
                "additional_ends, the deciders running on the s-t graph with the extra source / sink edges; X = all st-edges / base edges / "
                "random subset / edges of random subpath constraints), cyclic stream (random digraph or SCC gadgets self-loop, 2-cycle, "
                "3-cycle, figure-eight, nested, 2-cycle+loop on a DAG skeleton with parallel inter-SCC edges, <= 8 nodes; 1-2 k-models with "
                "safety options), flow stream (DAG with a superposition of 1-4 weighted paths, scaled by 2^j), slot stream (dense DAG <= 8 nodes or DAG with 1-3 planted cycles "
                "<= 11 nodes, SPARSE trusted set of 1-8 edges: antichain / paths_to_fix / get_longest_incompatible_sequences decided pairwise incompatible); "
                "DAG models also with subpath constraints that need only partial coverage (by length / edge count); non-trivial = DAG with >= 2 "
                "source-to-sink paths / digraph with a non-trivial SCC / flow with a safe path of >= 2 edges; distinct by (edges, X, models)")
    T = solver_threads()
    plan = [("cyc", ctx.budget(600, 12000)), ("dag", ctx.budget(400, 8000)), ("flow", ctx.budget(400, 8000)), ("slot", ctx.budget(7000, 100000)),
            ("iflow", ctx.budget(3000, 40000))]
    cases = []
    for kind, n in plan:
        genf, buildf = BUILDERS[kind]
        for i in range(n):
            rng = ctx.rng(kind, i)
            try:
                spec = genf(rng, i)
            except ValueError:
                continue
            spec["case"] = i
            case = guarded_build(ctx, kind, buildf, spec, T)
            if case is not None:
                cases.append(case)
    # one batch for the extracted model
    reqs = [r for c in cases for r in c.reqs]
    outs = []
    CH = 4000
    for a in range(0, len(reqs), CH):
        outs += ctx.model.run(reqs[a:a + CH])
    pos = 0
    for c in cases:
        for f in c.fns:
            o = outs[pos]; pos += 1
            if o.startswith("ERROR"):
                c.fail("extracted model answered " + o, {}, concrete=False)
            else:
                f(o)
        canon = [c.spec["kind"], c.spec["edges"], c.spec.get("X"), c.spec.get("models"), c.spec.get("model")]
        ctx.case(canon, nontrivial=c.nontrivial, sample=c.sample)
        for d in c.dists:
            ctx.dist(d)
        for k, v in c.counts.items():
            eng = {"a": "E2_returned_sequences_decided_safe", "b": "E2_model_safety_state_certified", "c": "E3_dag_functions",
                   "control": "negative_controls", "slot": "E2_model_safety_state_certified", "inexact": "E2_returned_sequences_decided_safe", "flow": "E2_returned_sequences_decided_safe", "model": "models", "dag": "models"}[k.split("_")[0]]
            ctx.count(eng, k, v)
        seen = set()
        for what, detail, concrete, key in c.failures:
            if (what, key) in seen:
                continue
            seen.add((what, key))
            ctx.report(what, {"spec": c.spec, "detail": detail}, key=key, concrete=concrete)


    n_dormant = ctx.engines.get("models", {}).get("dag_dormant_fixing_code_raises_TypeError", 0)
    if n_dormant:
        ctx.notes.append(f"observation: AbstractPathModelDAG._apply_safety_optimizations (never called by the pinned constructors) raised TypeError "
                         f"('dict' object is not callable: stDAG.nodes_reaching is a property) in {n_dormant} explicit calls; on the DAG side only "
                         "safe_lists and paths_to_fix are certified")
    import e3dom; e3dom.run_dom_e3(ctx, ctx.budget(250, 5000))   # dominator route of the cyclic class against the extracted DomAlg model
    import e3fix; e3fix.run_fix_e3(ctx, ctx.budget(150, 3000))   # zero-fixing rule of the cyclic classes against WalkEncRows.zero_edges


def replay(ctx, body):
    spec = body["spec"]
    T = solver_threads()
    class _C:                                     # collects what guarded_build reports
        def __init__(self): self.hits = []
        def report(self, what, replay, key=None, concrete=True): self.hits.append(what)
    col = _C()
    case = guarded_build(col, spec["kind"], BUILDERS[spec["kind"]][1], spec, T)
    if case is None:
        print("still failing:", col.hits)
        return True
    case.evaluate(ctx.model)
    fails = [f for f in case.failures if not (f[3] is not None and ctx.open_finding(f[3]) is not None)]   # known findings do not count
    for what, detail, concrete, key in fails:
        print("still failing:", what, detail)
    return bool(fails)
