"""C19 — invalid inputs are rejected with ValueError; valid inputs are accepted.

E3 on a malformed stream: valid inputs of every exported graph / model class, every single violation
kind of the property and pairs of violations; the exception TYPE at construction / solve() and
is_solved() are mapped to the outcome enum of Validate.v and compared with validate_X on the
abstracted input.  The property is also evaluated directly on every case (malformed => ValueError and
never solved; valid => no exception)."""
import copy, itertools, json
from fractions import Fraction
import networkx as nx
import common, gen
import gencheck
from engines import c19_inputs as ci

LEVEL = "proof"
EXPLANATION = ("Theorems of Props/C19.v are about Validate.validate_X / in_domain_X: hand-written summaries of each class's "
               "constructor+solve validation path and of its documented domain (thin tie). Proved: validate_sound (ValueError => "
               "outside the domain), validate_complete (unconditional for stDAG, stDiGraph, NodeExpandedDiGraph, MinErrorFlow; otherwise "
               "under deviates_X = false, which names exactly the deviations still open, each with a _refuted witness), accepts_domain; the "
               "model of the code before the repairs and its refutations are kept in ValidateOld*.v. The tie is this malformed-stream correspondence: observed "
               "exception type / solved flag vs validate_X on the abstracted input, for singles and pairs of violations; the "
               "property itself is evaluated on every case. Not covered: NumPathsOptimization, MinGenSet, MinSetCover (no graph "
               "input of the kind the property lists), error_scaling / path_length / percentile parameters, coverage_length.")
ASSUMPTIONS = ["the abstraction alpha (spec -> Validate.input) is computed by the harness from the concrete input; "
               "acyclic / has-source / conservation flags are recomputed independently of flowpaths",
               "search_enters (did the k-loop of a Min* class construct a k-model) is read off the observed run; it only matters on "
               "code paths after validation",
               "one solver thread count (threads=1) per process; HiGHS time limit 4 s (a time-out only turns solved into unsolved)"]
TRUSTED = ["model: coq/theories/Validate.v; proofs ValidateProofs.v"]

# ------------------------------------------------------------------------------------------ abstraction
KIND = {"str": 0, "pair": 1, "triple": 2, "int": 3}


def item_kind(it):
    if isinstance(it, str): return 0
    if isinstance(it, tuple) and len(it) == 2: return 1
    if isinstance(it, tuple) and len(it) == 3: return 2
    return 3


def conserving(spec):
    """independent re-statement of graphutils.check_flow_conservation on the caller's graph"""
    ins = {}; outs = {}
    edge_mode_attr = spec["origin"] != "node"
    for (u, v, w) in spec["edges"]:
        ww = w if edge_mode_attr else None
        outs.setdefault(u, []).append(ww); ins.setdefault(v, []).append(ww)
    if not edge_mode_attr and spec["edges"]:
        return False            # node mode: the expanded graph's connecting edges carry no flow attribute
    for x in spec["nodes"]:
        if x not in ins or x not in outs:
            continue
        if any(w is None for w in ins[x] + outs[x]):
            return False
        if sum(ins[x]) != sum(outs[x]):
            return False
    return True


def wclass(w):
    if w is None: return 3
    return 0 if w > 0 else (1 if w == 0 else 2)


def percentile_ignored(spec):
    """elements that elements_to_ignore_percentile ignores: those carrying a weight strictly below the p-th percentile (numpy's
    default linear interpolation, restated here) of all weights present; elements without the attribute are NOT among them"""
    p = spec.get("ign_pct")
    if p is None or not (0 <= p <= 100) or spec["cls"] != "kMinPathErrorCycles":
        return set()
    if spec["origin"] == "node":
        vals = {v: spec["node_w"].get(v) for v in spec["nodes"]}
    else:
        vals = {(u, v): w for (u, v, w) in spec["edges"]}
    present = sorted(Fraction(w) for w in vals.values() if w is not None)
    if not present:
        return set()
    rank = Fraction(p) / 100 * (len(present) - 1)
    lo = int(rank); hi = min(lo + 1, len(present) - 1)
    thr = present[lo] + (rank - lo) * (present[hi] - present[lo])
    return {e for e, w in vals.items() if w is not None and Fraction(w) < thr}


def abstract(spec, obs=None):
    G = ci._graph(spec)
    nodes = spec["nodes"]
    a = {}
    a["nodes_str"] = [isinstance(x, str) for x in nodes]
    a["n_edges"] = len(spec["edges"])
    a["acyclic"] = all(len(c) == 1 for c in nx.strongly_connected_components(G))      # no cycle through two or more nodes
    a["has_selfloop"] = any(u == v for (u, v, _) in spec["edges"])
    pc = lambda p: 0 if p is None else (1 if 0 <= p <= 100 else 2)
    a["ign_pct"] = pc(spec.get("ign_pct")); a["trust_pct"] = pc(spec.get("trust_pct"))
    pct_ignored = percentile_ignored(spec)
    a["has_source"] = any(G.in_degree(x) == 0 for x in G)
    a["has_sink"] = any(G.out_degree(x) == 0 for x in G)
    a["origin"] = {"edge": 0, "node": 1}.get(spec["origin"], 2)
    a["wtype"] = {"int": 0, "float": 1}.get(spec["wtype"], 2)
    cover = spec["cls"] in ci.IS_COVER
    if spec["origin"] == "node":
        a["elems"] = [[0 if cover else wclass(spec["node_w"].get(v)), v in spec["ign"] or v in pct_ignored] for v in nodes]
    else:
        a["elems"] = [[0 if cover else wclass(w), (u, v) in spec["ign"] or (u, v) in pct_ignored] for (u, v, w) in spec["edges"]]
    a["conserving"] = conserving(spec)
    k = spec["k"]
    if spec["cls"] not in ci.HAS_K:
        a["k"] = [0, 1]
    else:
        a["k"] = ([3] if k is None else ([4] if isinstance(k, str) else ([2, k] if isinstance(k, bool) else
                  ([0, k] if isinstance(k, int) else [1] + common.qtok(k)))))
    a["has_superset"] = spec.get("superset") is not None and spec["cls"] in ci.HAS_SUPERSET
    edges = {(u, v) for (u, v, _) in spec["edges"]}
    def ingraph(it):
        kd = item_kind(it)
        return (it in nodes) if kd == 0 else ((it in edges) if kd == 1 else False)
    a["cons"] = [[isinstance(c, list), len(c), [[item_kind(it), ingraph(it)] for it in c]] for c in spec["cons"]]
    a["cov"] = common.qtok(spec["cov"])
    a["cov_len"] = [0] if spec.get("cov_len") is None else [1] + common.qtok(spec["cov_len"])
    a["len_attr"] = bool(spec.get("len_attr"))
    a["starts"] = [x in nodes for x in spec["starts"]]; a["ends"] = [x in nodes for x in spec["ends"]]
    a["ign"] = [[item_kind(it), ingraph(it)] for it in spec["ign"]]
    # Min* classes: did the k-loop of solve() construct a k-model?  Read off the observed run; if an exception
    # preceded the loop the flag is never looked at by the model either.
    a["search_enters"] = True
    if obs is not None and obs.get("inner") is False and not obs.get("ctor") and not obs.get("solve"):
        a["search_enters"] = False
    return a


def tokens(spec, a):
    return "validate " + common.toks(
        ci.CLS_ID[spec["cls"]], len(a["nodes_str"]), a["nodes_str"], a["n_edges"], a["acyclic"], a["has_selfloop"], a["ign_pct"], a["trust_pct"], a["has_source"], a["has_sink"],
        a["origin"], a["wtype"], len(a["elems"]), a["elems"], a["conserving"], a["k"], a["has_superset"],
        len(a["cons"]), a["cons"], a["cov"], a["cov_len"], a["len_attr"], len(a["starts"]), a["starts"], len(a["ends"]), a["ends"], len(a["ign"]), a["ign"],
        a["search_enters"])


# ------------------------------------------------------------------------------------------ outcome mapping
def observed_outcome(r):
    exc = r["ctor"] or r["solve"]
    if exc:
        return exc
    if r["solved"] is None or r["solved"]:
        return "ACCEPT" if r["solved"] is None else "SOLVED"
    return "UNSOLVED"


def agrees(model_out, obs):
    if model_out == "ACCEPT":
        return obs in ("ACCEPT", "SOLVED", "UNSOLVED")
    if model_out == "UNSOLVED":
        return obs == "UNSOLVED"
    return model_out == obs


# ------------------------------------------------------------------------------------------ known-deviation signatures
def finding_key(spec, a, obs):
    """Call-site signature of the known deviation that explains a non-ValueError outcome on an invalid input
    (or an error on a valid one).  None if no listed deviation applies."""
    cls = spec["cls"]; k = spec["k"]
    sup = spec.get("superset") is not None and cls in ci.HAS_SUPERSET
    if cls in ci.HAS_K and (isinstance(k, str) or (k is None and spec.get("k_is_none"))) and obs in ("TypeError", "AttributeError"):
        return "k-models:TypeError:non-numeric-k"
    k_invalid = isinstance(k, bool) or isinstance(k, (float, str)) or (k is None and spec.get("k_is_none")) or (isinstance(k, int) and k <= 0)
    if sup and k_invalid and cls in ("kLeastAbsErrors", "kMinPathError") and obs in ("SOLVED", "UNSOLVED", "ACCEPT"):
        return "kErrDAG:accepted:invalid-k-with-solution_weights_superset"
    if sup and k is True and cls == "kFlowDecomp" and obs in ("SOLVED", "UNSOLVED", "ACCEPT"):
        return "kFlowDecomp:accepted:bool-k-with-solution_weights_superset"
    cyc = cls in ci.IS_CYC
    st = [] if spec["origin"] == "node" else spec["starts"]; en = [] if spec["origin"] == "node" else spec["ends"]
    if spec["origin"] == "node" and obs == "TypeError" and any(isinstance(it, list) for c in spec["cons"] for it in c) \
            and spec["cons"] and len(spec["cons"][0]) and isinstance(spec["cons"][0][0], str):
        return "NodeExpandedDiGraph._get_expanded_subpath_constraints_nodes:TypeError:unhashable-item"
    if cls in ("kLeastAbsErrors", "kLeastAbsErrorsCycles", "kMinPathErrorCycles") and obs == "TypeError" \
            and any(isinstance(it, list) for c in spec["cons"] for it in c):
        return "error-models:TypeError:unhashable-constraint-item"
    if cls == "MinFlowDecomp" and obs == "Exception" and (spec.get("opts") or {}).get("use_min_gen_set_lowerbound"):
        return "MinFlowDecomp:Exception:negative-flow-with-min-gen-set-lowerbound"
    names1 = [x for x in spec["nodes"] if isinstance(x, str) and len(x) == 1]
    if cyc and spec["origin"] != "node" and obs != "ValueError" and (
            (not a["has_source"] and not st and any(c in "source_" for c in names1)) or
            (not a["has_sink"] and not en and any(c in "sink_" for c in names1))):
        return "stDiGraph:source-sink-test-fooled:single-char-node-names"
    if spec["origin"] == "node" and obs == "TypeError" and any(item_kind(it) == 3 for c in spec["cons"] for it in c) \
            and spec["cons"] and len(spec["cons"][0]) and item_kind(spec["cons"][0][0]) in (1, 2):
        return "NodeExpandedDiGraph._get_expanded_subpath_constraints_edges:TypeError:non-tuple-item"
    if cls in ci.HAS_K and k is not None:
        if not isinstance(k, int) and obs == "TypeError":
            return "k-models:TypeError:non-integer-k"
        if isinstance(k, int) and k <= 0 and obs == "UnboundLocalError" and cls in ("kLeastAbsErrors", "kMinPathError"):
            return cls + ":UnboundLocalError:k<=0"
        if isinstance(k, int) and k <= 0 and obs == "UNSOLVED" and cls == "kPathCover":
            return "kPathCover:accepted-unsolved:k<=0"
    if cls in ("kFlowDecomp", "MinFlowDecomp") and obs in ("KeyError", "TypeError") and spec["cons"] and not spec["ign"]:
        return "kFlowDecomp._get_solution_with_greedy:%s:unvalidated-constraints" % obs
    if spec["origin"] == "node" and spec["cons"] and isinstance(spec["cons"][0], list) and len(spec["cons"][0]) == 0 and obs == "IndexError":
        return "NodeExpandedDiGraph.get_expanded_subpath_constraints:IndexError:first-constraint-empty"
    if cls in ci.DAG_CLASSES and not spec["cons"] and spec.get("cov_len") is not None and not (0 < spec["cov_len"] <= 1) \
            and (0 < spec["cov"] <= 1) and obs in ("SOLVED", "UNSOLVED", "ACCEPT"):
        return "AbstractPathModelDAG:accepted:coverage_length-out-of-range-without-constraints"
    if cls in ci.HAS_CONS and not spec["cons"] and not (0 < spec["cov"] <= 1) and obs in ("SOLVED", "UNSOLVED", "ACCEPT"):
        return ("AbstractWalkModelDiGraph" if cyc else "AbstractPathModelDAG") + ":accepted:coverage-out-of-range-without-constraints"
    if cls in ("MinFlowDecomp", "MinFlowDecompCycles", "MinPathCover", "MinPathCoverCycles") and not a["search_enters"] and obs == "UNSOLVED":
        return "Min-models:validation-skipped:empty-k-range"
    if cls in ("kFlowDecompCycles", "MinFlowDecompCycles") and not a["conserving"] and obs == "UNSOLVED":
        return "kFlowDecompCycles:unsolved-not-ValueError:non-conserving-flow"
    if cls == "MinPathCoverCycles" and obs == "ValueError" and spec["starts"] + spec["ends"] and (not a["has_source"] or not a["has_sink"]):
        return "MinPathCoverCycles:ValueError:lower-bound-ignores-additional-starts"
    if cls == "MinFlowDecompCycles" and obs == "ValueError" and spec["origin"] == "node" and spec["starts"] + spec["ends"]:
        return "MinFlowDecompCycles:ValueError:node-mode-additional-starts"
    if cls == "MinErrorFlow" and not a["acyclic"] and spec["origin"] == "edge" and not all(a["nodes_str"]) and obs in ("SOLVED", "UNSOLVED"):
        return "MinErrorFlow:accepted:non-string-nodes-in-cyclic-graph"
    return None


def fixed_deviation(ctx, spec, a, model_out):
    """the deviation the model predicts for this input is a finding with status "fixed" in known_findings.json"""
    as_obs = {"ACCEPT": "SOLVED", "UNSOLVED": "UNSOLVED", "Crash": "NetworkXError"}.get(model_out, model_out)
    key = finding_key(spec, a, as_obs)
    if key is None and model_out == "ACCEPT":
        key = finding_key(spec, a, "UNSOLVED")
    if key is None:
        return False
    return any(k.get("property") == ctx.pid and k.get("key") == key and k.get("status") == "fixed" for k in ctx.known)


# ------------------------------------------------------------------------------------------ cases
def applicable(cls, v, spec):
    """is violation kind v a violation of the DOCUMENTED domain of cls for this input?"""
    if v == "missing" and spec["origin"] == "node":
        return False            # documented: nodes without the attribute are ignored
    if v == "noncons" and (spec["origin"] != "edge" or spec["ign"]):
        return False            # documented: conservation is only required without an ignore list
    if v == "neg" and cls == "MinErrorFlow":
        return False            # MinErrorFlow corrects arbitrary weights
    if v in ("neg", "noncons") and spec.get("ign_pct") is not None:
        return False            # a negative weight is the smallest one: the percentile would (legitimately) ignore it
    if v in ("start", "end", "start_nearmiss", "end_nearmiss") and cls == "MinErrorFlow" and spec["origin"] == "edge" and not nx.is_directed_acyclic_graph(ci._graph(spec)):
        return False            # documented: additional starts/ends apply only to acyclic graphs
    if v in ("cons_itemint", "cons_item3", "cons_tuple") and spec["origin"] == "node" and not spec["cons"]:
        return True
    return True


PREPHASE_SENSITIVE = ("neg", "missing", "noncons", "nonstr", "cycle", "selfloop", "nosource", "nosink")
INPLACE = ("neg", "missing", "noncons", "cycle", "selfloop", "nosource", "nosink", "nonstr")


def make_cases(ctx, n_valid, n_pairs):
    """yields (stream, cls, idx, violations, spec); stream in valid | single | pair | outside"""
    for cls in ci.ALL_CLASSES:
        vs = ci.violations_for(cls)
        for i in range(n_valid):
            rng = ctx.rng("valid:" + cls, i)
            base = ci.gen_valid(rng, cls)
            vecs = ci.OPTION_VECTORS.get(cls)
            if vecs:                                   # option vector i of the class (cycled; rotated by the seed)
                base["opts"] = dict(vecs[(i + ctx.seed) % len(vecs)])
            yield ("valid", cls, i, [], base)
            for name, fn in (("start_only", ci.variant_start_only), ("node_starts", ci.variant_node_starts)):
                s = copy.deepcopy(base)
                if fn(s, ctx.rng("variant:%s:%s" % (cls, name), i)):
                    yield ("valid", cls, i, [], s)
            s = copy.deepcopy(base)
            if i % 3 == 0 and ci.variant_all_ignored(s, rng):
                yield ("outside", cls, i, [], s)
            for v in vs:                                   # every single violation kind on every valid input
                rngv = ctx.rng("viol:%s:%s" % (cls, v), i)
                s = copy.deepcopy(base)
                if not applicable(cls, v, s) or not ci.VIOL[v](s, rngv):
                    continue
                if v == "noncons" and conserving(s):
                    continue
                yield ("single", cls, i, [v], s)
                # classes with optional pre-phases in solve() (lower bounds, guessed weights): the input violations under EVERY vector
                if vecs and len(vecs) > 10 and v in PREPHASE_SENSITIVE and i < 4:
                    for vec in vecs:
                        if vec != base.get("opts"):
                            s2 = copy.deepcopy(s); s2["opts"] = dict(vec)
                            yield ("single", cls, i, [v], s2)
                # the same violation made IN PLACE on the graph object with which a valid model was built and solved before
                if v in INPLACE and i % 4 == 0:
                    yield ("inplace", cls, i, [v], s, base)
        allpairs = list(itertools.combinations(vs, 2))
        for j in range(n_pairs):
            rng = ctx.rng("pair:" + cls, j)
            if not allpairs:
                break
            v1, v2 = allpairs[(j * 7 + rng.randrange(len(allpairs))) % len(allpairs)]
            if rng.random() < 0.5:
                v1, v2 = v2, v1
            base = ci.gen_valid(rng, cls)
            vecs = ci.OPTION_VECTORS.get(cls)
            if vecs:
                base["opts"] = dict(vecs[rng.randrange(len(vecs))])
            s = copy.deepcopy(base)
            if not applicable(cls, v1, s) or not ci.VIOL[v1](s, rng):
                continue
            if not applicable(cls, v2, s) or not ci.VIOL[v2](s, rng):
                continue
            yield ("pair", cls, j, [v1, v2], s)


def spec_json(spec):
    return json.loads(json.dumps(spec, default=str))


def run(ctx):
    ctx.rule = ("case = (class, valid input, list of violation kinds applied); valid inputs: random DAG (<=5 nodes) / cyclic "
                "digraph (<=6 nodes), flows = superposition of <=4 weighted source-to-sink routes, constraints cut from those routes, "
                "ignore lists, additional starts/ends, edge or node weights; every single violation kind of the class on every valid "
                "input (graph violations also made IN PLACE on the graph object a valid model was built from before) plus sampled pairs; non-trivial = at least one violation applied or a valid input with constraints / ignore "
                "list / node weights; distinct by (class, abstract input)")
    n_valid = ctx.budget(14, 150); n_pairs = ctx.budget(60, 1500)
    cases = []
    for case in make_cases(ctx, n_valid, n_pairs):
        (stream, cls, idx, viols, spec) = case[:5]
        if stream == "inplace":
            G = ci.build_graph(case[5])
            r0 = ci.observe(case[5], G)           # a valid model on this very graph object first (constructed and solved)
            if r0 is None or r0["ctor"] or r0["solve"]:
                continue
            ci.sync_graph(G, spec)                # now make the graph invalid in place
            r = ci.observe(spec, G)
        else:
            r = ci.observe(spec)                  # run the implementation first: the abstraction reads `inner` off it
        if r is None:
            continue
        a = abstract(spec, r)
        cases.append((stream, cls, idx, viols, spec, a, tokens(spec, a), r))
    outs = ctx.model.run([c[6] for c in cases])
    for (stream, cls, idx, viols, spec, a, req, r), out in zip(cases, outs):
        check_case(ctx, stream, cls, idx, viols, spec, a, req, out, r)
    gencheck.run_generated(ctx, ["nonneg_check", "check_flow_conservation"])      # generated-model tie (coq/gen_proofs)


def check_case(ctx, stream, cls, idx, viols, spec, a, req, out, r):
    parts = out.split()
    if len(parts) != 2 or out.startswith("ERROR"):
        ctx.report("model driver failed on a request: " + out, {"request": req}, concrete=False); return True
    model_out, model_dom = parts[0], parts[1] == "1"
    obs = observed_outcome(r)
    canon = [cls, req, sorted((spec.get("opts") or {}).items())]
    nontriv = bool(viols) or bool(spec["cons"] or spec["ign"] or spec["origin"] == "node" or spec["starts"])
    ctx.case(canon, nontrivial=nontriv, sample={"class": cls, "violations": viols, "observed": obs, "model": model_out,
                                                "in_domain": model_dom, "input": spec_json(spec)})
    ctx.dist("%s:%s" % (stream, cls)); ctx.dist("violation:" + ("+".join(sorted(viols)) if len(viols) < 2 else "pair"))
    ctx.dist("observed:" + obs)
    replay = {"class": cls, "stream": stream, "index": idx, "violations": viols, "input_repr": repr(spec), "input": spec_json(spec),
              "observed": r, "observed_outcome": obs, "model_outcome": model_out, "model_in_domain": model_dom, "request": req}
    ctx.count("E3_validate", "cases")
    key = finding_key(spec, a, obs)
    failed = False
    # (1) the property itself
    if stream == "valid":
        ctx.count("property_valid_accepted", "cases")
        if r["ctor"] or r["solve"]:
            failed = True
            ctx.report("a well-formed input of %s raised %s" % (cls, obs), replay, key=key, concrete=True)
        if not model_dom:
            ctx.report("generator / model mismatch: in_domain_%s is false on an input of the valid stream" % cls, replay, concrete=False)
            return True
    elif stream == "outside":
        ctx.count("outside_property_clause", "cases")      # DESIGN #24: correspondence only
    else:
        ctx.count("property_invalid_rejected", "cases")
        if obs != "ValueError":
            failed = True
            what = ("an invalid input of %s (%s) was not rejected with ValueError: %s" % (cls, "+".join(viols), obs))
            if obs == "SOLVED":
                what += " — the model claims to be solved"
            ctx.report(what, replay, key=key, concrete=True)
        if model_dom:
            ctx.report("generator / model mismatch: in_domain_%s is true on an input with violations %s" % (cls, viols), replay, concrete=False)
            return True
    # (2) correspondence with the model
    ahead = ctx.open_finding(key) if (failed and key) else None
    if ahead is not None and ahead.get("model_is_repaired") and model_out == "ValueError":
        # an OPEN finding whose entry says that Validate.v already describes the repaired behaviour: the implementation's
        # deviation was reported above as an instance of the finding; there is nothing further to compare
        ctx.count("E3_validate", "model_ahead_of_open_finding")
    elif agrees(model_out, obs):
        ctx.count("E3_validate", "agreements")
    elif not failed and fixed_deviation(ctx, spec, a, model_out):
        # the model still describes a deviation whose known_findings entry is marked "fixed" (its repair has been applied to
        # /repo), and the property holds on this case: the implementation is now stricter than the faithful model of the old code
        ctx.count("E3_validate", "agreements_with_fixed_finding")
    else:
        ctx.count("E3_validate", "disagreements")
        # the property was evaluated on this very input above; if it held, no failing input is known
        ctx.report("E3 correspondence broken: validate_%s gives %s, the implementation %s (violations %s)" % (cls, model_out, obs, viols),
                   replay, concrete=False)
        failed = True
    return failed


def replay(ctx, body):
    spec = eval(body["input_repr"], {"__builtins__": {}}, {})
    r = ci.observe(spec)
    a = abstract(spec, r)
    req = tokens(spec, a)
    out = ctx.model.run([req])[0]
    obs = observed_outcome(r)
    print("observed now:", r, "->", obs, "| model:", out)
    bad = (obs != "ValueError") if body["violations"] else bool(r["ctor"] or r["solve"])
    return bad or not agrees(out.split()[0], obs)
