"""C16 — MinErrorFlow returns a closest non-negative flow on the same graph.
E1: LP handed to HiGHS (first model, and the few-flow-values model) == MiscEnc.encode_mef / encode_mef2.
E2 on every answer: same nodes/edges, non-negative (integral) values, conservation where required, reported
    error / objective == recomputed, optimality against an exhaustive minimum over integer flows (tiny instances),
    epsilon variant within (1+eps)."""
from fractions import Fraction as F
import copy, traceback
import networkx as nx
import common, gen2, lpdump, e1misc, props

LEVEL = "proof"
EXPLANATION = (
    "Props/C16.v: the rows/columns of encode_mef are satisfied exactly by (x, err) with 0 <= x, err <= ub (integral for int), conservation at "
    "every node of the model graph with in- and out-edges, err = 0 on ignored edges and err >= |f - x| on the others (C16_rows_exact, both "
    "directions); hence objective >= scaled L1 distance (+ sparsity term) with equality attainable, so an optimal assignment is a closest flow "
    "among flows within the bounds; the bound ub = w_max*|E| loses no optimum (C16_bound_loses_no_optimum, MefBound.v: contraction to a circulation, "
    "cut argument, lowering along simple cycles), so an optimal assignment is a closest flow among ALL non-negative flows with conservation where "
    "required (C16_optimal_solution_is_closest_flow = the full statement, relative to the solver specification; integral flows for int weights, "
    "which loses nothing on integral weights: C16_integral_optimum_is_real_optimum, MefIntegral.v); "
    "the corrected graph has the same node and edge lists (C16_same_graph); the few-values model contains all rows of the first model plus the "
    "budget row (C16_few_values_within_budget); the E1 comparison is decided by the verified checker (C16_lp_comparison_is_verified). "
    "Premises of the full statement are ONE extracted verified boolean (mef_domain_b, C16_optimal_solution_is_closest_flow_checked) run on every instance.")
ASSUMPTIONS = ["HiGHS status kOptimal => returned assignment satisfies the rows within 1e-9 and is optimal (solver specification, DESIGN §4)",
               "values are integers or dyadic floats; reported error/objective compared with tolerance 1e-6",
               "exhaustive minimum over INTEGER flows (total unimodularity of the conservation system makes it the real optimum for integer data; not proved in Coq)",
               "premises of C16_optimal_solution_is_closest_flow are decided by the extracted verified check mef_domain_b on every instance"]
TRUSTED = ["models: coq/theories/MiscEnc.v; LP read-back harness/lpdump.py, harness/e1misc.py; Python oracles harness/props.py (is_flow, flow_cost, min_l1_flow)"]
SO = {"threads": 1}
TOL = 1e-6


def report_corr(ctx, what, rep):
    """correspondence disagreement (no failing input by itself): at most 5 replay files per run, so that
    the concrete E2 verdicts of the same run are never crowded out of the report cap"""
    ctx.count("correspondence_reports", "total")
    if ctx.engines["correspondence_reports"]["total"] <= 5:
        ctx.report(what, rep, concrete=False)


def describe(kw):
    G = kw["G"]
    d = {k: v for k, v in kw.items() if k not in ("G", "weight_type")}
    d["nodes"] = [[v, dict(dd)] for v, dd in G.nodes(data=True)]
    d["edges"] = [[u, v, dict(dd)] for u, v, dd in G.edges(data=True)]
    d["weight_type"] = kw["weight_type"].__name__
    d["error_scaling"] = [[k, v] for k, v in kw.get("error_scaling", {}).items()]
    return d


def undescribe(d):
    G = nx.DiGraph()
    for v, dd in d["nodes"]:
        G.add_node(v, **dd)
    for u, v, dd in d["edges"]:
        G.add_edge(u, v, **dd)
    kw = {k: v for k, v in d.items() if k not in ("nodes", "edges")}
    kw["G"] = G
    kw["weight_type"] = int if d["weight_type"] == "int" else float
    tup = (lambda x: tuple(x) if isinstance(x, list) else x)
    kw["elements_to_ignore"] = [tup(x) for x in d.get("elements_to_ignore", [])]
    kw["error_scaling"] = {tup(k): v for k, v in d.get("error_scaling", [])}
    return kw


def run_mef(kw):
    """construct + solve with LP capture of every optimize() call"""
    import flowpaths as fp
    caps = []
    box = {}

    def hook(s):
        m = box["m"]
        ids = e1misc.mef_ids(m)
        cap = {"impl": lpdump.dump_impl(s, e1misc.colkey_mef(s, ids)), "ids": ids}
        if caps:       # second model: what the code derived from the first optimum
            sub = list(m.original_graph_copy.edges())
            cap["subset"] = sub
            # the first-stage optimum as the code itself read it from the solver (independent of the _solution cache)
            cap["opt"] = e1misc.OBJLOG[-1] if e1misc.OBJLOG else None
            # be46679: the number of value slots = number of distinct values of the first solution itself (edge_sol)
            cap["nvals"] = len(set(m.edge_sol[(u, v)] for (u, v) in sub))
        caps.append(cap)
        lpdump.reset()
    lpdump.reset()
    del e1misc.OBJLOG[:]
    m = fp.MinErrorFlow(solver_options=dict(SO), **kw)
    box["m"] = m
    e1misc.HOOK[0] = hook
    try:
        ok = m.solve()
    finally:
        e1misc.HOOK[0] = None
    return m, ok, caps


def e1_compare(ctx, m, caps, rep):
    reqs = []
    for j, cap in enumerate(caps):
        if j == 0:
            reqs.append(e1misc.mef_request(m, cap["ids"]))
        else:
            reqs.append(e1misc.mef2_request(m, cap["ids"], cap["subset"], m.different_flow_values_epsilon, cap["opt"], cap["nvals"]))
    outs = ctx.model.run(reqs, multiline=True)
    for j, (cap, out) in enumerate(zip(caps, outs)):
        eng = "E1_MinErrorFlow_LP" if j == 0 else "E1_MinErrorFlow_fewvalues_LP"
        model = lpdump.parse_model(out)
        impl = cap["impl"]
        if j == 1:
            # the budget (1+eps)*opt is computed in doubles by the code and exactly by the model: compare that
            # single right-hand side with a relative tolerance, everything else exactly
            bi = [r for r in impl["rows"] if is_budget_row(r)]
            bm = [r for r in model["rows"] if is_budget_row(r)]
            if len(bi) == 1 and len(bm) == 1 and bi[0][0] == bm[0][0] and bi[0][1] is None and bm[0][1] is None \
                    and abs(float(bi[0][2]) - float(bm[0][2])) <= 1e-9 * max(1.0, abs(float(bm[0][2]))):
                impl = dict(impl, rows=sorted([r for r in impl["rows"] if not is_budget_row(r)] + bm, key=repr))
        d = lpdump.diff(impl, model) if "error" not in model["extra"] else ["model: " + model["extra"]["error"]]
        # cross-check by the extracted verified checker (for the second model: with the budget right-hand side the code computed
        # in doubles replaced by the exact product when they agree to 1e-9, as above)
        d = e1misc.decide(ctx, eng, impl, reqs[j], d)
        ctx.count(eng, "cases"); ctx.count(eng, "rows_compared", len(impl["rows"])); ctx.count(eng, "cols_compared", len(impl["cols"]))
        if d:
            ctx.count(eng, "disagreements")
            report_corr(ctx, f"E1 correspondence broken: LP #{j + 1} of MinErrorFlow differs from MiscEnc.{'encode_mef' if j == 0 else 'encode_mef2'}: " + "; ".join(d[:3]),
                        dict(rep, diff=d))
        else:
            ctx.count(eng, "agreements")


def is_budget_row(r):
    """the epsilon row: an upper-bounded row that contains error variables with positive coefficients only
    (besides source-edge flow variables of the sparsity term), no value-map variables, and is not an |f-x| row"""
    t, lo, hi = r
    if lo is not None or hi is None or not t:
        return False
    fams = {v[0] for v, _ in t}
    if not fams <= {5, 16} or 5 not in fams:
        return False
    return all(c > 0 for v, c in t)


def semantic_view(m, kw):
    """the graph on which the flow lives, the values before/after, the charged edges and node types.
    edge mode: the caller's graph; node mode: the expanded graph (internal edge solution)."""
    node_mode = kw.get("flow_attr_origin", "edge") == "node"
    GI = m.G_internal
    starts = kw.get("additional_starts", []); ends = kw.get("additional_ends", [])
    if node_mode:
        starts = [s + ".0" for s in starts]; ends = [t + ".1" for t in ends]
        ignore = set(GI.edges_to_ignore) | {(v + ".0", v + ".1") for v in kw.get("elements_to_ignore", [])}
        scale = {(v + ".0", v + ".1"): s for v, s in kw.get("error_scaling", {}).items()}
    else:
        ignore = set(kw.get("elements_to_ignore", []))
        scale = dict(kw.get("error_scaling", {}))
    ignore |= {e for e, s in scale.items() if s == 0}
    acyclic = nx.is_directed_acyclic_graph(GI)
    types = props.flow_node_types(GI, starts, ends, acyclic)
    f = {(u, v): d["flow"] for u, v, d in GI.edges(data=True) if "flow" in d}
    charged = [e for e in GI.edges() if e in f and e not in ignore]
    return GI, f, charged, scale, types, acyclic, ignore


def check_answer(ctx, kw, info, m, rep, snapshot):
    G = kw["G"]; is_int = kw["weight_type"] == int
    node_mode = kw.get("flow_attr_origin", "edge") == "node"
    sol = m.get_solution()
    H = sol["graph"]
    rep = dict(rep, solution={"error": sol["error"], "objective_value": sol["objective_value"],
                              "graph": [[u, v, dict(d)] for u, v, d in H.edges(data=True)] if not node_mode else [[v, dict(d)] for v, d in H.nodes(data=True)]})
    # ---- same graph
    if list(H.nodes()) != list(G.nodes()) or list(H.edges()) != list(G.edges()):
        ctx.report("corrected graph has different nodes/edges than the input graph", rep); return False
    if H is G:
        ctx.report("corrected graph is the caller's graph object, not a copy", rep); return False
    if snapshot != describe(kw):
        ctx.report("the caller's graph / arguments were modified", rep); return False
    for u, v, d in G.edges(data=True):
        for a, val in d.items():
            if not (a == "flow" and not node_mode) and H[u][v].get(a) != val:
                ctx.report(f"edge attribute {a!r} of {(u, v)} changed in the corrected graph", rep); return False
    for v, d in G.nodes(data=True):
        for a, val in d.items():
            if not (a == "flow" and node_mode) and H.nodes[v].get(a) != val:
                ctx.report(f"node attribute {a!r} of {v!r} changed in the corrected graph", rep); return False
        if node_mode and ("flow" in d) != ("flow" in H.nodes[v]):
            ctx.report(f"node {v!r}: attribute presence changed", rep); return False
    GI, f, charged, scale, types, acyclic, ignore = semantic_view(m, kw)
    # ---- values
    x = {}
    for e in GI.edges():
        if node_mode:
            x[e] = m.edge_sol[e]
            if e[0].endswith(".0") and e[1].endswith(".1") and e[0][:-2] == e[1][:-2] and "flow" in H.nodes[e[0][:-2]]:
                if H.nodes[e[0][:-2]]["flow"] != x[e]:
                    ctx.report(f"node {e[0][:-2]!r}: returned value differs from the internal solution", rep); return False
        else:
            u, v = e
            if "flow" in G[u][v]:
                if "flow" not in H[u][v]:
                    ctx.report(f"edge {e} lost its flow attribute", rep); return False
                x[e] = H[u][v]["flow"]
            else:
                if "flow" in H[u][v]:
                    ctx.report(f"edge {e} gained a flow attribute", rep); return False
                x[e] = m.edge_sol[e]
    if is_int and not all(isinstance(v, int) for v in x.values()):
        ctx.report("weight_type=int but a corrected value is not an int", rep); return False
    why = props.is_flow(GI, x, types, tol=0 if is_int else TOL)
    if why:
        ctx.report("corrected graph is not a flow: " + why, rep); return False
    ctx.count("E2_is_flow", "ok")
    # ---- reported numbers
    err = props.flow_cost(GI, x, f, charged, scale, types, 0, scaled=False)
    lam = kw.get("sparsity_lambda", 0) if acyclic else 0
    obj = props.flow_cost(GI, x, f, charged, scale, types, lam if lam > 0 else 0, scaled=True)
    reported_ok = True
    for fld in ("error", "objective_value"):
        if isinstance(sol.get(fld), bool) or not isinstance(sol.get(fld), (int, float)):
            ctx.report(f"get_solution()[{fld!r}] is {sol.get(fld)!r}, not a number", rep); reported_ok = False
    epsnote = " (few_flow_values_epsilon > 0: the reported value must be the one recomputed from the returned graph)" if kw.get("few_flow_values_epsilon") else ""
    if reported_ok and abs(err - sol["error"]) > TOL:
        ctx.report(f"reported error {sol['error']} differs from the sum of |f - x| over the charged edges recomputed from the corrected graph, {err}" + epsnote, rep)
        reported_ok = False
    if reported_ok and abs(obj - sol["objective_value"]) > TOL:
        ctx.report(f"reported objective {sol['objective_value']} differs from the scaled error (+ sparsity term) recomputed from the corrected graph, {obj}" + epsnote, rep)
        reported_ok = False
    if reported_ok and (m.get_objective_value() != sol["error"] or m.get_corrected_graph() is not H):
        ctx.report("get_objective_value()/get_corrected_graph() disagree with get_solution()", rep); reported_ok = False
    ctx.count("E2_reported_error", "ok" if reported_ok else "mismatch")
    # ---- optimality (exhaustive over integer flows)
    sc = F(info["scale"])
    fi = {e: F(v) / sc for e, v in f.items()}
    if all(v.denominator == 1 for v in fi.values()) and sum(fi[e] for e in charged) <= 24 and GI.number_of_edges() <= (9 if node_mode else 7):
        fi = {e: int(v) for e, v in fi.items()}
        sq = {e: F(s) for e, s in scale.items()}
        best = props.min_l1_flow(GI, fi, charged, sq, types, F(lam) / 1 if lam > 0 else 0)
        # lambda multiplies flow (scaled values), the error is scaled too: cost(scaled) = sc * cost(int)
        if best is None:
            ctx.count("E2_optimality", "budget_exhausted")
        else:
            opt = float(best[0] * sc)
            eps = kw.get("few_flow_values_epsilon") or 0
            if obj < opt - TOL:
                ctx.report(f"returned flow has cost {obj}, below the exhaustive minimum {opt}: the oracle's bound is wrong?", dict(rep, oracle=str(best)), concrete=False)
                return False
            if obj > (1 + eps) * opt + TOL:
                ctx.report(f"returned flow has cost {obj}; an integer flow of cost {opt} exists (allowed factor 1+{eps}): {best[1]}",
                           dict(rep, oracle={str(k): v for k, v in best[1].items()})); return False
            ctx.count("E2_optimality", "minimum_confirmed" if not eps else "within_1_plus_eps")
    else:
        ctx.count("E2_optimality", "skipped_too_large")
    return True


def one_case(ctx, kw, info, rep, count=True):
    snapshot = describe(kw)
    node_mode = kw.get("flow_attr_origin", "edge") == "node"
    try:
        m, ok, caps = run_mef(kw)
    except KeyError as e:
        if node_mode and kw.get("few_flow_values_epsilon"):
            ctx.report("MinErrorFlow(flow_attr_origin='node', few_flow_values_epsilon>0).solve() raises KeyError: the edge subset of the "
                       "expanded graph is looked up in the condensed corrected graph", rep, key="mef_few_values_node_mode_keyerror")
            return None
        ctx.report("MinErrorFlow raised " + repr(e), rep); return None
    except ValueError as e:
        # every generated instance is inside the documented domain (edges without the attribute are ignored)
        ctx.report("MinErrorFlow rejects a valid instance with ValueError: " + str(e), rep); return None
    except Exception as e:
        ctx.report("MinErrorFlow raised " + repr(e), rep); return None
    try:
        e1_compare(ctx, m, caps, rep)
    except Exception as e:
        ctx.report("the E1 clause could not be evaluated on this instance: " + repr(e), dict(rep, traceback=traceback.format_exc()[-1500:]))
    # premises of the full optimality theorem, decided by the extracted verified check MefChecked.mef_domain_b
    # (Props/C16.v C16_optimal_solution_is_closest_flow_checked) on the instance the model object holds
    dom = ctx.model.run(["mefdom " + common.toks(e1misc.mef_tokens(m, caps[0]["ids"]))])[0].strip() if caps else "?"
    ctx.count("theorem_premises", "premises_checked")
    if dom != "1":
        ctx.count("theorem_premises", "premises_failed")
        ctx.report("the instance is outside the premises of C16_optimal_solution_is_closest_flow_checked (mef_domain_b = %s): duplicate edge, "
                   "negative or (for int) non-integral weight, or negative scaling" % dom, rep, concrete=False)
    if not ok:
        st = m.solve_statistics.get('milp_solver_status')
        if st == "kInfeasible":
            # is the model infeasible, or did the solver's presolve answer wrongly?  (HiGHS 1.15.1 reports some feasible
            # few-values models infeasible; with presolve off the same model is solved.)  The latter violates the solver
            # specification every property is stated relative to; it is counted, not blamed on flowpaths.
            try:
                again = lpdump.infeasible_without_presolve(m.solver)
            except Exception as e:
                again = f"recheck failed: {e!r}"
            if again == "Optimal":
                ctx.count("solver_specification", "kInfeasible_from_presolve_on_a_feasible_model"); return m
            rep = dict(rep, status_without_presolve=again)
        ctx.report(f"MinErrorFlow not solved (status {st}); the zero flow is always feasible", rep)
        return m
    if len(caps) == 2 and m._solution is not None:
        x2 = m.solver.get_values(m.edge_vars)
        first = m._solution["graph"]
        differs = any(abs(x2[e] - (first[e[0]][e[1]].get("flow", x2[e]) if not node_mode else x2[e])) > TOL for e in x2 if first.has_edge(*e)) if not node_mode else False
        ctx.report("few_flow_values_epsilon: get_solution() returns the solution cached from the FIRST model (the hack in solve() fills _solution); "
                   "the second model's values are never returned" + (" (they differ here)" if differs else ""), rep,
                   key="mef_few_values_result_discarded")
    try:
        check_answer(ctx, kw, info, m, rep, snapshot)
    except Exception as e:
        ctx.report("the E2 clauses could not be evaluated on the answer for this instance (malformed solution?): " + repr(e),
                   dict(rep, traceback=traceback.format_exc()[-1500:]))
    return m


def bottleneck_family(ctx):
    """Deterministic family (run on every call): k in-edges of weight w into v, the bottleneck (v, x) of weight w, k out-edges
    of weight w out of x.  The closest flow RAISES the bottleneck to k*w (cost (k-1)*w); lowering the 2k outer edges costs
    2(k-1)w.  So the best correction changes one edge by more than the largest weight.  The returned flow is compared with the
    explicit witness flow (any valid flow's cost is an upper bound of the optimum).  DAG and cyclic variants, int and float."""
    for k in (2, 3, 4):
        for w in (5, 2.5, 3):
            for cyclic in (False, True):
                for ign_outer in (False, True):
                    is_int = isinstance(w, int)
                    G = nx.DiGraph(); wit = {}
                    for i in range(k):
                        G.add_edge(f"a{i}", "v", flow=w); wit[(f"a{i}", "v")] = w
                    G.add_edge("v", "x", flow=w); wit[("v", "x")] = k * w
                    for i in range(k):
                        G.add_edge("x", f"b{i}", flow=w); wit[("x", f"b{i}")] = w
                    if cyclic:
                        G.add_edge("b0", "a0", flow=w); wit[("b0", "a0")] = w
                    kw = dict(G=G, flow_attr="flow", flow_attr_origin="edge", weight_type=int if is_int else float,
                              elements_to_ignore=[("a0", "v")] if ign_outer else [], error_scaling={})
                    info = {"scale": 1 if is_int else (0.5 if w == 2.5 else 1), "acyclic": not cyclic, "is_int": is_int}
                    rep = {"class": "MinErrorFlow", "args": describe(kw), "scale": str(info["scale"]), "family": "bottleneck"}
                    ctx.dist("bottleneck " + ("cyclic" if cyclic else "dag"))
                    m = one_case(ctx, kw, info, rep)
                    ctx.case(["bottleneck", describe(kw)], nontrivial=True)
                    if m is None or not m.is_solved():
                        continue
                    GI, f, charged, scale, types, acyclic, ignore = semantic_view(m, kw)
                    if props.is_flow(GI, wit, types, tol=0) is not None:
                        ctx.report("harness: the bottleneck witness is not a flow", rep, concrete=False); continue
                    wcost = props.flow_cost(GI, wit, f, charged, scale, types, 0, scaled=True)
                    H = m.get_solution()["graph"]
                    x = {e: H[e[0]][e[1]]["flow"] for e in GI.edges()}
                    cost = props.flow_cost(GI, x, f, charged, scale, types, 0, scaled=True)
                    ctx.count("E2_bottleneck_witness", "cases")
                    if cost > wcost + TOL:
                        ctx.report(f"returned flow changes the weights by {cost} in total; the flow that raises the bottleneck (v,x) to {k * w} "
                                   f"changes them by {wcost} only (a correction may exceed the largest weight)",
                                   dict(rep, returned={str(e): v for e, v in x.items()}, witness={str(e): v for e, v in wit.items()}))
                    else:
                        ctx.count("E2_bottleneck_witness", "not_worse_than_witness")


def node_starts_ends_family(ctx):
    """Deterministic family (run on every call): node-weighted chains/diamonds with an INTERNAL additional end (start): the flow
    may end after (start before) passing through that node, so a(10) -> b(10) -> c(2) with additional_ends=['b'] is already a
    flow (distance 0).  DAG and cyclic variants (on cyclic graphs the additional nodes are documented not to apply), int/float."""
    for big, small in ((10, 2), (6, 1), (2.5, 0.5)):
        for which in ("end", "start", "both"):
            for shape in ("chain", "diamond", "cycle"):
                is_int = isinstance(big, int)
                G = nx.DiGraph()
                if which == "start":
                    vals = {"a": small, "b": big, "c": big}
                elif which == "end":
                    vals = {"a": big, "b": big, "c": small}
                else:
                    vals = {"a": small, "b": big, "c": small}
                for v, x in vals.items():
                    G.add_node(v, flow=x)
                G.add_edge("a", "b"); G.add_edge("b", "c")
                if shape == "diamond":
                    G.add_node("d", flow=small); G.add_edge("a", "d"); G.add_edge("d", "c")
                if shape == "cycle":
                    G.add_edge("c", "b")
                kw = dict(G=G, flow_attr="flow", flow_attr_origin="node", weight_type=int if is_int else float,
                          elements_to_ignore=[], error_scaling={},
                          additional_starts=["b"] if which in ("start", "both") else [],
                          additional_ends=["b"] if which in ("end", "both") else [])
                info = {"scale": 1 if is_int else 0.5, "acyclic": shape != "cycle", "is_int": is_int}
                rep = {"class": "MinErrorFlow", "args": describe(kw), "scale": str(info["scale"]), "family": "node additional starts/ends"}
                ctx.dist("node-starts/ends family " + shape)
                one_case(ctx, kw, info, rep)
                ctx.case(["node-starts-ends", describe(kw)], nontrivial=True)


def run(ctx):
    e1misc.install()
    ctx.rule = ("MinErrorFlow on random DAGs (<= 5 nodes) and cyclic digraphs (<= 6 nodes) with <= 6 edges, values 0..6 (int) or dyadic floats, "
                "edges without the attribute (ignored), ignore lists, error scalings {0, 1/4, 1/2, 1}, additional starts/ends, sparsity lambda (DAGs), "
                "few_flow_values_epsilon {0, 1/4, 1/2, 1, 2}; every 4th case node-weighted; node-weighted instances with additional starts/ends (random and a deterministic chain/diamond/cycle family with an internal additional start/end); plus the deterministic bottleneck family (k in-edges, one bottleneck, k out-edges; optimum raises the bottleneck above the largest weight) compared with its explicit witness flow; non-trivial = >= 1 conservation row and >= 1 charged edge")
    bottleneck_family(ctx)
    node_starts_ends_family(ctx)
    n = ctx.budget(700, 10000)
    for i in range(n):
        rng = ctx.rng("mef", i)
        kw, info = gen2.rand_mef(rng, node_mode=(i % 4 == 3))
        rep = {"class": "MinErrorFlow", "args": describe(kw), "scale": str(info["scale"])}
        ctx.dist(("node " if i % 4 == 3 else "edge ") + ("dag" if info["acyclic"] else "cyclic") + (" eps" if kw.get("few_flow_values_epsilon") else "")
                 + (" lambda" if kw.get("sparsity_lambda") else "") + (" starts/ends" if kw.get("additional_starts") or kw.get("additional_ends") else ""))
        m = one_case(ctx, kw, info, rep)
        nontriv = False
        if m is not None:
            GI = m.G
            nontriv = any(GI.in_degree(v) > 0 and GI.out_degree(v) > 0 for v in GI.nodes()) and \
                any(e not in m.edges_to_ignore for e in GI.edges())
        ctx.case(describe(kw), nontrivial=nontriv, sample=describe(kw) if i < 4 else None)
    import gencheck_misc; gencheck_misc.run_generated_c16(ctx)   # generated-model tie: MinErrorFlow._encode_flow / objective regenerated from source (coq/gen_proofs/EncMef*.v)


def replay(ctx, body):
    e1misc.install()
    kw = undescribe(body["args"])
    info = {"scale": F(body.get("scale", "1")), "acyclic": nx.is_directed_acyclic_graph(kw["G"])}
    before = len(ctx.violations) + sum(ctx.engines.get("known_findings", {}).values())
    one_case(ctx, kw, info, {"class": "MinErrorFlow", "args": describe(kw)})
    return len(ctx.violations) + sum(ctx.engines.get("known_findings", {}).values()) > before
