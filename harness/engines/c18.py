"""C18 — a model's result depends only on its own arguments; caller data is never mutated.

E4 histories: random sequences of constructions / solves over all exported model classes (the 13 graph model classes,
MinGenSet, MinSetCover, NumPathsOptimization) that SHARE their argument objects: graph, optimization_options,
solver_options, constraint list, elements_to_ignore, error_scaling (incl. factor 0), additional starts/ends, in edge and in
node mode; every argument is either passed (the shared object) or OMITTED (the class's shared mutable default).
Before and after every step deep snapshots of all shared objects, of the default-argument objects of every function of every
flowpaths class, of the data attributes of those classes and of the mutable module-level objects are compared (the property,
evaluated directly) and the keys of optimization_options are compared with the heap of Effects.v.  The last construction
is repeated with fresh copies of the initial argument values and must give the same solved status / objective /
solution (corrected graph); every getter is called three times."""
import copy, json, sys, types
import networkx as nx
import common, gen
from engines import c19_inputs as ci

LEVEL = "proof"
EXPLANATION = ("Theorems of Props/C18.v are about Effects.step/run: a hand-written effect summary per class of the current code (how "
               "optimization_options is held; everything else is copied or read). Proved at full strength: frame for every class and argument "
               "vector, history independence over arbitrary operation lists, idempotent getters; for any summary of this shape only "
               "optimization_options can be touched and caller keys survive; old_* theorems refute frame / history independence for the "
               "summary of the code before 5ed9792 (DESIGN #16). Thin tie: this engine replays histories and compares snapshots; the 'every "
               "other parameter is copied or only read' half of the summaries is checked ONLY by these snapshots (shared objects, default "
               "objects, class attributes, module-level mutables) and by the fresh-argument repetition.")
ASSUMPTIONS = ["deep snapshots: copy.deepcopy + == on graph nodes/edges/attribute dicts, dicts, lists; on __defaults__/__kwdefaults__ of every "
               "function of every class defined in a flowpaths module; on the data attributes of those classes; on module-level dict/list/set objects",
               "HiGHS with threads=1 is deterministic for identical models (used when the last construction is repeated with fresh arguments)"]
TRUSTED = ["model: coq/theories/Effects.v; proofs EffectsProofs.v"]

KINDS = ("dag", "cyc", "dag2")
GRAPH_MODELS = ci.DAG_CLASSES + ci.CYC_CLASSES + ["MinErrorFlow"]
OTHER = ["MinGenSet", "MinSetCover", "NumPathsOptimization"]
EXT_KEY = "external_safe_paths"
EXT_FINDING = "AbstractPathModelDAG:extends-caller-list:external_safe_paths"
CLASS_OPTIONS = ["use_subgraph_scanning_lowerbound", "use_min_gen_set_lowerbound", "optimize_with_guessed_weights",
                 "optimize_with_safe_sequences_fix_via_bounds",
                 "use_min_gen_set_lowerbound_partition_constraints"]      # valid non-default options of MinFlowDecomp(Cycles) / the walk models
CLASS_OPTIONS_OFF = ["use_subgraph_scanning_weights_in_given_weights_optimization"]      # default True: drawn as False
LB_OPTIONS = ["use_min_gen_set_lowerbound", "use_min_gen_set_lowerbound_partition_constraints", "use_subgraph_scanning_lowerbound"]
KEYCODE = {"given_weights": 106, "use_subgraph_scanning_lowerbound": 102, "use_min_gen_set_lowerbound": 103, "optimize_with_guessed_weights": 104,
           "optimize_with_safe_sequences_fix_via_bounds": 105, "use_min_gen_set_lowerbound_partition_constraints": 107,
           "use_subgraph_scanning_weights_in_given_weights_optimization": 108, "external_safe_paths": 101, "trusted_edges_for_safety": 0, "allow_empty_paths": 1, "optimize_with_safe_paths": 2, "optimize_with_safe_sequences": 3,
           "optimize_with_safe_zero_edges": 4, "optimize_with_subpath_constraints_as_safe_sequences": 5,
           "optimize_with_safety_as_subpath_constraints": 6, "verif_user_key": 100}
ALIASING = {"kLeastAbsErrors", "kMinPathError", "kFlowDecompCycles", "kLeastAbsErrorsCycles", "kMinPathErrorCycles", "MinFlowDecompCycles"}
HAS_SCALING = {"kLeastAbsErrors", "kMinPathError", "kLeastAbsErrorsCycles", "kMinPathErrorCycles", "MinErrorFlow"}
HAS_STARTS_EDGE = {"kMinPathError", "kLeastAbsErrors", "kPathCover", "MinPathCover", "kLeastAbsErrorsCycles", "kMinPathErrorCycles",
                   "kPathCoverCycles", "MinPathCoverCycles", "MinErrorFlow"}
NODE_MODE_OK = set(GRAPH_MODELS)


# ------------------------------------------------------------------------------------------ global (non-argument) state
def _flowpaths_objects():
    """references to everything a construction could touch besides its arguments: (label, getter)"""
    import flowpaths
    out = []
    for mname, mod in sorted(sys.modules.items()):
        if not (mname == "flowpaths" or mname.startswith("flowpaths.")) or mod is None:
            continue
        for gname, val in sorted(vars(mod).items()):
            if gname.startswith("__"):
                continue
            if isinstance(val, (dict, list, set)):
                out.append(("%s.%s" % (mname, gname), val))
            elif isinstance(val, type) and getattr(val, "__module__", "") == mname:
                for aname, attr in sorted(vars(val).items()):
                    f = attr.__func__ if isinstance(attr, (staticmethod, classmethod)) else attr
                    if isinstance(f, types.FunctionType):
                        out.append(("%s.%s.%s.__defaults__" % (mname, gname, aname), (f, "d")))
                    elif not aname.startswith("__") and not callable(attr) and not isinstance(attr, property):
                        out.append(("%s.%s.%s" % (mname, gname, aname), (val, aname)))
            elif isinstance(val, types.FunctionType) and getattr(val, "__module__", "") == mname:
                out.append(("%s.%s.__defaults__" % (mname, gname), (val, "d")))
    return out


_OBJS = None


def global_snapshot():
    global _OBJS
    if _OBJS is None:
        import flowpaths  # noqa
        _OBJS = _flowpaths_objects()
    snap = {}
    for label, ref in _OBJS:
        try:
            if isinstance(ref, tuple) and ref[1] == "d":
                snap[label] = copy.deepcopy((ref[0].__defaults__, ref[0].__kwdefaults__))
            elif isinstance(ref, tuple):
                snap[label] = copy.deepcopy(getattr(ref[0], ref[1], None))
            else:
                snap[label] = copy.deepcopy(ref)
        except Exception:
            snap[label] = "<uncopyable>"
    return snap


def graph_snapshot(G):
    return (list(G.nodes(data=True)), list(G.edges(data=True)), dict(G.graph))


# ------------------------------------------------------------------------------------------ the caller's objects
class Shared:
    """the caller's objects of one history"""
    def __init__(self, rng, lb_focus=False):
        self.lb_focus = lb_focus; self.extra = []
        sd = ci.gen_valid(rng, "kFlowDecomp"); sd["origin"] = "edge"; sd["node_w"] = {}
        sc = ci.gen_valid(rng, "kFlowDecompCycles"); sc["origin"] = "edge"; sc["node_w"] = {}
        self.G = {"dag": ci.build_graph(sd), "cyc": ci.build_graph(sc)}
        # a second DAG of width 1 (a single path), so that models of one history run on graphs of different width
        P = nx.DiGraph(); names = ["p%d" % j for j in range(rng.randint(3, 5))]; w = rng.randint(2, 7)
        for u, v in zip(names, names[1:]):
            P.add_edge(u, v, flow=w)
        self.G["dag2"] = P
        self.cons = {}; self.ign = {}; self.scal = {}; self.starts = {}; self.ends = {}; self.flowless = {}
        for kind in KINDS:
            G = self.G[kind]
            for v in G.nodes():                     # node weights under the same attribute name: node mode shares the graph object
                G.nodes[v]["flow"] = max(sum(d.get("flow", 0) for _, _, d in G.in_edges(v, data=True)),
                                         sum(d.get("flow", 0) for _, _, d in G.out_edges(v, data=True)))
            es = list(G.edges()); ns = list(G.nodes())
            # edges WITHOUT a flow value that leave a source / enter a sink (the caller does not know their flow and lists them in
            # elements_to_ignore): every class accepts them; a model must not fill in the missing attribute
            self.flowless[kind] = []
            if kind != "dag2" and (lb_focus or rng.random() < 0.4):
                srcs = [v for v in ns if G.in_degree(v) == 0]; snks = [v for v in ns if G.out_degree(v) == 0]
                cand = []
                for a in srcs:
                    cand += [(a, b) for b in ns if b not in srcs and not G.has_edge(a, b)] + [(a, "zz_nf_%s" % kind)]
                cand2 = []
                for b in snks:
                    cand2 += [(a, b) for a in ns if a not in snks and not G.has_edge(a, b)] + [("zz_nfs_%s" % kind, b)]
                picks = ([rng.choice(cand)] if cand and (lb_focus or rng.random() < 0.7) else []) + ([rng.choice(cand2)] if cand2 and rng.random() < 0.5 else [])
                for (a, b) in picks:
                    if not G.has_edge(a, b) and a != b:
                        G.add_edge(a, b)
                        if kind == "dag" and not nx.is_directed_acyclic_graph(G):
                            G.remove_edge(a, b); continue
                        self.flowless[kind].append((a, b))
                for v in G.nodes():
                    G.nodes[v].setdefault("flow", 0)
            self.cons[kind] = {"edge": ([[es[rng.randrange(len(es))]]] if rng.random() < 0.6 else []),
                               "node": ([[ns[rng.randrange(len(ns))]]] if rng.random() < 0.6 else [])}
            self.ign[kind] = {"edge": list(self.flowless[kind]) + ([es[0]] if rng.random() < (0.0 if (lb_focus and self.flowless[kind]) else 0.3) else []),
                              "node": ([ns[0]] if rng.random() < 0.3 else [])}
            # at most one element gets factor 0, a different one than the ignored element, and only if something stays live
            # (all elements ignored is the OverflowError region of DESIGN #24)
            ze = es[1] if len(es) >= 3 else None; zn = ns[1] if len(ns) >= 3 else None
            self.scal[kind] = {"edge": dict(([(ze, 0)] if ze else []) + [(es[-1], rng.choice([0.5, 1]))]),
                               "node": dict(([(zn, 0)] if zn else []) + [(ns[-1], rng.choice([0.5, 1]))])}
            self.starts[kind] = [ns[rng.randrange(len(ns))]]; self.ends[kind] = [ns[rng.randrange(len(ns))]]
        # the given weights: ONE caller-owned list per graph, unsorted, with repeats, shared by all models of the history
        self.sup = {}
        rw = {"dag": list(sd.get("route_weights", [1])), "cyc": list(sc.get("route_weights", [1])), "dag2": [w]}
        for kind in KINDS:
            vals = rw[kind] + [rng.choice(rw[kind])] + [d["flow"] for _, _, d in list(self.G[kind].edges(data=True))[:2] if "flow" in d] + [1]
            rng.shuffle(vals)
            if vals == sorted(vals) or vals == sorted(vals, reverse=True):
                vals = vals[1:] + vals[:1] if len(set(vals)) > 1 else vals
            self.sup[kind] = vals
        self.opts = {"verif_user_key": 1} if rng.random() < 0.75 else {}
        if rng.random() < 0.25:
            # given_weights (kFlowDecompCycles): a caller-owned list INSIDE the options dict; it excludes the safe-sequence optimisation
            self.opts["given_weights"] = [rng.choice(rw["cyc"])]
            self.opts["optimize_with_safe_sequences"] = False
        # option VALUES owned by the caller: a list of safe paths (edge lists of the DAG; single non-ignored edges of a flow
        # decomposition are safe), and the switch that turns safe lists into constraints
        if rng.random() < 0.45:
            des = [e for e in self.G["dag"].edges() if e not in self.ign["dag"]["edge"]]
            self.opts["external_safe_paths"] = [[des[rng.randrange(len(des))]] for _ in range(rng.randint(1, 2))]
        if rng.random() < 0.3:
            self.opts["optimize_with_safety_as_subpath_constraints"] = True
        for name in CLASS_OPTIONS:
            if rng.random() < 0.3:
                self.opts[name] = True
        for name in CLASS_OPTIONS_OFF:
            if rng.random() < 0.2:
                self.opts[name] = False
        if lb_focus:                       # the non-default lower-bound options of MinFlowDecomp(Cycles)
            on = [n for n in LB_OPTIONS if rng.random() < 0.6] or [rng.choice(LB_OPTIONS)]
            if rng.random() < 0.7 and "use_min_gen_set_lowerbound" not in on:
                on.append("use_min_gen_set_lowerbound")
            for n in LB_OPTIONS:
                self.opts.pop(n, None)
            for n in on:
                self.opts[n] = True
        self.sopts = dict(ci.SOLVER_OPTIONS)
        self.k = {"dag": max(1, sd["k"] or 1), "cyc": max(1, sc["k"] or 1), "dag2": 1}
        nums = sorted({rng.randint(1, 9) for _ in range(4)})
        self.numbers = nums; self.total = sum(nums[:2]) if len(nums) > 1 else nums[0]
        self.universe = list(range(1, 7))
        self.subsets = [sorted(rng.sample(self.universe, rng.randint(1, 3))) for _ in range(4)] + [list(self.universe)]
        self.subset_weights = [rng.randint(1, 4) for _ in self.subsets]

    ARGS = ("cons", "ign", "scal", "starts", "ends", "sup", "opts", "sopts", "numbers", "universe", "subsets", "subset_weights")

    def snapshot(self, with_globals=True):
        s = {"G": {k: graph_snapshot(g) for k, g in self.G.items()}}
        for a in Shared.ARGS:
            s[a] = getattr(self, a)
        s["extra"] = [r.snapshot() for r in self.extra]
        s = copy.deepcopy(s)
        if with_globals:
            s["globals"] = global_snapshot()
        return s

    @staticmethod
    def fresh_from(sh, init):
        f = Shared.__new__(Shared)
        f.k = dict(sh.k); f.total = sh.total; f.flowless = copy.deepcopy(sh.flowless); f.extra = []; f.lb_focus = sh.lb_focus
        f.G = {}
        for kind in KINDS:
            H = nx.DiGraph(); nodes, edges, gattr = init["G"][kind]
            H.add_nodes_from(copy.deepcopy(nodes)); H.add_edges_from(copy.deepcopy(edges)); H.graph.update(copy.deepcopy(gattr)); f.G[kind] = H
        for a in Shared.ARGS:
            setattr(f, a, copy.deepcopy(init[a]))
        return f


# ------------------------------------------------------------------------------------------ refused constructions
class Refusal:
    """caller objects of a construction that the class must refuse (one documented ValueError reason of C19 applied to a valid
    input): graph, constraint list, ignore list, starts / ends, given weights.  They join the history's shared objects."""
    def __init__(self, cls, viol, spec):
        self.cls = cls; self.viol = viol; self.spec = spec
        self.G = ci.build_graph(spec)
        self.cons = copy.deepcopy(spec["cons"]); self.ign = list(spec["ign"])
        self.starts = list(spec["starts"]); self.ends = list(spec["ends"])
        self.sup = list(spec["superset"]) if spec.get("superset") is not None else None

    def snapshot(self):
        return {"G": graph_snapshot(self.G), "cons": self.cons, "ign": self.ign, "starts": self.starts, "ends": self.ends, "sup": self.sup}

    def kwargs(self, sh, pass_opts):
        spec = self.spec; cls = self.cls
        kw = {"G": self.G, "solver_options": sh.sopts}
        if cls in ci.IS_COVER:
            kw["cover_type"] = spec["origin"]
        else:
            kw["flow_attr"] = "flow"; kw["flow_attr_origin"] = spec["origin"]; kw["weight_type"] = ci._wtype(spec)
        if cls in ci.HAS_K:
            kw["k"] = spec["k"]
        if cls in ci.HAS_SUPERSET and self.sup is not None:
            kw["solution_weights_superset"] = self.sup
        if pass_opts and cls != "MinErrorFlow":
            kw["optimization_options"] = sh.opts
        if cls in ci.HAS_CONS:
            if cls in ci.IS_CYC:
                kw["subset_constraints"] = self.cons; kw["subset_constraints_coverage"] = spec["cov"]
            else:
                kw["subpath_constraints"] = self.cons; kw["subpath_constraints_coverage"] = spec["cov"]
                if spec.get("cov_len") is not None:
                    kw["subpath_constraints_coverage_length"] = spec["cov_len"]
                if spec.get("len_attr"):
                    kw["length_attr"] = "len"
        kw["elements_to_ignore"] = self.ign
        if spec.get("ign_pct") is not None:
            kw["elements_to_ignore_percentile"] = spec["ign_pct"]
        if spec.get("trust_pct") is not None:
            kw["trusted_edges_for_safety_percentile"] = spec["trust_pct"]
        if cls != "kFlowDecomp":
            kw["additional_starts"] = self.starts; kw["additional_ends"] = self.ends
        return kw


def gen_refusal(rng, cls=None, node=None, viol=None):
    """a valid input of `cls` in the wanted mode with one violation kind of C19 applied; None if not applicable"""
    cls = cls or rng.choice(GRAPH_MODELS)
    node = (rng.random() < 0.5) if node is None else node
    spec = None
    for _ in range(40):
        try:
            s_ = ci.gen_valid(rng, cls)
        except RuntimeError:
            continue
        spec = s_
        if (s_["origin"] == "node") == node:
            break
    if spec is None or (spec["origin"] == "node") != node:
        return None
    vs = [viol] if viol else list(ci.violations_for(cls))
    if not viol:
        rng.shuffle(vs)
    for v in vs:
        s2 = copy.deepcopy(spec)
        try:
            ok = ci.VIOL[v](s2, rng)
        except Exception:
            ok = False
        if ok:
            return Refusal(cls, v, s2)
    return None


def run_refused(r, sh, pass_opts):
    """construct (and solve, if the constructor did not refuse) with the caller's own objects -> exception text or None"""
    import flowpaths as fp
    try:
        if r.cls == "stDAG":
            fp.stDAG(r.G, additional_starts=r.starts, additional_ends=r.ends); return None
        if r.cls == "stDiGraph":
            fp.stDiGraph(r.G, additional_starts=r.starts, additional_ends=r.ends); return None
        if r.cls == "NodeExpandedDiGraph":
            fp.NodeExpandedDiGraph(r.G, node_flow_attr="flow", try_filling_in_missing_flow_attr=bool(r.starts or r.ends),
                                   additional_starts=r.starts, additional_ends=r.ends); return None
        m = getattr(fp, r.cls)(**r.kwargs(sh, pass_opts))
        m.solve()
        m.is_solved()
        return None
    except Exception as e:
        return ci.exc_kind(e) + ": " + str(e)[:100]


def make_op(rng):
    cls = rng.choice(GRAPH_MODELS + GRAPH_MODELS + OTHER)
    op = {"cls": cls, "pass_opts": rng.random() < 0.7, "pass_sopts": rng.random() < 0.8, "pass_cons": rng.random() < 0.6,
          "pass_ign": rng.random() < 0.4, "pass_scal": rng.random() < 0.6, "pass_starts": rng.random() < 0.3,
          "node": rng.random() < 0.3, "sup": cls in ("kFlowDecomp", "kLeastAbsErrors", "kMinPathError") and rng.random() < 0.45,
          "solve": rng.random() < 0.8, "lb_only": rng.random() < 0.5, "narrow": rng.random() < 0.3,
          "inner": rng.choice(["kMinPathError", "kLeastAbsErrors"])}
    if cls == "MinErrorFlow":
        op["pass_scal"] = rng.random() < 0.8
    if cls == "MinSetCover":
        op["solve"] = True              # its is_solved() raises before solve() by design
    return op


def kwargs_for(op, sh):
    """argument vector of one construction; objects come from `sh` (shared) — omitted ones fall back to the class defaults"""
    import flowpaths as fp
    cls = op["cls"]
    if cls == "MinGenSet":
        kw = {"numbers": sh.numbers, "total": sh.total, "weight_type": int}
        if op["pass_sopts"]: kw["solver_options"] = sh.sopts
        return kw
    if cls == "MinSetCover":
        kw = {"universe": sh.universe, "subsets": sh.subsets, "subset_weights": sh.subset_weights}
        if op["pass_sopts"]: kw["solver_options"] = sh.sopts
        return kw
    gcls = op["inner"] if cls == "NumPathsOptimization" else cls
    kind = "cyc" if gcls in ci.CYC_CLASSES else ("dag2" if op["narrow"] else "dag")
    mode = "node" if (op["node"] and gcls in NODE_MODE_OK) else "edge"
    kw = {"G": sh.G[kind]}
    if gcls in ci.IS_COVER:
        if mode == "node": kw["cover_type"] = "node"
    else:
        kw["flow_attr"] = "flow"
        if mode == "node": kw["flow_attr_origin"] = "node"
    if gcls in ci.HAS_K and cls != "NumPathsOptimization":
        kw["k"] = sh.k[kind] + (1 if gcls not in ci.IS_FD else 0)
    # external_safe_paths names edges of the caller's DAG: it is only a valid option for edge-weighted DAG models
    op["pass_opts_eff"] = bool(op["pass_opts"] and gcls != "MinErrorFlow" and not (EXT_KEY in sh.opts and kind != "cyc" and (mode == "node" or kind == "dag2")))
    if op["pass_opts_eff"]:
        kw["optimization_options"] = sh.opts
    if op["pass_sopts"]:
        kw["solver_options"] = sh.sopts
    if op["pass_cons"] and gcls in ci.HAS_CONS:
        kw["subset_constraints" if gcls in ci.CYC_CLASSES else "subpath_constraints"] = sh.cons[kind][mode]
    if op["pass_ign"] or (mode == "edge" and sh.flowless.get(kind)):
        kw["elements_to_ignore"] = sh.ign[kind][mode]
    if op["pass_scal"] and gcls in HAS_SCALING:
        kw["error_scaling"] = sh.scal[kind][mode]
    if op["pass_starts"] and gcls in HAS_STARTS_EDGE and not (gcls == "MinErrorFlow" and kind == "cyc"):
        kw["additional_starts"] = sh.starts[kind]; kw["additional_ends"] = sh.ends[kind]
    if op["sup"]:
        kw["solution_weights_superset"] = sh.sup[kind]          # the shared list itself
    if cls == "NumPathsOptimization":
        kw.update({"model_type": getattr(fp, gcls), "stop_on_first_feasible": True, "min_num_paths": 1, "max_num_paths": 3})
    return kw


def canon(x):
    if isinstance(x, nx.Graph):
        return {"nodes": canon(sorted(x.nodes(data=True), key=str)), "edges": canon(sorted(x.edges(data=True), key=str))}
    if isinstance(x, dict):
        return {str(k): canon(v) for k, v in sorted(x.items(), key=lambda kv: str(kv[0]))}
    if isinstance(x, (list, tuple)):
        return [canon(v) for v in x]
    if isinstance(x, (set, frozenset)):
        return sorted((canon(v) for v in x), key=str)
    if isinstance(x, float):
        return round(x, 6)
    return x


LAST_MODEL = [None]


def read_getters(m):
    """what the getters of an already solved model say now"""
    out = {"solved": bool(m.is_solved()), "objective": None, "solution": None}
    if out["solved"]:
        out["solution"] = canon(copy.deepcopy(m.get_solution()))
        if hasattr(m, "get_objective_value"):
            out["objective"] = canon(m.get_objective_value())
    return out


def build_twin(op, kw):
    """the same construction once more, solved, but its getters are NOT called yet (they are read after later steps)"""
    import flowpaths as fp
    try:
        m = getattr(fp, op["cls"])(**kw)
        ret = m.solve()
        return m, (bool(ret) if isinstance(ret, bool) else None)      # what solve() itself reported; no getter is called
    except Exception:
        return None


def run_op(op, kw):
    """construct, solve, call every getter three times -> (result, getter_ok, exception)"""
    import flowpaths as fp
    res = {"solved": None, "objective": None, "solution": None}
    try:
        m = getattr(fp, op["cls"])(**kw)
        if op["solve"]:
            m.solve()
        elif op.get("lb_only") and hasattr(m, "get_lowerbound_k") and op["cls"] not in ("NumPathsOptimization",):
            m.get_lowerbound_k()            # constructed, asked for its lower bound, dropped without being solved
        s = [bool(m.is_solved()) for _ in range(3)]
        getter_ok = s[0] == s[1] == s[2]
        res["solved"] = s[0]
        if s[0]:
            sols = [canon(copy.deepcopy(m.get_solution())) for _ in range(3)]
            getter_ok &= sols[0] == sols[1] == sols[2]
            res["solution"] = sols[0]
            if hasattr(m, "get_objective_value"):
                objs = [m.get_objective_value() for _ in range(3)]
                getter_ok &= objs[0] == objs[1] == objs[2]
                res["objective"] = canon(objs[0])
            # the filtering variants of the getter: the unfiltered answer stays what it is, the default answer too
            import inspect
            try:
                par = [p_ for p_ in inspect.signature(m.get_solution).parameters if p_.startswith("remove_empty")]
            except (TypeError, ValueError):
                par = []
            if par:
                u1 = canon(copy.deepcopy(m.get_solution(**{par[0]: False}))); f1 = canon(copy.deepcopy(m.get_solution(**{par[0]: True})))
                u2 = canon(copy.deepcopy(m.get_solution(**{par[0]: False}))); d2 = canon(copy.deepcopy(m.get_solution()))
                drop = lambda d_: {k_: v_ for k_, v_ in d_.items() if not str(k_).startswith("_")}
                getter_ok &= drop(u1) == drop(u2) and drop(d2) == drop(sols[0])
        LAST_MODEL[0] = m
        return res, getter_ok, None
    except Exception as e:
        return res, True, ci.exc_kind(e) + ": " + str(e)[:100]


def diff_snap(a, b):
    out = [k for k in a if k not in ("G", "globals", "extra") and a[k] != b[k]]
    for j, (x, y) in enumerate(zip(a.get("extra", []), b.get("extra", []))):
        out += ["refused-construction objects #%d: %s" % (j, k) for k in x if x[k] != y[k]]
    out += ["G." + k for k in a["G"] if a["G"][k] != b["G"][k]]
    out += ["default/global " + k for k in a["globals"] if a["globals"][k] != b["globals"].get(k)]
    return out


def model_cls_id(op):
    """class whose optimization_options summary applies (NumPathsOptimization forwards its kwargs to the wrapped class;
    MinGenSet / MinSetCover take no such dict: sent as an operation that passes none)"""
    cls = op["cls"]
    if cls == "NumPathsOptimization":
        return ci.CLS_ID[op["inner"]], op.get("pass_opts_eff", False) and op["solve"]
    if cls in ("MinGenSet", "MinSetCover"):
        return ci.CLS_ID["MinErrorFlow"], False
    return ci.CLS_ID[cls], op.get("pass_opts_eff", False)


class _Mini:
    """the option dicts a caller shares with the refused constructions of the enumerated stream"""
    def __init__(self, rng):
        self.opts = {"verif_user_key": 1}
        for n in CLASS_OPTIONS:
            if rng.random() < 0.3:
                self.opts[n] = True
        self.sopts = dict(ci.SOLVER_OPTIONS)


def refused_stream(ctx):
    """every class x {edge, node mode} x every documented refusal reason: the construction (twice, with the same caller objects)
    must leave graph (attribute PRESENCE included), lists, dicts, default objects and module state as they were"""
    reps = ctx.budget(1, 5)
    for cls in ci.GRAPH_CLASSES + GRAPH_MODELS:
        for node in (False, True):
            for v in ci.violations_for(cls):
                for rep_ in range(reps):
                    rng = ctx.rng("refused:%s:%s:%s" % (cls, node, v), rep_)
                    r = gen_refusal(rng, cls, node, v)
                    if r is None:
                        continue
                    mini = _Mini(rng); po = rng.random() < 0.6
                    snap = lambda: copy.deepcopy({"objects": r.snapshot(), "optimization_options": mini.opts, "solver_options": mini.sopts, "globals": global_snapshot()})
                    s0 = snap(); excs = []; diffs = []
                    for attempt in range(2):
                        excs.append(run_refused(r, mini, po))
                        s1 = snap()
                        d = [k for k in ("optimization_options", "solver_options") if s0[k] != s1[k]] + \
                            [k for k in s0["objects"] if s0["objects"][k] != s1["objects"][k]] + \
                            ["default/global " + k for k in s0["globals"] if s0["globals"][k] != s1["globals"].get(k)]
                        diffs.append(d)
                    ctx.case([cls, node, v, repr(r.spec)], nontrivial=True,
                             sample={"class": cls, "mode": "node" if node else "edge", "violation": v, "raised": excs[0]})
                    ctx.count("refused_constructions", "enumerated cases")
                    ctx.count("refused_constructions", "raised " + excs[0].split(":")[0] if excs[0] else "not refused (accepted)")
                    if any(diffs):
                        what = sorted(set(diffs[0] + diffs[1]))
                        after = r.snapshot()
                        ctx.report("a refused construction of %s (%s mode, %s; it raised %s) left the caller's data changed: %s"
                                   % (cls, "node" if node else "edge", v, excs[0], what[:6]),
                                   {"kind": "refused", "class": cls, "mode": "node" if node else "edge", "violation": v, "input": repr(r.spec),
                                    "raised": excs, "changed": what, "graph_before": canon(s0["objects"]["G"]), "graph_after": canon(after["G"])}, concrete=True)


def run(ctx):
    refused_stream(ctx)
    ctx.rule = ("case = one refused construction of the enumerated stream (class x mode x documented refusal reason, attempted twice on the caller's objects) or "
                "one history: 3-7 constructions/solves of random classes (13 graph model classes in edge or node mode, MinGenSet, "
                "MinSetCover, NumPathsOptimization) sharing one DAG, one cyclic graph, one optimization_options dict (empty or with a user key), "
                "solver_options, constraint lists, ignore lists, error_scaling dicts (with factor 0), additional starts/ends, number / subset "
                "lists; each argument is passed or omitted (shared defaults); 0-2 refused constructions inserted as steps; 30% of the histories use the non-default "
                "lower-bound options of MinFlowDecomp(Cycles) on graphs with flow-less ignored edges at sources/sinks; non-trivial = at least two classes; "
                "distinct by the operation list")
    n_hist = ctx.budget(150, 3000)
    reqs = []; hists = []; hist_sh = {}
    # switch of the faithful model: the list-aliasing finding is open (summary of the code that keeps the caller's list) or fixed
    ext_open = ctx.open_finding(EXT_FINDING) is not None
    for i in range(n_hist):
        rng = ctx.rng("history", i)
        lb_focus = rng.random() < 0.3
        try:
            sh = Shared(rng, lb_focus)
        except RuntimeError:
            continue
        ops = [make_op(rng) for _ in range(rng.randint(3, 7))]
        if lb_focus:      # MinFlowDecomp(Cycles) in edge mode with the non-default lower-bound options and the flow-less ignored edges
            for j, c in zip(rng.sample(range(len(ops)), 2), (["MinFlowDecomp", rng.choice(["MinFlowDecomp", "MinFlowDecompCycles"])])):
                ops[j].update({"cls": c, "node": False, "pass_opts": True, "pass_ign": True, "solve": True, "narrow": False, "sup": False})
        ops[-1]["solve"] = True                  # the model whose result is compared with a fresh-argument run is solved
        if rng.random() < 0.5:                   # ... often right after a model that was only constructed / asked for its lower bound
            ops[-2]["solve"] = False; ops[-2]["pass_opts"] = True
            if rng.random() < 0.6:
                ops[-2]["cls"] = rng.choice(ci.CYC_CLASSES); ops[-2]["sup"] = False
                ops[-1]["cls"] = rng.choice([c for c in ci.CYC_CLASSES if c not in ("MinFlowDecompCycles",)]); ops[-1]["sup"] = False
        if rng.random() < 0.3 and len(ops) >= 3:   # two given-weights models on the same graph, sharing the weights list
            for o, c in ((ops[0], rng.choice(["kMinPathError", "kFlowDecomp", "kLeastAbsErrors"])), (ops[1], rng.choice(["kLeastAbsErrors", "kMinPathError"]))):
                o.update({"cls": c, "sup": True, "solve": True, "narrow": False, "node": False})
        for o in ops:
            if o["cls"] == "MinSetCover":
                o["solve"] = True                # its is_solved() raises before solve() by design
        # refused constructions as history steps (never the last one): each brings its own caller objects, which are part of
        # every snapshot of the history from the start; sometimes the same objects are handed to a second refused construction
        refs = []
        for _ in range(rng.choice([0, 1, 1, 2])):
            r = refs[0] if (refs and rng.random() < 0.4) else gen_refusal(rng)
            if r is not None:
                refs.append(r)
        for r in refs:
            if not any(r is x for x in sh.extra):
                sh.extra.append(r)
            po = rng.random() < 0.5
            rop = {"cls": r.cls, "refused": r.viol, "ridx": [k_ for k_, x in enumerate(sh.extra) if x is r][0], "node": r.spec["origin"] == "node",
                   "pass_opts": po, "pass_opts_eff": po and r.cls != "MinErrorFlow", "pass_sopts": True, "pass_cons": bool(r.cons), "pass_ign": True,
                   "pass_scal": False, "pass_starts": bool(r.starts or r.ends), "sup": r.sup is not None, "solve": True, "lb_only": False,
                   "narrow": False, "inner": "kMinPathError", "input": repr(r.spec)[:700]}
            ops.insert(rng.randrange(len(ops)), rop)
        init = sh.snapshot()
        steps = []
        before = init
        earlier = []                             # (step, class, model object, what its getters said at its step, is_twin)
        tw_skipped = 0
        for op in ops:
            if op.get("refused"):
                r = sh.extra[op["ridx"]]
                exc = run_refused(r, sh, op["pass_opts"])
                after = sh.snapshot()
                steps.append({"op": op, "changed": diff_snap(before, after), "opts_keys": list(sh.opts.keys()), "result": None, "ext_grew": False, "only_ext": False,
                              "getter_ok": True, "exc": exc, "has_cons": bool(r.cons) and r.cls in ci.HAS_CONS})
                before = after
                continue
            kw = kwargs_for(op, sh)
            LAST_MODEL[0] = None
            res, getter_ok, exc = run_op(op, kw)
            if exc is None and op["solve"] and LAST_MODEL[0] is not None:
                earlier.append((len(steps), op["cls"], LAST_MODEL[0], res, False))
                if op["sup"] or rng.random() < 0.3:  # a twin whose getters are first read after the later steps
                    tw = build_twin(op, kw)
                    if tw is not None and tw[1] is not None and tw[1] != bool(res["solved"]):
                        # the identical second construction ended differently in solve() ALREADY (time limit under load / solver):
                        # nothing a later step did; not comparable with the first model's answers
                        tw_skipped += 1
                    elif tw is not None:
                        earlier.append((len(steps), op["cls"], tw[0], res, True))
            after = sh.snapshot()
            ext_grew = len(after["opts"].get(EXT_KEY, [])) != len(before["opts"].get(EXT_KEY, []))
            only_ext = ext_grew and {k: v for k, v in after["opts"].items() if k != EXT_KEY} == {k: v for k, v in before["opts"].items() if k != EXT_KEY} \
                and after["opts"][EXT_KEY][:len(before["opts"][EXT_KEY])] == before["opts"][EXT_KEY]
            steps.append({"op": op, "changed": diff_snap(before, after), "opts_keys": list(sh.opts.keys()), "result": res, "ext_grew": ext_grew, "only_ext": only_ext,
                          "getter_ok": getter_ok, "exc": exc, "has_cons": bool(kw.get("subpath_constraints") or kw.get("subset_constraints"))})
            before = after
        # the getters of EARLIER models, read again (for twins: read for the first time) after all later steps
        late = []
        for (j, cls_j, m_j, res_j, twin) in earlier:
            if j == len(steps) - 1 and not twin:
                continue
            try:
                now = read_getters(m_j)
            except Exception as e:
                now = {"exception": ci.exc_kind(e) + ": " + str(e)[:80]}
            if now != res_j:
                late.append({"step": j, "class": cls_j, "twin": twin, "then": res_j, "now": now})
        # the last construction again, with fresh argument objects holding the INITIAL values
        fresh = Shared.fresh_from(sh, init)
        res_fresh, _, exc_fresh = run_op(ops[-1], kwargs_for(ops[-1], fresh))
        init_keys = [KEYCODE.get(k, 199) for k in init["opts"].keys()]
        mops = []
        for s in steps:
            cid, passes = model_cls_id(s["op"])
            mops.append([cid, passes, s["op"]["sup"], s["has_cons"], s["op"]["solve"], bool(s["op"].get("refused") and s["exc"])])
        reqs.append("effects " + common.toks(ext_open, EXT_KEY in init["opts"], len(init_keys), init_keys, len(ops), mops))
        hists.append((i, ops, init, steps, res_fresh, exc_fresh, late)); hist_sh[i] = sh
        if tw_skipped:
            ctx.count("solver_specification", "identical_twin_construction_solved_differently_at_once", tw_skipped)
    outs = ctx.model.run(reqs)
    for (i, ops, init, steps, res_fresh, exc_fresh, late), req, out in zip(hists, reqs, outs):
        classes = [o["cls"] for o in ops]
        ctx.case([req, json.dumps(ops, sort_keys=True)], nontrivial=len(set(classes)) >= 2,
                 sample={"ops": ops, "initial_options": canon(init["opts"]), "options_keys_after_each_step": [s["opts_keys"] for s in steps]})
        ctx.count("E4_histories", "histories"); ctx.count("E4_histories", "steps", len(steps))
        replay = {"history": i, "ops": ops, "initial_options": canon(init["opts"]), "steps": canon([{k: v for k, v in s.items() if k != "result"} for s in steps]), "request": req, "model": out}
        if not out.startswith("OK"):
            ctx.report("model driver failed: " + out, replay, concrete=False); continue
        model_keys = [[int(x) for x in part.split(";")[0].split()] for part in out[2:].split("|")]
        model_ext = [int(part.split(";")[1]) for part in out[2:].split("|")]
        polluted = False; polluted_ext = False; prev_ext = 0
        for j, s in enumerate(steps):
            cls = s["op"]["cls"]; ctx.dist("class:" + cls)
            for a in ("node", "pass_ign", "pass_scal", "pass_starts"):
                if s["op"][a]: ctx.dist("arg:" + a)
            if s["changed"] and sorted(set(str(c) for c in s["changed"])) == ["opts"] and s["only_ext"]:
                polluted_ext = True         # also within this very step: NumPathsOptimization builds several models from the same kwargs
            refused = s["op"].get("refused")
            if refused:
                ctx.count("refused_constructions", "history_steps")
                ctx.count("refused_constructions", "raised " + s["exc"].split(":")[0] if s["exc"] else "not refused (accepted)")
                ctx.dist("refused:" + refused)
                if s["exc"] and not s["exc"].startswith("ValueError"):
                    ctx.notes.append({"refused_step_raised_other_than_ValueError (C19's subject, not judged here)": [cls, refused, s["exc"], s["op"].get("input", "")[:300]]})
            if s["exc"] and not refused:
                ctx.count("E4_histories", "steps_raising")
                # after an earlier step extended the shared external_safe_paths list (foreign source_/sink_ edges), a later model may fail
                ctx.report("a step of a history of valid constructions raised: %s (%s)" % (s["exc"], cls), dict(replay, step=j),
                           key=("history:result-differs:external_safe_paths-extended" if polluted_ext else None), concrete=polluted_ext)
            # (1) the property, directly: nothing the caller passed, no default object, no class / module level object changed
            if s["changed"]:
                what = sorted(set(str(c) for c in s["changed"]))
                if what == ["opts"] and s["only_ext"]:
                    polluted_ext = True; key = EXT_FINDING
                else:
                    polluted = True
                    key = (cls + ":mutates:optimization_options") if (what == ["opts"] and cls in ALIASING) else None
                if refused:
                    ctx.report("a refused construction of %s (%s mode, %s; it raised %s) left the caller's data changed: %s"
                               % (cls, "node" if s["op"]["node"] else "edge", refused, s["exc"], what[:6]), dict(replay, step=j), concrete=True)
                else:
                    ctx.report("%s changed data it does not own: %s" % (cls, what[:6]), dict(replay, step=j), key=key, concrete=True)
            if not s["getter_ok"]:
                ctx.report("repeated getter calls of %s returned different results" % cls, dict(replay, step=j), concrete=True)
            # (2) correspondence with the heap of Effects.v
            obs = [KEYCODE.get(k, 199) for k in s["opts_keys"]]
            model_grew = model_ext[j] != prev_ext; prev_ext = model_ext[j]
            if obs == model_keys[j] and model_grew == s["ext_grew"]:
                ctx.count("E4_histories", "heap_agreements")
            else:
                ctx.count("E4_histories", "heap_disagreements")
                ctx.report("E4 correspondence broken: optimization_options keys after step %d are %s (external_safe_paths extended: %s), Effects.run_sw gives %s (extended: %s)" % (j, obs, s["ext_grew"], model_keys[j], model_grew),
                           dict(replay, step=j), concrete=False)
        # (2b) the getters of earlier models after later models were built and solved
        ctx.count("earlier_model_getters", "histories"); ctx.count("earlier_model_getters", "changed", len(late))
        for l in late:
            ctx.report("the getters of an earlier model (%s, step %d%s) changed after later models were built: %s -> %s"
                       % (l["class"], l["step"], ", getters first read late" if l["twin"] else "", json.dumps(l["then"], default=str)[:200], json.dumps(l["now"], default=str)[:200]),
                       dict(replay, step=l["step"]), key=("history:result-differs:external_safe_paths-extended" if polluted_ext else None), concrete=True)
        # (3) history independence of the last model
        last = steps[-1]
        ctx.count("history_independence", "cases")
        differs = (last["result"], bool(last["exc"])) != (res_fresh, bool(exc_fresh))
        if differs and not (polluted or polluted_ext):
            # before reporting: is the difference a property of the history at all?  Replay the whole history on new shared
            # objects holding the initial values and repeat the fresh-argument run; identical constructions that disagree
            # with THEMSELVES are solver nondeterminism (observed under heavy machine load), not an effect of the history
            sh2 = Shared.fresh_from(hist_sh[i], init)
            last2 = None
            for op in ops:
                last2 = run_op(op, kwargs_for(op, sh2))
            fresh2 = run_op(ops[-1], kwargs_for(ops[-1], Shared.fresh_from(hist_sh[i], init)))
            same_hist = (last2[0], bool(last2[2])) == (last["result"], bool(last["exc"]))
            same_fresh = (fresh2[0], bool(fresh2[2])) == (res_fresh, bool(exc_fresh))
            hist_now_equals_fresh = (last2[0], bool(last2[2])) == (res_fresh, bool(exc_fresh))
            if not same_fresh:
                ctx.count("solver_specification", "identical_fresh_constructions_disagree_with_each_other"); differs = False
            elif not same_hist and hist_now_equals_fresh:
                ctx.count("solver_specification", "history_result_not_reproducible_replay_equals_fresh"); differs = False
        if differs:
            key = ("history:result-differs:optimization_options-polluted" if polluted else
                   ("history:result-differs:external_safe_paths-extended" if polluted_ext else None))
            ctx.report("the last model of the history (%s) differs from the same construction with fresh arguments: %s vs %s"
                       % (last["op"]["cls"], json.dumps(last["result"], default=str)[:300], json.dumps(res_fresh, default=str)[:300]),
                       replay, key=key, concrete=True)
        else:
            ctx.count("history_independence", "equal")
