"""C18 — a model's result depends only on its own arguments; caller data is never mutated.

E4 histories: random sequences of constructions / solves over all model classes that SHARE their argument objects
(graph, optimization_options, solver_options, constraint list, ignore list; omitted arguments -> the classes' shared
mutable defaults).  Before and after every step deep snapshots of all shared objects and of every class's default
argument objects are compared (the property, evaluated directly) and the keys of optimization_options are compared
with the heap of Effects.v.  The last construction is repeated with fresh copies of the initial argument values and
must give the same solved status / objective / solution; every getter is called three times."""
import copy, json
import networkx as nx
import common, gen
from engines import c19_inputs as ci

LEVEL = "proof"
EXPLANATION = ("Theorems of Props/C18.v are about Effects.step/run: a hand-written effect summary per class of the current code (how "
               "optimization_options is held; everything else is copied or read). Proved at full strength: frame for every class and argument "
               "vector, history independence over arbitrary operation lists, idempotent getters; for any summary of this shape only "
               "optimization_options can be touched and caller keys survive; old_* theorems refute frame / history independence for the "
               "summary of the code before 5ed9792 (DESIGN #16). Thin tie: this engine replays histories and compares snapshots.")
ASSUMPTIONS = ["deep snapshots: copy.deepcopy + == on graph nodes/edges/attribute dicts, dicts, lists, and on __init__.__defaults__ of every class",
               "HiGHS with threads=1 is deterministic for identical models (used when the last construction is repeated with fresh arguments)"]
TRUSTED = ["model: coq/theories/Effects.v; proofs EffectsProofs.v"]

MODEL_CLASSES = ci.DAG_CLASSES + ci.CYC_CLASSES + ["MinErrorFlow"]
KEYCODE = {"trusted_edges_for_safety": 0, "allow_empty_paths": 1, "optimize_with_safe_paths": 2, "optimize_with_safe_sequences": 3,
           "optimize_with_safe_zero_edges": 4, "optimize_with_subpath_constraints_as_safe_sequences": 5,
           "optimize_with_safety_as_subpath_constraints": 6, "verif_user_key": 100}
ALIASING = {"kLeastAbsErrors", "kMinPathError", "kFlowDecompCycles", "kLeastAbsErrorsCycles", "kMinPathErrorCycles", "MinFlowDecompCycles"}


def graph_snapshot(G):
    return (list(G.nodes(data=True)), list(G.edges(data=True)), dict(G.graph))


def all_defaults():
    import flowpaths as fp
    out = {}
    for name in MODEL_CLASSES + ci.GRAPH_CLASSES + ["AbstractPathModelDAG", "AbstractWalkModelDiGraph", "NumPathsOptimization", "MinGenSet", "MinSetCover"]:
        C = getattr(fp, name)
        out[name] = (copy.deepcopy(C.__init__.__defaults__), copy.deepcopy(C.__init__.__kwdefaults__))
    return out


class Shared:
    """the caller's objects of one history"""
    def __init__(self, rng):
        sd = ci.gen_valid(rng, "kFlowDecomp"); sd["origin"] = "edge"; sd["node_w"] = {}
        sc = ci.gen_valid(rng, "kFlowDecompCycles"); sc["origin"] = "edge"; sc["node_w"] = {}
        self.spec = {"dag": sd, "cyc": sc}
        self.G = {"dag": ci.build_graph(sd), "cyc": ci.build_graph(sc)}
        for kind in ("dag", "cyc"):                 # node weights too, so that node mode can share the same graph object
            for v in self.G[kind].nodes():
                self.G[kind].nodes[v]["nflow"] = 1 + sum(d.get("flow", 0) for _, _, d in self.G[kind].in_edges(v, data=True))
        self.cons = {}
        for kind in ("dag", "cyc"):
            es = list(self.G[kind].edges())
            self.cons[kind] = [[es[rng.randrange(len(es))]]] if rng.random() < 0.6 else []
        self.ign = {kind: ([list(self.G[kind].edges())[0]] if rng.random() < 0.3 else []) for kind in ("dag", "cyc")}
        self.opts = {"verif_user_key": 1} if rng.random() < 0.75 else {}
        self.sopts = dict(ci.SOLVER_OPTIONS)
        self.k = {"dag": max(1, sd["k"] or 1), "cyc": max(1, sc["k"] or 1)}

    def snapshot(self):
        return copy.deepcopy({"G": {k: graph_snapshot(g) for k, g in self.G.items()}, "cons": self.cons, "ign": self.ign,
                              "opts": self.opts, "sopts": self.sopts, "defaults": all_defaults()})


def make_op(rng):
    cls = rng.choice(MODEL_CLASSES)
    return {"cls": cls, "pass_opts": rng.random() < 0.7, "pass_sopts": rng.random() < 0.8, "pass_cons": rng.random() < 0.6,
            "pass_ign": rng.random() < 0.5, "sup": cls in ("kLeastAbsErrors", "kMinPathError") and rng.random() < 0.35,
            "solve": rng.random() < 0.85}


def kwargs_for(op, sh):
    """argument vector of one construction; objects come from `sh` (shared) — omitted ones fall back to the class defaults"""
    cls = op["cls"]; kind = "cyc" if cls in ci.CYC_CLASSES else "dag"
    if cls == "MinErrorFlow":
        kind = "dag"
    kw = {"G": sh.G[kind]}
    if cls in ci.IS_COVER:
        pass
    else:
        kw["flow_attr"] = "flow"
    if cls in ci.HAS_K:
        kw["k"] = sh.k[kind] + (1 if cls not in ci.IS_FD else 0)
    if op["pass_opts"] and cls != "MinErrorFlow":
        kw["optimization_options"] = sh.opts
    if op["pass_sopts"]:
        kw["solver_options"] = sh.sopts
    if op["pass_cons"] and cls in ci.HAS_CONS:
        kw["subset_constraints" if cls in ci.CYC_CLASSES else "subpath_constraints"] = sh.cons[kind]
    if op["pass_ign"]:
        kw["elements_to_ignore"] = sh.ign[kind]
    if op["sup"]:
        kw["solution_weights_superset"] = sorted({d["flow"] for _, _, d in sh.G[kind].edges(data=True)} | {1})
    return kw, kind


def canon(x):
    if isinstance(x, nx.Graph):
        return {"nodes": canon(sorted(x.nodes(data=True), key=str)), "edges": canon(sorted(x.edges(data=True), key=str))}
    if isinstance(x, dict):
        return {str(k): canon(v) for k, v in sorted(x.items(), key=lambda kv: str(kv[0]))}
    if isinstance(x, (list, tuple)):
        return [canon(v) for v in x]
    if isinstance(x, (set, frozenset)):
        return sorted(canon(v) for v in x)
    if isinstance(x, float):
        return round(x, 6)
    return x


def run_op(op, kw):
    """construct, solve, call every getter three times -> (result, getter_ok, exception)"""
    import flowpaths as fp
    res = {"solved": None, "objective": None, "solution": None}
    try:
        m = getattr(fp, op["cls"])(**kw)
        if op["solve"]:
            m.solve(); m.solve() if False else None
        s = [bool(m.is_solved()) for _ in range(3)]
        getter_ok = s[0] == s[1] == s[2]
        res["solved"] = s[0]
        if s[0]:
            sols = [canon(copy.deepcopy(m.get_solution())) for _ in range(3)]
            getter_ok &= sols[0] == sols[1] == sols[2]
            res["solution"] = sols[0]
            if hasattr(m, "get_objective_value"):
                objs = [m.get_objective_value() for _ in range(3)]
                getter_ok &= objs[0] == objs[1] == objs[2]
                res["objective"] = canon(objs[0])
        return res, getter_ok, None
    except Exception as e:
        return res, True, ci.exc_kind(e) + ": " + str(e)[:100]


def diff_snap(a, b):
    return [k for k in a if a[k] != b[k]] + [("G", k) for k in a["G"] if a["G"][k] != b["G"][k]]


def run(ctx):
    ctx.rule = ("case = one history: 3-7 constructions/solves of random model classes sharing one DAG, one cyclic graph, one "
                "optimization_options dict (empty or with a user key), one solver_options dict, constraint and ignore lists; each argument "
                "is passed or omitted (shared defaults); non-trivial = at least two classes and a non-empty shared optimization_options; "
                "distinct by the operation list and initial dict")
    n_hist = ctx.budget(160, 3000)
    reqs = []; hists = []
    for i in range(n_hist):
        rng = ctx.rng("history", i)
        try:
            sh = Shared(rng)
        except RuntimeError:
            continue
        ops = [make_op(rng) for _ in range(rng.randint(3, 7))]
        init = sh.snapshot()
        steps = []
        for op in ops:
            kw, kind = kwargs_for(op, sh)
            before = sh.snapshot()
            res, getter_ok, exc = run_op(op, kw)
            after = sh.snapshot()
            steps.append({"op": op, "changed": diff_snap(before, after), "opts_keys": list(sh.opts.keys()), "result": res,
                          "getter_ok": getter_ok, "exc": exc, "has_cons": bool(kw.get("subpath_constraints") or kw.get("subset_constraints"))})
        # the last construction again, with fresh argument objects holding the INITIAL values
        fresh = Shared.__new__(Shared)
        fresh.__dict__.update(copy.deepcopy({k: v for k, v in sh.__dict__.items() if k not in ("G", "cons", "ign", "opts", "sopts")}))
        fresh.G = {}
        for kind in ("dag", "cyc"):
            H = nx.DiGraph(); nodes, edges, gattr = init["G"][kind]
            H.add_nodes_from(copy.deepcopy(nodes)); H.add_edges_from(copy.deepcopy(edges)); H.graph.update(copy.deepcopy(gattr)); fresh.G[kind] = H
        fresh.cons = copy.deepcopy(init["cons"]); fresh.ign = copy.deepcopy(init["ign"]); fresh.opts = copy.deepcopy(init["opts"]); fresh.sopts = copy.deepcopy(init["sopts"])
        kwf, _ = kwargs_for(ops[-1], fresh)
        res_fresh, _, exc_fresh = run_op(ops[-1], kwf)
        init_keys = [KEYCODE.get(k, 199) for k in init["opts"].keys()]
        reqs.append("effects " + common.toks(len(init_keys), init_keys, len(ops),
                                             [[ci.CLS_ID[s["op"]["cls"]], s["op"]["pass_opts"], s["op"]["sup"], s["has_cons"], s["op"]["solve"]] for s in steps]))
        hists.append((i, ops, init, steps, res_fresh, exc_fresh))
    outs = ctx.model.run(reqs)
    for (i, ops, init, steps, res_fresh, exc_fresh), req, out in zip(hists, reqs, outs):
        classes = [o["cls"] for o in ops]
        ctx.case([req], nontrivial=len(set(classes)) >= 2 and bool(init["opts"]),
                 sample={"ops": ops, "initial_options": canon(init["opts"]), "options_keys_after_each_step": [s["opts_keys"] for s in steps]})
        ctx.count("E4_histories", "histories"); ctx.count("E4_histories", "steps", len(steps))
        replay = {"history": i, "ops": ops, "initial_options": canon(init["opts"]), "steps": canon([{k: v for k, v in s.items() if k != "result"} for s in steps]), "request": req, "model": out}
        if not out.startswith("OK"):
            ctx.report("model driver failed: " + out, replay, concrete=False); continue
        model_keys = [[int(x) for x in part.split()] for part in out[2:].split("|")]
        polluted = False
        for j, s in enumerate(steps):
            cls = s["op"]["cls"]; ctx.dist("class:" + cls)
            if s["exc"]:
                ctx.count("E4_histories", "steps_raising")
                ctx.report("a step of a history of valid constructions raised: %s (%s)" % (s["exc"], cls), dict(replay, step=j), concrete=False)
            # (1) the property, directly: nothing the caller passed (or any default object) changed
            if s["changed"]:
                polluted = True
                what = sorted(set(str(c) for c in s["changed"]))
                key = (cls + ":mutates:optimization_options") if (what == ["opts"] and cls in ALIASING) else None
                ctx.report("%s changed caller data: %s (keys now %s)" % (cls, what, s["opts_keys"]), dict(replay, step=j), key=key, concrete=True)
            if not s["getter_ok"]:
                ctx.report("repeated getter calls of %s returned different results" % cls, dict(replay, step=j), concrete=True)
            # (2) correspondence with the heap of Effects.v
            obs = [KEYCODE.get(k, 199) for k in s["opts_keys"]]
            if obs == model_keys[j]:
                ctx.count("E4_histories", "heap_agreements")
            else:
                ctx.count("E4_histories", "heap_disagreements")
                ctx.report("E4 correspondence broken: optimization_options keys after step %d are %s, Effects.run gives %s" % (j, obs, model_keys[j]),
                           dict(replay, step=j), concrete=False)
        # (3) history independence of the last model
        last = steps[-1]
        ctx.count("history_independence", "cases")
        if (last["result"], bool(last["exc"])) != (res_fresh, bool(exc_fresh)):
            same_status = last["result"]["solved"] == res_fresh["solved"] and last["result"]["objective"] == res_fresh["objective"]
            key = "history:result-differs:optimization_options-polluted" if polluted else None
            if same_status and not polluted:
                ctx.count("history_independence", "other_optimal_solution")     # equal status and objective, another optimal solution
            else:
                ctx.report("the last model of the history (%s) differs from the same construction with fresh arguments: %s vs %s"
                           % (last["op"]["cls"], json.dumps(last["result"], default=str)[:300], json.dumps(res_fresh, default=str)[:300]),
                           replay, key=key, concrete=True)
        else:
            ctx.count("history_independence", "equal")
