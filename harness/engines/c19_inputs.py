"""C19 — concrete side of the malformed-stream engine: valid input generators for every exported
graph model class, the violation operators (one per kind listed in the property), construction /
solve observation, and the abstraction function alpha : concrete input -> Validate.input tokens.

A *spec* is a plain dict (python objects, tuples for edges):
  cls      class name
  nodes    list of node names (a non-string node is an int)
  edges    list of (u, v, w)      w = number or None (attribute missing)      [edge weights]
  node_w   dict node -> number or None                                         [node mode only]
  origin   "edge" | "node" | anything else (unsupported)
  wtype    "float" | "int" | anything else (unsupported)
  k        int | float | None (class has no k)
  cons     list of constraints; a constraint is a list (well-formed) or a tuple (malformed) of items;
           an item is a 2-tuple edge (edge mode), a node name (node mode), or something else (malformed)
  cov      number
  ign_pct, trust_pct   None | number   elements_to_ignore_percentile (kMinPathErrorCycles) / trusted_edges_for_safety_percentile
  cov_len  None | number            subpath_constraints_coverage_length (DAG models)
  len_attr bool                     a length_attr is passed
  ign      list of elements to ignore (edges or nodes)
  starts, ends   additional start / end nodes
"""
import copy, math
import networkx as nx
import gen

DAG_CLASSES = ["kFlowDecomp", "MinFlowDecomp", "kMinPathError", "kLeastAbsErrors", "kPathCover", "MinPathCover"]
CYC_CLASSES = ["kFlowDecompCycles", "MinFlowDecompCycles", "kMinPathErrorCycles", "kLeastAbsErrorsCycles",
               "kPathCoverCycles", "MinPathCoverCycles"]
GRAPH_CLASSES = ["stDAG", "stDiGraph", "NodeExpandedDiGraph"]
OTHER_CLASSES = ["MinErrorFlow"]
ALL_CLASSES = GRAPH_CLASSES + DAG_CLASSES + CYC_CLASSES + OTHER_CLASSES
CLS_ID = {c: i for i, c in enumerate(ALL_CLASSES)}

HAS_K = {"kFlowDecomp", "kMinPathError", "kLeastAbsErrors", "kPathCover",
         "kFlowDecompCycles", "kMinPathErrorCycles", "kLeastAbsErrorsCycles", "kPathCoverCycles"}
IS_COVER = {"kPathCover", "MinPathCover", "kPathCoverCycles", "MinPathCoverCycles"}
IS_FD = {"kFlowDecomp", "MinFlowDecomp", "kFlowDecompCycles", "MinFlowDecompCycles"}
HAS_WEIGHTS = set(DAG_CLASSES + CYC_CLASSES + OTHER_CLASSES) - IS_COVER
HAS_WTYPE = HAS_WEIGHTS
HAS_CONS = set(DAG_CLASSES + CYC_CLASSES)
HAS_ORIGIN = set(DAG_CLASSES + CYC_CLASSES + OTHER_CLASSES)
IS_CYC = set(CYC_CLASSES) | {"stDiGraph"}
NEEDS_DAG = set(DAG_CLASSES) | {"stDAG"}
# additional starts/ends: which classes take them at all (edge mode)
HAS_SUPERSET = {"kFlowDecomp", "kLeastAbsErrors", "kMinPathError"}
K_NONE_ALLOWED = {"kMinPathError", "kMinPathErrorCycles", "kLeastAbsErrorsCycles"}      # documented: k=None means the width
HAS_STARTS = {"stDAG", "stDiGraph", "NodeExpandedDiGraph", "MinFlowDecomp", "kMinPathError", "kLeastAbsErrors", "kPathCover",
              "MinPathCover", "kFlowDecompCycles", "MinFlowDecompCycles", "kMinPathErrorCycles", "kLeastAbsErrorsCycles",
              "kPathCoverCycles", "MinPathCoverCycles", "MinErrorFlow"}

# documented NON-DEFAULT optimization options, as option vectors that are valid for the class (e.g. safe sequences on the DAG side
# exclude safe paths; kFlowDecomp's flow-safe paths exclude both).  {} = the defaults.
_PATH_SAFETY = [{}, {"optimize_with_safe_paths": False, "optimize_with_safe_sequences": True},
                {"optimize_with_safe_zero_edges": False}, {"optimize_with_safety_as_subpath_constraints": True},
                {"optimize_with_safety_from_largest_antichain": True}, {"optimize_with_subpath_constraints_as_safe_sequences": False},
                {"optimize_with_safe_paths": False}]
_KFD = [{}, {"optimize_with_greedy": False}, {"optimize_with_flow_safe_paths": False},
        {"optimize_with_greedy": False, "optimize_with_flow_safe_paths": False, "optimize_with_safe_paths": False, "optimize_with_safe_sequences": True},
        {"optimize_with_safe_zero_edges": False, "optimize_with_greedy": False}, {"optimize_with_safety_as_subpath_constraints": True},
        {"optimize_with_flow_safe_paths": False, "optimize_with_safety_from_largest_antichain": True}]
_WALK_SAFETY = [{}, {"optimize_with_safe_sequences": False}, {"optimize_with_safe_sequences_fix_via_bounds": True},
                {"optimize_with_safe_sequences_allow_geq_constraints": False}, {"optimize_with_safe_sequences_fix_zero_edges": False},
                {"optimize_with_safety_as_subset_constraints": True}, {"optimize_with_max_safe_antichain_as_subset_constraints": True},
                {"optimize_with_safe_sequences_fix_via_bounds": True, "optimize_with_safe_sequences_allow_geq_constraints": False}]
OPTION_VECTORS = {
    "kFlowDecomp": _KFD,
    "MinFlowDecomp": _KFD + [{"use_min_gen_set_lowerbound": True}, {"use_min_gen_set_lowerbound": True, "use_min_gen_set_lowerbound_partition_constraints": True},
                             {"use_subgraph_scanning_lowerbound": True}, {"optimize_with_guessed_weights": True},
                             {"use_subgraph_scanning_lowerbound": True, "optimize_with_guessed_weights": True, "use_min_gen_set_lowerbound": True},
                             {"min_gen_set_remove_sums_of_two": False, "use_min_gen_set_lowerbound": True, "optimize_with_greedy": False},
                             {"lowerbound_k": 2},
                             {"use_min_gen_set_lowerbound": True, "use_min_gen_set_lowerbound_partition_constraints": True,
                              "use_min_gen_set_lowerbound_partition_constraints_min_constraint_len": 1,
                              "use_min_gen_set_lowerbound_partition_constraints_limit_num_constraints": 5}],
    "kMinPathError": _PATH_SAFETY, "kLeastAbsErrors": _PATH_SAFETY, "kPathCover": _PATH_SAFETY, "MinPathCover": _PATH_SAFETY,
    "kFlowDecompCycles": _WALK_SAFETY, "kMinPathErrorCycles": _WALK_SAFETY, "kLeastAbsErrorsCycles": _WALK_SAFETY,
    "kPathCoverCycles": _WALK_SAFETY, "MinPathCoverCycles": _WALK_SAFETY,
    "MinFlowDecompCycles": _WALK_SAFETY + [{"use_min_gen_set_lowerbound": True}, {"optimize_with_guessed_weights": True},
                                           {"optimize_with_guessed_weights": True, "use_min_gen_set_lowerbound": True, "add_min_gen_set_to_given_weights": True},
                                           {"optimize_with_guessed_weights": True, "optimize_with_given_weights_num_free_walks": 1}, {"lowerbound_k": 2}],
}

SOLVER_OPTIONS = {"threads": 1, "time_limit": 4}          # ONE threads value per process; a time-out only turns "solved" into "unsolved"


# ------------------------------------------------------------------------------------------ valid inputs
def _cover_routes(rng, G, cyclic):
    """Source-to-sink routes (paths / walks) whose union covers every edge if possible."""
    routes = []
    covered = set()
    if not cyclic:
        allp = gen.all_st_paths(G, limit=300)
        rng.shuffle(allp)
        for p in allp:
            if any(e not in covered for e in gen.pairs(p)) or (len(routes) < 2 and rng.random() < 0.3):
                routes.append(p); covered |= set(gen.pairs(p))
    else:
        for _ in range(60):
            w = gen.rand_walk(rng, G, maxlen=12)
            if w is None:
                continue
            if any(e not in covered for e in gen.pairs(w)):
                routes.append(w); covered |= set(gen.pairs(w))
            if len(covered) == G.number_of_edges():
                break
    return routes, covered


def gen_valid(rng, cls):
    """A well-formed input of class `cls` with at least one non-ignored weighted element."""
    cyclic = cls in IS_CYC or (cls in ("MinErrorFlow", "NodeExpandedDiGraph") and rng.random() < 0.4)
    for _ in range(200):
        G = gen.rand_cyclic(rng, nmax=4) if cyclic else gen.rand_dag(rng, nmax=5)
        if cls in NEEDS_DAG and not nx.is_directed_acyclic_graph(G):
            continue
        if G.number_of_edges() > 9 or G.number_of_edges() < 2:
            continue
        routes, covered = _cover_routes(rng, G, cyclic and not nx.is_directed_acyclic_graph(G))
        if len(covered) < G.number_of_edges() or not routes or len(routes) > 4:
            continue
        break
    else:
        raise RuntimeError("no graph")
    # single-character node names drawn from "source_<id>" / "sink_<id>" fool stDiGraph's source/sink test (DESIGN #20):
    # keep them in a quarter of the cyclic inputs only, so that the regular rejection path is exercised as well
    if rng.random() < 0.75:
        G = nx.relabel_nodes(G, {"s": "src", "t": "snk"}, copy=True)
        routes = [[{"s": "src", "t": "snk"}.get(x, x) for x in r] for r in routes]
    origin = "edge"
    if cls in HAS_ORIGIN and rng.random() < (0.12 if cls == "kPathCover" else 0.3):
        origin = "node"
    if cls == "NodeExpandedDiGraph":
        origin = "node"
    wts = [rng.randint(1, 6) for _ in routes]
    ew = {e: 0 for e in G.edges()}
    nw = {v: 0 for v in G.nodes()}
    for r, w in zip(routes, wts):
        for e in gen.pairs(r):
            ew[e] += w
        for v in r:
            nw[v] += w
    if cls in HAS_WEIGHTS and cls not in IS_FD and rng.random() < 0.5:      # error models: perturbed flows
        for e in list(ew):
            if rng.random() < 0.3:
                ew[e] += rng.choice([1, 2])
        for v in list(nw):
            if rng.random() < 0.3:
                nw[v] += rng.choice([1, 2])
    nodes = list(G.nodes())
    spec = {"cls": cls, "nodes": nodes, "origin": origin, "wtype": rng.choice(["float", "int"]),
            "edges": [(u, v, ew[(u, v)]) for (u, v) in G.edges()],
            "node_w": {v: nw[v] for v in nodes} if origin == "node" else {},
            "k": None, "cons": [], "cov": 1.0, "cov_len": None, "len_attr": False, "ign": [], "starts": [], "ends": [],
            "ign_pct": None, "trust_pct": None, "superset": None, "opts": {}}
    spec["route_weights"] = list(wts)
    # the given-weights argument (one entry per route, so that an exact decomposition with them exists) and a solver-side option
    if cls in HAS_SUPERSET and rng.random() < 0.3:
        spec["superset"] = sorted(wts) + ([rng.randint(1, 6)] if rng.random() < 0.3 else [])
    # the option vector is set by the engine (cycled over the valid inputs of a class, so that every vector meets every violation kind)
    if cls in HAS_K:
        spec["k"] = len(routes) + rng.choice([0, 0, 1])
        if cls in K_NONE_ALLOWED and rng.random() < 0.15:
            spec["k"] = None                      # documented: "use the width"
    # constraints from actual routes
    if cls in HAS_CONS and rng.random() < 0.5:
        r = rng.choice(routes)
        if origin == "edge":
            ps = gen.pairs(r)
            if ps:
                a = rng.randrange(len(ps)); b = rng.randint(a + 1, min(len(ps), a + 3))
                spec["cons"] = [list(ps[a:b])]
        else:
            a = rng.randrange(len(r)); b = rng.randint(a + 1, min(len(r), a + 3))
            spec["cons"] = [list(r[a:b])]
        if rng.random() < 0.3 and spec["cons"]:
            spec["cov"] = rng.choice([0.5, 0.75, 1.0])
        elif rng.random() < 0.3 and spec["cons"] and cls in DAG_CLASSES:      # the length-based coverage instead (documented: not both)
            spec["cov_len"] = rng.choice([0.5, 1.0]); spec["len_attr"] = True
    # ignore lists: keep at least one weighted non-ignored element
    if cls in HAS_ORIGIN and rng.random() < 0.3:
        if origin == "edge":
            es = [(u, v) for (u, v, w) in spec["edges"]]
            if len(es) >= 2:
                spec["ign"] = [rng.choice(es)]
        else:
            if len(nodes) >= 2:
                spec["ign"] = [rng.choice(nodes)]
    # percentile parameters of the cyclic error models (elements_to_ignore_percentile excludes elements_to_ignore)
    if cls in ("kMinPathErrorCycles", "kLeastAbsErrorsCycles") and rng.random() < 0.45:
        if cls == "kMinPathErrorCycles" and rng.random() < 0.7:
            spec["ign"] = []; spec["ign_pct"] = rng.choice([0, 10, 25, 50])
        if rng.random() < 0.5:
            spec["trust_pct"] = rng.choice([0, 25, 50, 100])
    # additional starts / ends (only where the class supports them in this mode)
    if cls in HAS_STARTS and rng.random() < 0.25:
        ok = True
        if cls in ("MinFlowDecomp", "MinFlowDecompCycles") and origin == "edge":
            ok = False                                   # documented: not supported in edge mode
        if cls in ("MinFlowDecomp", "MinFlowDecompCycles", "NodeExpandedDiGraph"):
            ok = False                                   # these fill in flows (network simplex): kept out of the valid stream
        if cls in IS_FD:
            ok = False                                   # an extra start breaks conservation of an exact decomposition
        if ok:
            spec["starts"] = [rng.choice(nodes)]
            if rng.random() < 0.5:
                spec["ends"] = [rng.choice(nodes)]
    return spec


def variant_start_only(spec, rng):
    """valid variant for cyclic non-decomposition classes: no node of in-degree 0, the walks start at an additional start"""
    if spec["cls"] not in ("stDiGraph", "kMinPathErrorCycles", "kLeastAbsErrorsCycles", "kPathCoverCycles", "MinPathCoverCycles"):
        return False
    G = _graph(spec); srcs = [x for x in G if G.in_degree(x) == 0]
    others = [x for x in G if G.in_degree(x) > 0 and G.out_degree(x) > 0]      # keep the sinks
    if not others or not srcs or len(spec["edges"]) > 6:
        return False
    for s in srcs:
        spec["edges"].append((rng.choice(others), s, 1))
    spec["starts"] = list(dict.fromkeys(spec["starts"] + srcs))
    return True


def variant_node_starts(spec, rng):
    """valid variant: node-weighted MinFlowDecompCycles with an additional start (documented for node mode)"""
    if spec["cls"] != "MinFlowDecompCycles":
        return False
    if spec["origin"] != "node":
        spec["origin"] = "node"
        spec["node_w"] = {v: 1 for v in spec["nodes"]}
        spec["cons"] = []; spec["ign"] = []
    spec["starts"] = [rng.choice(spec["nodes"])]
    return True


def variant_all_ignored(spec, rng):
    """outside the property's clause (DESIGN #24): every weighted element is ignored; integer weights"""
    if spec["cls"] not in HAS_WEIGHTS or spec["cls"] == "MinErrorFlow" or spec["origin"] != "edge":
        return False
    spec["wtype"] = "int"; spec["cons"] = []
    spec["ign"] = [(u, v) for (u, v, w) in spec["edges"]]
    return True


# ------------------------------------------------------------------------------------------ violations
def _rename(spec, old, new):
    f = lambda x: new if x == old else x
    spec["nodes"] = [f(x) for x in spec["nodes"]]
    spec["edges"] = [(f(u), f(v), w) for (u, v, w) in spec["edges"]]
    spec["node_w"] = {f(k): w for k, w in spec["node_w"].items()}
    def fi(it):
        if isinstance(it, tuple):
            return tuple(f(x) for x in it)
        return f(it)
    spec["cons"] = [type(c)(fi(it) for it in c) for c in spec["cons"]]
    spec["ign"] = [fi(it) for it in spec["ign"]]
    spec["starts"] = [f(x) for x in spec["starts"]]; spec["ends"] = [f(x) for x in spec["ends"]]


def _graph(spec):
    G = nx.DiGraph()
    G.add_nodes_from(spec["nodes"])
    for (u, v, w) in spec["edges"]:
        G.add_edge(u, v)
    return G


def _weighted_elems(spec):
    """indices of non-ignored weighted elements (edges in edge mode, nodes in node mode)"""
    if spec["origin"] == "node":
        return [v for v in spec["nodes"] if v not in spec["ign"] and spec["node_w"].get(v) is not None]
    return [i for i, (u, v, w) in enumerate(spec["edges"]) if (u, v) not in spec["ign"] and w is not None]


def v_nonstr(spec, rng):
    old = rng.choice(spec["nodes"]); _rename(spec, old, 7); return True

def v_selfloop(spec, rng):
    """the only cycle is a self-loop (on a source, an inner node or a sink); flow conservation is kept"""
    have = {(u, v) for (u, v, _) in spec["edges"]}
    cand = [x for x in spec["nodes"] if (x, x) not in have]
    if not cand:
        return False
    x = rng.choice(cand)
    spec["edges"].append((x, x, rng.randint(1, 3)))
    return True

def v_ignpct_bad(spec, rng):
    if spec["cls"] != "kMinPathErrorCycles": return False
    spec["ign"] = []; spec["ign_pct"] = rng.choice([-5, 101, 250]); return True
def v_ignpct_with_ign(spec, rng):
    if spec["cls"] != "kMinPathErrorCycles": return False
    spec["ign_pct"] = rng.choice([10, 50])
    if not spec["ign"]:
        spec["ign"] = [_good_item(spec, rng)]
    return True
def v_trustpct_bad(spec, rng):
    if spec["cls"] not in ("kMinPathErrorCycles", "kLeastAbsErrorsCycles"): return False
    spec["trust_pct"] = rng.choice([-1, 100.5, 300]); return True

def v_missing_with_ignpct(spec, rng):     # a missing weight on a non-ignored edge together with a valid elements_to_ignore_percentile
    if spec["cls"] != "kMinPathErrorCycles" or spec["origin"] != "edge": return False
    spec["ign"] = []; spec["ign_pct"] = rng.choice([10, 25, 50, 75])
    return v_missing(spec, rng)
def v_missing_with_trustpct(spec, rng):
    if spec["cls"] not in ("kMinPathErrorCycles", "kLeastAbsErrorsCycles") or spec["origin"] != "edge": return False
    spec["trust_pct"] = rng.choice([0, 25, 50, 100])
    return v_missing(spec, rng)
def v_neg_with_trustpct(spec, rng):
    if spec["cls"] not in ("kMinPathErrorCycles", "kLeastAbsErrorsCycles") or spec.get("ign_pct") is not None: return False
    spec["trust_pct"] = rng.choice([0, 25, 50, 100])
    return v_neg(spec, rng)

def v_cycle(spec, rng):
    """close a cycle, keeping conservation: add (v,u) with weight c and add c to (u,v)"""
    i = rng.randrange(len(spec["edges"])); (u, v, w) = spec["edges"][i]
    if any((a, b) == (v, u) for (a, b, _) in spec["edges"]):
        return False
    c = rng.randint(1, 3)
    spec["edges"][i] = (u, v, (w or 0) + c); spec["edges"].append((v, u, c))
    return not nx.is_directed_acyclic_graph(_graph(spec))

def v_nosource(spec, rng):
    G = _graph(spec); srcs = [x for x in G if G.in_degree(x) == 0]
    others = [x for x in G if G.in_degree(x) > 0]
    if not others or spec["starts"]:
        return False
    for s in srcs:
        spec["edges"].append((rng.choice(others), s, 1))
    return True

def v_nosink(spec, rng):
    G = _graph(spec); snks = [x for x in G if G.out_degree(x) == 0]
    others = [x for x in G if G.out_degree(x) > 0]
    if not others or spec["ends"]:
        return False
    for t in snks:
        spec["edges"].append((t, rng.choice(others), 1))
    return True

def v_neg(spec, rng):
    el = _weighted_elems(spec)
    if not el: return False
    x = rng.choice(el)
    if spec["origin"] == "node":
        spec["node_w"][x] = -(abs(spec["node_w"][x]) + 1)
    else:
        (u, v, w) = spec["edges"][x]; spec["edges"][x] = (u, v, -(abs(w) + 1))
    return True

def v_missing(spec, rng):
    el = _weighted_elems(spec)
    if not el: return False
    x = rng.choice(el)
    if spec["origin"] == "node":
        spec["node_w"][x] = None
    else:
        (u, v, w) = spec["edges"][x]; spec["edges"][x] = (u, v, None)
    return True

def v_noncons(spec, rng):
    """break conservation at an inner node (edge mode) without touching signs / presence"""
    if spec["origin"] != "edge":
        return False
    G = _graph(spec)
    cand = [i for i, (u, v, w) in enumerate(spec["edges"]) if w is not None and (u, v) not in spec["ign"] and
            ((G.in_degree(u) > 0 and G.out_degree(u) > 0) or (G.in_degree(v) > 0 and G.out_degree(v) > 0))]
    if not cand: return False
    i = rng.choice(cand); (u, v, w) = spec["edges"][i]; spec["edges"][i] = (u, v, w + 1)
    return True

def _absent_edge(spec, rng):
    ns = [x for x in spec["nodes"] if isinstance(x, str)]
    have = {(u, v) for (u, v, _) in spec["edges"]}
    cand = [(a, b) for a in ns for b in ns if a != b and (a, b) not in have]
    return rng.choice(cand) if cand else ("zz_absent", "zz_absent2")

def v_cons_absent(spec, rng):
    if spec["origin"] == "node":
        item = "zz_absent" if (not spec["cons"] or isinstance(spec["cons"][0][0] if len(spec["cons"][0]) else "", str)) else _absent_edge(spec, rng)
    else:
        item = _absent_edge(spec, rng)
    if spec["cons"] and rng.random() < 0.5 and isinstance(spec["cons"][0], list):
        spec["cons"][0].append(item)
    else:
        spec["cons"].append([item])
    return True

def _good_item(spec, rng):
    if spec["origin"] == "node":
        return rng.choice([x for x in spec["nodes"]])
    (u, v, _) = rng.choice(spec["edges"]); return (u, v)

def v_cons_tuple(spec, rng):      # a constraint that is not a list
    spec["cons"].append((_good_item(spec, rng),)); return True

def v_cons_empty(spec, rng):      # an empty constraint
    spec["cons"].append([]); return True

def v_cons_item3(spec, rng):      # an item that is a 3-tuple
    g = _good_item(spec, rng)
    g = (g, g, g) if not isinstance(g, tuple) else (g[0], g[1], g[1])
    spec["cons"].append([g]); return True

def v_cons_itemint(spec, rng):    # an item that is neither a node name nor a tuple
    spec["cons"].append([5]); return True

def v_cons_edgelist_int(spec, rng):      # node mode: a constraint given as a list of edges with a non-iterable item
    if spec["origin"] != "node":
        return False
    (u, v, _) = rng.choice(spec["edges"])
    spec["cons"] = [[(u, v), 5]] + [c for c in spec["cons"] if c and isinstance(c[0], tuple)]
    return True

def _numeric_names(spec, rng):
    """rename every node to a numeric string ("1", "2", ... or "1.0", ...): values such as 1 or 1.0 then become near misses"""
    style = rng.choice(["int", "float"])
    for j, old in enumerate(list(spec["nodes"])):
        if isinstance(old, str):
            _rename(spec, old, "#%d" % j)
    for j, old in enumerate(list(spec["nodes"])):
        if isinstance(old, str) and old.startswith("#"):
            _rename(spec, old, str(j + 1) if style == "int" else "%d.0" % (j + 1))
    return style
def _near(name, style, rng):
    """a value that is NOT a node but turns into the node name under str()"""
    return int(name) if style == "int" else float(name)
def v_start_nearmiss(spec, rng):
    style = _numeric_names(spec, rng)
    spec["starts"] = spec["starts"] + [_near(rng.choice([x for x in spec["nodes"] if isinstance(x, str)]), style, rng)]; return True
def v_end_nearmiss(spec, rng):
    style = _numeric_names(spec, rng)
    spec["ends"] = spec["ends"] + [_near(rng.choice([x for x in spec["nodes"] if isinstance(x, str)]), style, rng)]; return True
def v_cons_nearmiss(spec, rng):
    """constraint elements that are existing nodes / edges only after str(): node 1 for "1", edge (1, 2) for ("1", "2")"""
    style = _numeric_names(spec, rng)
    (u, v, _) = rng.choice(spec["edges"])
    if spec["origin"] == "node":
        node_lists = (not spec["cons"]) or (len(spec["cons"][0]) > 0 and isinstance(spec["cons"][0][0], str))
        item = _near(u, style, rng) if node_lists else (_near(u, style, rng), _near(v, style, rng))
    else:
        item = (_near(u, style, rng), _near(v, style, rng))
    spec["cons"] = spec["cons"] + [[item]]; return True
def v_ign_nearmiss(spec, rng):
    if spec["origin"] != "node": return False       # edge mode: ignoring an absent edge is harmless and documented as such
    style = _numeric_names(spec, rng)
    spec["ign"] = spec["ign"] + [_near(rng.choice([x for x in spec["nodes"] if isinstance(x, str)]), style, rng)]; return True
def v_cons_mixed_item(spec, rng):
    """node mode: a node-type constraint (the type is decided by the first element) that contains an EXISTING edge tuple;
    edge mode: an edge-type constraint that contains an existing node name"""
    (u, v, _) = rng.choice(spec["edges"])
    if not (isinstance(u, str) and isinstance(v, str)): return False
    if spec["origin"] == "node":
        spec["cons"] = [[u, (u, v), v]] + [c for c in spec["cons"] if c and isinstance(c[0], str)]
    else:
        spec["cons"] = [[(u, v), rng.choice([u, v])]] + spec["cons"]
    return True
def v_cons_mixed_lists(spec, rng):
    """node mode: a node-type constraint first, then a constraint made of existing edges (and the other way round)"""
    if spec["origin"] != "node": return False
    (u, v, _) = rng.choice(spec["edges"])
    if not (isinstance(u, str) and isinstance(v, str)): return False
    if rng.random() < 0.6:
        spec["cons"] = [[u, v], [(u, v)]]
    else:
        spec["cons"] = [[(u, v)], [u, v]]
    return True
def v_cons_item_list(spec, rng):
    """an element given as a list instead of a tuple / a name"""
    (u, v, _) = rng.choice(spec["edges"])
    if spec["origin"] == "node" and (not spec["cons"] or (len(spec["cons"][0]) and isinstance(spec["cons"][0][0], str))):
        spec["cons"] = spec["cons"] + [[u, [u, v]]]
    else:
        spec["cons"] = spec["cons"] + [[[u, v]]]
    return True

def v_cov0(spec, rng):   spec["cov"] = 0; return True
def v_covneg(spec, rng): spec["cov"] = -0.5; return True
def v_covbig(spec, rng): spec["cov"] = 1.5; return True
def _with_len(spec, rng):
    """the related optional arguments get VALID values: a length-based coverage with its length attribute"""
    if spec["cls"] not in DAG_CLASSES:
        return False
    spec["cov_len"] = rng.choice([0.5, 1.0]); spec["len_attr"] = True
    return True
def v_cov0_with_len(spec, rng):   spec["cov"] = 0; return _with_len(spec, rng)
def v_covneg_with_len(spec, rng): spec["cov"] = -0.5; return _with_len(spec, rng)
def v_covbig_with_len(spec, rng): spec["cov"] = 1.5; return _with_len(spec, rng)
def _need_cons(spec, rng):
    if spec["cls"] not in DAG_CLASSES:
        return False
    if not spec["cons"]:
        spec["cons"] = [[_good_item(spec, rng)]]
    spec["cov"] = 1.0
    return True
def v_covlen0(spec, rng):
    if not _need_cons(spec, rng): return False
    spec["cov_len"] = 0; spec["len_attr"] = True; return True
def v_covlen_big(spec, rng):
    if not _need_cons(spec, rng): return False
    spec["cov_len"] = 1.5; spec["len_attr"] = True; return True
def v_covlen0_nocons(spec, rng):          # out of range also without constraints
    if spec["cls"] not in DAG_CLASSES or spec["cons"]: return False
    spec["cov_len"] = rng.choice([0, -0.5]); spec["len_attr"] = rng.random() < 0.5; return True
def v_covlen_big_nocons(spec, rng):
    if spec["cls"] not in DAG_CLASSES or spec["cons"]: return False
    spec["cov_len"] = 1.5; spec["len_attr"] = rng.random() < 0.5; return True
def v_covlen_no_attr(spec, rng):
    if not _need_cons(spec, rng): return False
    spec["cov_len"] = 0.5; spec["len_attr"] = False; return True
def v_covlen_and_cov(spec, rng):
    if not _need_cons(spec, rng): return False
    spec["cov_len"] = 0.5; spec["len_attr"] = True; spec["cov"] = 0.5; return True

def v_k0(spec, rng):     spec["k"] = 0; return True
def v_kneg(spec, rng):   spec["k"] = -2; return True
def _knum(spec): return isinstance(spec["k"], (int, float)) and not isinstance(spec["k"], bool)
def v_kfloat(spec, rng):
    if not _knum(spec): return False
    spec["k"] = float(spec["k"]) + 0.5; return True
def v_kfloatint(spec, rng):
    if not _knum(spec): return False
    spec["k"] = float(spec["k"]); return True
def v_kbool(spec, rng): spec["k"] = rng.random() < 0.7; return True
def _sup(spec, rng):
    """the related optional arguments get VALID values: given weights (and, at random, greedy off / constraints as they are)"""
    if spec["cls"] not in HAS_SUPERSET:
        return False
    spec["superset"] = sorted(spec["route_weights"]) + ([rng.randint(1, 6)] if rng.random() < 0.3 else [])
    if spec["cls"] == "kFlowDecomp" and rng.random() < 0.5:
        spec["opts"] = dict(spec["opts"], optimize_with_greedy=False)
    return True
def v_k0_sup(spec, rng): spec["k"] = 0; return _sup(spec, rng)
def v_kneg_sup(spec, rng): spec["k"] = -2; return _sup(spec, rng)
def v_kfloat_sup(spec, rng):
    if not _knum(spec): return False
    spec["k"] = float(spec["k"]) + rng.choice([0.5, 0.0]); return _sup(spec, rng)
def v_kbool_sup(spec, rng): spec["k"] = rng.random() < 0.7; return _sup(spec, rng)
def v_k0_greedy_off(spec, rng):
    if spec["cls"] != "kFlowDecomp": return False
    spec["k"] = rng.choice([0, -1]); spec["opts"] = dict(spec["opts"], optimize_with_greedy=False); return True
# None where it is not documented, a string
def v_knone(spec, rng):
    if spec["cls"] in K_NONE_ALLOWED: return False
    spec["k"] = None; spec["k_is_none"] = True
    if rng.random() < 0.4: _sup(spec, rng)
    return True
def v_kstr(spec, rng):
    spec["k"] = "2"
    if rng.random() < 0.4: _sup(spec, rng)
    return True
def v_wtype(spec, rng):  spec["wtype"] = "str"; return True
def v_origin(spec, rng): spec["origin"] = "vertex"; return True
def v_start(spec, rng):  spec["starts"] = spec["starts"] + ["zz_unknown"]; return True
def v_end(spec, rng):    spec["ends"] = spec["ends"] + ["zz_unknown"]; return True
def v_ign_malformed(spec, rng):
    spec["ign"] = spec["ign"] + [("a", "b", "c") if spec["origin"] != "node" else 5]; return True
def v_ign_absent_node(spec, rng):
    if spec["origin"] != "node": return False
    spec["ign"] = spec["ign"] + ["zz_absent"]; return True

VIOL = {"start_nearmiss": v_start_nearmiss, "end_nearmiss": v_end_nearmiss, "cons_nearmiss": v_cons_nearmiss,
        "ign_nearmiss": v_ign_nearmiss, "cons_mixed_item": v_cons_mixed_item, "cons_mixed_lists": v_cons_mixed_lists,
        "cons_item_list": v_cons_item_list, "missing_with_ignpct": v_missing_with_ignpct, "missing_with_trustpct": v_missing_with_trustpct,
        "neg_with_trustpct": v_neg_with_trustpct, "selfloop": v_selfloop, "ignpct_bad": v_ignpct_bad, "ignpct_with_ign": v_ignpct_with_ign, "trustpct_bad": v_trustpct_bad,
        "cov0_with_len": v_cov0_with_len, "covneg_with_len": v_covneg_with_len, "covbig_with_len": v_covbig_with_len,
        "covlen0_nocons": v_covlen0_nocons, "covlen_big_nocons": v_covlen_big_nocons, "covlen0": v_covlen0, "covlen_big": v_covlen_big, "covlen_no_attr": v_covlen_no_attr, "covlen_and_cov": v_covlen_and_cov,
        "nonstr": v_nonstr, "cycle": v_cycle, "nosource": v_nosource, "nosink": v_nosink, "neg": v_neg,
        "missing": v_missing, "noncons": v_noncons, "cons_absent": v_cons_absent, "cons_tuple": v_cons_tuple,
        "cons_empty": v_cons_empty, "cons_item3": v_cons_item3, "cons_itemint": v_cons_itemint, "cons_edgelist_int": v_cons_edgelist_int,
        "cov0": v_cov0, "covneg": v_covneg, "covbig": v_covbig, "k0": v_k0, "kneg": v_kneg, "kfloat": v_kfloat, "kbool": v_kbool, "k0_sup": v_k0_sup, "kneg_sup": v_kneg_sup,
        "kfloat_sup": v_kfloat_sup, "kbool_sup": v_kbool_sup, "k0_greedy_off": v_k0_greedy_off, "knone": v_knone, "kstr": v_kstr,
        "kfloatint": v_kfloatint, "wtype": v_wtype, "origin": v_origin, "start": v_start, "end": v_end,
        "ign_malformed": v_ign_malformed, "ign_absent_node": v_ign_absent_node}


def violations_for(cls):
    vs = ["nonstr"]
    if cls in NEEDS_DAG: vs += ["cycle", "selfloop"]
    if cls == "kMinPathErrorCycles": vs += ["ignpct_bad", "ignpct_with_ign"]
    if cls in ("kMinPathErrorCycles", "kLeastAbsErrorsCycles"): vs += ["trustpct_bad", "missing_with_trustpct", "neg_with_trustpct"]
    if cls == "kMinPathErrorCycles": vs.append("missing_with_ignpct")
    if cls in IS_CYC: vs += ["nosource", "nosink"]
    if cls in HAS_WEIGHTS: vs += ["neg", "missing"]
    if cls in IS_FD: vs.append("noncons")
    if cls in HAS_CONS: vs += ["cons_absent", "cons_tuple", "cons_empty", "cons_item3", "cons_itemint", "cons_edgelist_int", "cons_mixed_item", "cons_mixed_lists",
                                "cons_item_list", "cons_nearmiss", "cov0", "covneg", "covbig"]
    if cls in DAG_CLASSES: vs += ["cov0_with_len", "covneg_with_len", "covbig_with_len", "covlen0", "covlen_big", "covlen_no_attr", "covlen_and_cov",
                                  "covlen0_nocons", "covlen_big_nocons"]
    if cls in HAS_K: vs += ["k0", "kneg", "kfloat", "kfloatint", "kbool", "knone", "kstr"]
    if cls in HAS_SUPERSET: vs += ["k0_sup", "kneg_sup", "kfloat_sup", "kbool_sup"]
    if cls == "kFlowDecomp": vs.append("k0_greedy_off")
    if cls in HAS_WTYPE: vs.append("wtype")
    if cls in HAS_ORIGIN: vs += ["origin", "ign_malformed", "ign_absent_node"]
    if cls in HAS_STARTS: vs += ["start", "end", "start_nearmiss", "end_nearmiss"]
    if cls in HAS_ORIGIN: vs.append("ign_nearmiss")
    return vs


# ------------------------------------------------------------------------------------------ run on the implementation
def build_graph(spec, attr="flow"):
    G = nx.DiGraph()
    for v in spec["nodes"]:
        w = spec["node_w"].get(v) if spec["node_w"] else None
        if w is not None:
            G.add_node(v, **{attr: w})
        else:
            G.add_node(v)
    for (u, v, w) in spec["edges"]:
        if w is not None and spec["origin"] != "node":
            G.add_edge(u, v, **{attr: w})
        else:
            G.add_edge(u, v)
    return G


def _wtype(spec):
    return {"float": float, "int": int}.get(spec["wtype"], str)


def sync_graph(G, spec, attr="flow"):
    """edit the graph object G IN PLACE until it equals build_graph(spec) (same object: caches keyed by it stay attached)"""
    T = build_graph(spec, attr)
    for (u, v) in list(G.edges()):
        if not T.has_edge(u, v):
            G.remove_edge(u, v)
    for x in list(G.nodes()):
        if x not in T:
            G.remove_node(x)
    for x, d in T.nodes(data=True):
        if x not in G:
            G.add_node(x)
        G.nodes[x].clear(); G.nodes[x].update(d)
    for u, v, d in T.edges(data=True):
        if not G.has_edge(u, v):
            G.add_edge(u, v)
        G[u][v].clear(); G[u][v].update(d)
    return G


def construct(spec, G=None):
    """Call the constructor of spec['cls'] exactly as a user would; returns the model object.
    G: use this graph object (already equal to the spec's graph) instead of building a fresh one."""
    import flowpaths as fp
    cls = spec["cls"]; G = build_graph(spec) if G is None else G
    so = dict(SOLVER_OPTIONS)
    cons = copy.deepcopy(spec["cons"]); ign = list(spec["ign"]); st = list(spec["starts"]); en = list(spec["ends"])
    if cls == "stDAG":
        return fp.stDAG(G, additional_starts=st, additional_ends=en)
    if cls == "stDiGraph":
        return fp.stDiGraph(G, additional_starts=st, additional_ends=en)
    if cls == "NodeExpandedDiGraph":
        return fp.NodeExpandedDiGraph(G, node_flow_attr="flow", try_filling_in_missing_flow_attr=bool(st or en),
                                      additional_starts=st, additional_ends=en)
    C = getattr(fp, cls)
    kw = {"G": G, "solver_options": so}
    if cls in IS_COVER:
        kw["cover_type"] = spec["origin"]
    else:
        kw["flow_attr"] = "flow"; kw["flow_attr_origin"] = spec["origin"]; kw["weight_type"] = _wtype(spec)
    if cls in HAS_K:
        kw["k"] = spec["k"]
    if cls in HAS_SUPERSET and spec.get("superset") is not None:
        kw["solution_weights_superset"] = list(spec["superset"])
    if spec.get("opts") and cls in OPTION_VECTORS:
        kw["optimization_options"] = dict(spec["opts"])
    if cls in HAS_CONS:
        if cls in IS_CYC:
            kw["subset_constraints"] = cons; kw["subset_constraints_coverage"] = spec["cov"]
        else:
            kw["subpath_constraints"] = cons; kw["subpath_constraints_coverage"] = spec["cov"]
            if spec.get("cov_len") is not None:
                kw["subpath_constraints_coverage_length"] = spec["cov_len"]
            if spec.get("len_attr"):
                kw["length_attr"] = "len"
    kw["elements_to_ignore"] = ign
    if spec.get("ign_pct") is not None:
        kw["elements_to_ignore_percentile"] = spec["ign_pct"]
    if spec.get("trust_pct") is not None:
        kw["trusted_edges_for_safety_percentile"] = spec["trust_pct"]
    if cls != "kFlowDecomp":
        kw["additional_starts"] = st; kw["additional_ends"] = en
    elif st or en:
        raise _NotApplicable()
    return C(**kw)


class _NotApplicable(Exception):
    pass


def exc_kind(e):
    if isinstance(e, ValueError) and type(e) is ValueError:
        return "ValueError"
    return type(e).__name__


INNER = {"MinFlowDecomp": ("flowpaths.kflowdecomp", "kFlowDecomp"), "MinFlowDecompCycles": ("flowpaths.kflowdecompcycles", "kFlowDecompCycles"),
         "MinPathCover": ("flowpaths.kpathcover", "kPathCover"), "MinPathCoverCycles": ("flowpaths.kpathcovercycles", "kPathCoverCycles")}


def observe(spec, G=None):
    """-> dict(ctor=kind|None, solve=kind|None, solved=bool|None, inner=bool|None)
    inner: (Min* classes) the k-loop of solve() constructed at least one k-model"""
    if spec["cls"] in INNER:
        import importlib
        mod, name = INNER[spec["cls"]]
        C = getattr(importlib.import_module(mod), name)
        orig = C.__init__
        seen = []
        def wrapped(self, *a, **kw):
            seen.append(1)
            return orig(self, *a, **kw)
        C.__init__ = wrapped
        try:
            res = _observe(spec, G)
        finally:
            C.__init__ = orig
        if res is not None:
            res["inner"] = bool(seen)
        return res
    return _observe(spec, G)


def _observe(spec, G=None):
    res = {"ctor": None, "solve": None, "solved": None}
    try:
        m = construct(spec, G)
    except _NotApplicable:
        return None
    except SystemExit as e:
        res["ctor"] = "SystemExit"; return res
    except Exception as e:
        res["ctor"] = exc_kind(e); res["msg"] = str(e)[:120]; return res
    if spec["cls"] in GRAPH_CLASSES:
        return res
    try:
        m.solve()
    except SystemExit:
        res["solve"] = "SystemExit"
    except Exception as e:
        res["solve"] = exc_kind(e); res["msg"] = str(e)[:120]
    try:
        res["solved"] = bool(m.is_solved())
    except Exception as e:
        res["solved"] = None; res["is_solved_exc"] = exc_kind(e)
    return res
