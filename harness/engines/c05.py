"""C05 — optimisation options never change solvability or the optimal objective.
E2 differential: for every class that accepts optimization_options and every sampled instance the
model is run under a reference option vector (every optimisation off) and under the option vectors of
the tier (each documented flag alone, default, all-on, and pairs in the thorough tier); any two runs
that disagree on (solved, objective) are a concrete failing input.  The LP-level effect of each option
is covered by E1 in the encoder engines; the theorems are the fixing/zero-fixing/bounds lemmas."""
import itertools
import networkx as nx
import common, gen, gen2, zoo

LEVEL = "proof"
EXPLANATION = ("Props/C05.v: (a) fixing safe, pairwise incompatible sequences to distinct layers preserves feasibility and every "
               "objective value of a layer-permutation-invariant solution set (assign_layers / fix_preserves_opt); (b) zero-fixing "
               "edges that lie on no route containing the layer's sequence is sound; (c) a queued lower bound / fix is "
               "sat-equivalent to the corresponding `>= m` / `= 1` row (bounds_eq_rows), using C12's queued-bounds theorem. The "
               "hypotheses of (a)/(b) are discharged per instance by the verified deciders of C06 on the safety state the model "
               "actually holds. Per run, E2 compares solved status and objective across option vectors for every class.")
ASSUMPTIONS = ["solver specification", "objective tolerance 1e-6", "documented incompatible combinations (safe paths + safe sequences) raise ValueError and are skipped"]
TRUSTED = []

DAG_FLAGS = ["optimize_with_safe_paths", "optimize_with_safe_sequences", "optimize_with_safe_zero_edges",
             "optimize_with_subpath_constraints_as_safe_sequences", "optimize_with_safety_as_subpath_constraints",
             "optimize_with_safety_from_largest_antichain"]
KFD_FLAGS = ["optimize_with_greedy", "optimize_with_flow_safe_paths"]
MFD_FLAGS = ["use_min_gen_set_lowerbound", "use_subgraph_scanning_lowerbound", "optimize_with_guessed_weights",
             "use_min_gen_set_lowerbound_partition_constraints"]
CYC_FLAGS = ["optimize_with_safe_sequences", "optimize_with_safe_sequences_allow_geq_constraints",
             "optimize_with_safe_sequences_fix_via_bounds", "optimize_with_safe_sequences_fix_zero_edges",
             "optimize_with_safety_as_subset_constraints", "optimize_with_max_safe_antichain_as_subset_constraints"]
# the key the code reads for the given-weights pre-solve is "optimize_with_guessed_weights" (both classes)
MFDC_FLAGS = ["use_min_gen_set_lowerbound", "optimize_with_guessed_weights", "add_min_gen_set_to_given_weights"]


def flags_for(name):
    if name.endswith("Cycles"):
        return CYC_FLAGS + (MFDC_FLAGS if name == "MinFlowDecompCycles" else [])
    f = list(DAG_FLAGS)
    if name in ("kFlowDecomp", "MinFlowDecomp"):
        f += KFD_FLAGS
    if name == "MinFlowDecomp":
        f += MFD_FLAGS
    return f


def incompatible(o):
    """combinations the documentation declares invalid"""
    return (o.get("optimize_with_safe_paths") or o.get("optimize_with_flow_safe_paths")) and o.get("optimize_with_safe_sequences")


def vectors(name, tier, rng):
    """reference (all off), default, every primary flag alone, every (primary, modifier) pair, all-on,
    and random further pairs (all pairs in the thorough tier)"""
    fl = flags_for(name)
    off = {f: False for f in fl}
    vs = [("all-off", dict(off)), ("default", None)]
    if name.endswith("Cycles"):
        primaries = ["optimize_with_safe_sequences"]
        modifiers = [f for f in CYC_FLAGS if f != "optimize_with_safe_sequences"]
    else:
        primaries = ["optimize_with_safe_paths", "optimize_with_safe_sequences"] + (["optimize_with_flow_safe_paths"] if "optimize_with_flow_safe_paths" in fl else [])
        modifiers = ["optimize_with_safe_zero_edges", "optimize_with_subpath_constraints_as_safe_sequences",
                     "optimize_with_safety_as_subpath_constraints", "optimize_with_safety_from_largest_antichain"]
    others = [f for f in fl if f not in primaries and f not in modifiers]
    for f in primaries + others:
        o = dict(off); o[f] = True
        vs.append((f, o))
    for pr in primaries:
        for md in modifiers:
            o = dict(off); o[pr] = True; o[md] = True
            vs.append((pr + "+" + md, o))
            if name.endswith("Cycles") and md != "optimize_with_safe_sequences_allow_geq_constraints":
                o2 = dict(o); o2["optimize_with_safe_sequences_allow_geq_constraints"] = True
                vs.append((pr + "+geq+" + md, o2))
    allon = {f: True for f in fl}
    if not name.endswith("Cycles"):
        allon["optimize_with_safe_sequences"] = False
    vs.append(("all-on", allon))
    # sub-options that only act together with their parent option
    if name == "MinFlowDecomp":
        vs.append(("min-gen-set+partition-constraints", dict(off, use_min_gen_set_lowerbound=True, use_min_gen_set_lowerbound_partition_constraints=True)))
        vs.append(("min-gen-set+partition-constraints(len1,limit1)", dict(off, use_min_gen_set_lowerbound=True, use_min_gen_set_lowerbound_partition_constraints=True,
                   use_min_gen_set_lowerbound_partition_constraints_min_constraint_len=1, use_min_gen_set_lowerbound_partition_constraints_limit_num_constraints=1)))
        vs.append(("guessed-weights+min-gen-set", dict(off, optimize_with_guessed_weights=True, use_min_gen_set_lowerbound=True)))
    if name == "MinFlowDecompCycles":
        vs.append(("guessed-weights+min-gen-set+added", dict(off, optimize_with_guessed_weights=True, use_min_gen_set_lowerbound=True, add_min_gen_set_to_given_weights=True)))
        vs.append(("guessed-weights+free-walk", dict(off, optimize_with_guessed_weights=True, optimize_with_given_weights_num_free_walks=1)))
    pairs = list(itertools.combinations(fl, 2))
    take = pairs if tier == "thorough" else rng.sample(pairs, min(3, len(pairs)))
    for x, y in take:
        o = dict(off); o[x] = True; o[y] = True
        vs.append((x + "+" + y, o))
    seen = set(); out = []
    for n, o in vs:
        key = None if o is None else tuple(sorted(o.items()))
        if key in seen or (o is not None and incompatible(o)):
            continue
        seen.add(key); out.append((n, o))
    return out


def outcome(info, opts):
    try:
        m = zoo.construct(info, None if opts is None else dict(opts))
        m.solve()
    except ValueError as e:
        return ("ValueError", str(e)[:80])
    except Exception as e:
        return ("raise", repr(e)[:120])
    if not m.is_solved():
        return ("unsolved", None)
    try:
        return ("solved", m.get_objective_value())
    except Exception as e:
        return ("raise", repr(e)[:120])


def same(a, b):
    if a[0] != b[0]:
        return False
    if a[0] != "solved":
        return True
    x, y = a[1], b[1]
    if isinstance(x, (int, float)) and isinstance(y, (int, float)):
        return abs(x - y) <= 1e-6 * max(1, abs(x), abs(y))
    return x == y


def run(ctx):
    ctx.rule = ("every class accepting optimization_options on random small instances (edge/node mode, constraints, ignore sets); "
                "option vectors: all-off (reference), default, each flag alone, all-on, 3 random pairs (all pairs in the thorough tier); "
                "non-trivial = instance on which the reference run is solved; distinct by (class, instance)")
    n = ctx.budget(96, 2400)
    for i in range(n):
        rng = ctx.rng("opt", i)
        name = zoo.ALL[i % len(zoo.ALL)]
        info = zoo.make(rng, name, node=rng.random() < 0.2, exact=rng.random() < 0.5)
        vs = vectors(name, ctx.tier, rng)
        ref = outcome(info, vs[0][1])
        ctx.case(zoo.describe(info), nontrivial=ref[0] == "solved", sample={"class": name, "reference": list(ref), "vectors": [v[0] for v in vs]})
        ctx.dist(name)
        for vn, o in vs[1:]:
            got = outcome(info, o)
            ctx.count("E2_option_vectors", "runs")
            if not same(ref, got):
                ctx.report(f"{name}: option vector '{vn}' changes the result: reference (all optimisations off) {ref}, with options {got}",
                           {"instance": zoo.describe(info), "options": o, "reference_options": vs[0][1], "reference": list(ref), "got": list(got)})
                break

    # flow decomposition with constraints from arbitrary routes and relaxed coverage: the greedy shortcut, the safety
    # options and the plain MILP must agree
    import flowpaths as fp
    for i in range(ctx.budget(700, 8000)):
        rng = ctx.rng("advfd", i)
        G, cons, cov, is_int = gen2.adversarial_fd_instance(rng)
        if not cons:
            continue
        base = dict(flow_attr="flow", weight_type=int if is_int else float, subpath_constraints=cons,
                    subpath_constraints_coverage=cov, solver_options={"threads": zoo.THREADS})
        info = {"class": "MinFlowDecomp", "G": G, "kwargs": base, "node": False}
        off = {f: False for f in flags_for("MinFlowDecomp")}
        ref = outcome(info, off)
        ctx.case(["advfd", zoo.describe(info)], nontrivial=ref[0] == "solved"); ctx.count("E2_option_vectors", "adversarial_constraint_cases")
        for vn, o in (("default", None), ("greedy", dict(off, optimize_with_greedy=True)),
                      ("greedy+flow-safe", dict(off, optimize_with_greedy=True, optimize_with_flow_safe_paths=True)),
                      ("safe-paths+constraints-as-safe-sequences", dict(off, optimize_with_safe_paths=True, optimize_with_subpath_constraints_as_safe_sequences=True))):
            got = outcome(info, o)
            ctx.count("E2_option_vectors", "runs")
            if not same(ref, got):
                ctx.report(f"MinFlowDecomp: option vector '{vn}' changes the result: reference (all optimisations off) {ref}, with options {got}",
                           {"instance": zoo.describe(info), "options": o, "reference_options": off, "reference": list(ref), "got": list(got)})
                break

    scan_windows(ctx, ctx.budget(90, 2500))
    mgs_premises(ctx, ctx.budget(80, 2000))
    mgs_premises_cycles(ctx, ctx.budget(40, 1000))
    length_safety(ctx, ctx.budget(300, 4000))
    import e3window   # E3: get_subgraph_between_topological_nodes == SubgraphBound.window_subgraph_opt (subgraph-scanning lower bound)
    e3window.run_window_e3(ctx, ctx.budget(150, 3000))


def crossing_instance(rng, big):
    """two weighted routes that cross in one node (after a common stretch), and a subpath constraint that enters the crossing
    on one route and leaves it on the other, to be covered to a fraction that the second route alone achieves: any part of
    the constraint seen in isolation (a scanning window) asks for more than the whole"""
    import networkx as nx
    G = nx.DiGraph(); G.graph["id"] = "crossing"
    L = rng.randint(16, 19) if big else rng.randint(0, 4)
    a, b = rng.sample([1, 2, 3, 4, 5, 6, 7], 2)
    chain = [f"c{i:02d}" for i in range(L)]
    for u, v in zip(chain, chain[1:]):
        G.add_edge(u, v, flow=a + b)
    heads = [chain[-1]] * 2 if chain else ["sa", "sb"]
    ra = [heads[0], "a0", "m", "a1"] + (["a2"] if rng.random() < 0.5 else [])
    rb = [heads[1], "b0", "m", "b1", "b2"] + (["b3"] if rng.random() < 0.5 else [])
    if rng.random() < 0.5:
        ra.append("t"); rb.append("t")
    for r, w in ((ra, a), (rb, b)):
        for e in zip(r, r[1:]):
            G.add_edge(*e, flow=G.edges[e]["flow"] + w if G.has_edge(*e) else w)
    kw = dict(flow_attr="flow", weight_type=int, solver_options={"threads": zoo.THREADS},
              subpath_constraints=[[("a0", "m"), ("m", "b1"), ("b1", "b2")]], subpath_constraints_coverage=rng.choice([0.6, 0.5, 0.66]))
    return {"class": "MinFlowDecomp", "G": G, "kwargs": kw, "node": False}


def scan_instance(rng, big):
    """a conserving flow on a random DAG with isolated nodes, ignore sets biased to whole topological stretches, and
    (sometimes) a subpath constraint taken from a generating route"""
    import networkx as nx
    if rng.random() < 0.2:
        return crossing_instance(rng, big)
    n = rng.randint(23, 27) if big else rng.randint(5, 11)
    names = [f"n{i}" for i in range(n)]
    rng.shuffle(names)
    D = nx.DiGraph()
    D.add_nodes_from(names)
    p = 0.08 if big else 0.3
    for a in range(n):
        for b in range(a + 1, min(n, a + (4 if big else n))):
            if rng.random() < (0.5 if big and b == a + 1 else p):
                D.add_edge(names[a], names[b])
    srcs = [v for v in D if D.in_degree(v) == 0 and D.out_degree(v) > 0]
    flows, routes = {}, []
    for _ in range(rng.randint(1, 4)):
        if not srcs:
            break
        w = rng.randint(1, 6); v = rng.choice(srcs); r = [v]
        while D.out_degree(v) > 0:
            u = rng.choice(sorted(D.successors(v))); flows[(v, u)] = flows.get((v, u), 0) + w; v = u; r.append(v)
        routes.append(r)
    G = nx.DiGraph(); G.graph["id"] = "scan"
    for v in names:
        if D.degree(v) > 0 and any(v in e for e in flows) or rng.random() < (0.9 if big else 0.4):
            G.add_node(v)                                        # isolated nodes: legal, nothing to decompose there
    for (u, v), f in flows.items():
        G.add_edge(u, v, flow=f)
    if G.number_of_edges() == 0:
        return scan_instance(rng, big)
    kw = dict(flow_attr="flow", weight_type=int, solver_options={"threads": zoo.THREADS})
    es = list(G.edges())
    r = rng.random()
    ign = []
    if r < 0.25:
        ign = [e for e in es if rng.random() < 0.25]
    elif r < 0.5:
        # every edge touching a stretch of the node order is ignored
        a = rng.randrange(n); b = min(n, a + rng.randint(1, 22 if big else 4)); st = set(names[a:b])
        if big and rng.random() < 0.6:                           # a whole shipped-size window of the order networkx reports
            st = set(list(nx.topological_sort(G))[:21])
        ign = [e for e in es if e[0] in st or e[1] in st]
    if 0 < len(ign) < len(es):
        for e in ign:
            G.edges[e]["flow"] = rng.randint(0, 9)               # an ignored value is arbitrary
        kw["elements_to_ignore"] = ign
    if routes and rng.random() < 0.6:
        # constraints from ARBITRARY source-to-sink routes of the graph (they typically straddle scanning windows), sometimes
        # with a relaxed coverage fraction
        cons = []
        for _ in range(rng.randint(1, 2)):
            v = rng.choice(sorted(x for x in G.nodes() if G.in_degree(x) == 0 and G.out_degree(x) > 0)); r0 = [v]
            while G.out_degree(v) > 0:
                v = rng.choice(sorted(G.successors(v))); r0.append(v)
            if len(r0) >= 3:
                i = rng.randrange(len(r0) - 2); j = rng.randint(i + 2, len(r0) - 1)
                cons.append(list(zip(r0[i:j], r0[i + 1:j + 1])))
        if cons:
            kw["subpath_constraints"] = cons
            if rng.random() < 0.65:
                kw["subpath_constraints_coverage"] = rng.choice([0.5, 0.5, 0.6, 0.75])
    return {"class": "MinFlowDecomp", "G": G, "kwargs": kw, "node": False}


def scan_outcome(info, opts, window):
    """MinFlowDecomp.subgraph_lowerbound_size/_shift are the class attributes that size the scanning windows (20/18 as
    shipped): set for the run, restored afterwards"""
    import flowpaths as fp
    C = fp.MinFlowDecomp
    old = (C.subgraph_lowerbound_size, C.subgraph_lowerbound_shift)
    C.subgraph_lowerbound_size, C.subgraph_lowerbound_shift = window
    try:
        return outcome(info, opts)
    finally:
        C.subgraph_lowerbound_size, C.subgraph_lowerbound_shift = old


def scan_windows(ctx, n):
    """subgraph-scanning lower bound: windows really arise only beyond 21 nodes with the shipped window size, so most cases
    shrink the window through its class attributes; one in six keeps 20/18 on a graph with 23..27 nodes"""
    off = {f: False for f in flags_for("MinFlowDecomp")}
    for i in range(n):
        rng = ctx.rng("scan", i)
        big = i % 6 == 5
        info = scan_instance(rng, big)
        size = 20 if big else rng.choice([2, 3, 4]); shift = 18 if big else rng.randint(1, size)
        ref = scan_outcome(info, off, (size, shift))
        ctx.case(["scan", zoo.describe(info), size, shift], nontrivial=ref[0] == "solved"); ctx.count("E2_option_vectors", "scan_window_cases")
        ctx.dist("scan-window-shipped-size" if big else "scan-window-reduced-size")
        for vn, o in (("scan", dict(off, use_subgraph_scanning_lowerbound=True)),
                      ("scan+greedy", dict(off, use_subgraph_scanning_lowerbound=True, optimize_with_greedy=True)),
                      ("scan+min-gen-set", dict(off, use_subgraph_scanning_lowerbound=True, use_min_gen_set_lowerbound=True)),
                      ("min-gen-set+partition-constraints", dict(off, use_min_gen_set_lowerbound=True, use_min_gen_set_lowerbound_partition_constraints=True,
                                                                  use_min_gen_set_lowerbound_partition_constraints_min_constraint_len=1)),
                      ("scan+guessed-weights", dict(off, use_subgraph_scanning_lowerbound=True, optimize_with_guessed_weights=True)),
                      ("scan+guessed-weights-without-window-weights", dict(off, use_subgraph_scanning_lowerbound=True, optimize_with_guessed_weights=True,
                                                                            use_subgraph_scanning_weights_in_given_weights_optimization=False)),
                      ("scan+safe-paths", dict(off, use_subgraph_scanning_lowerbound=True, optimize_with_safe_paths=True))):
            got = scan_outcome(info, o, (size, shift))
            ctx.count("E2_option_vectors", "runs")
            if not same(ref, got):
                ctx.report(f"MinFlowDecomp: option vector '{vn}' (scanning window {size}, shift {shift}) changes the result: reference "
                           f"(all optimisations off) {ref}, with options {got}",
                           {"instance": zoo.describe(info), "options": o, "reference_options": off, "window": [size, shift],
                            "reference": list(ref), "got": list(got)})
                break


def level_cut_instance(rng, fixed=False):
    """MinFlowDecomp instance = superposition of: two long routes s->p..->v->w->t, shortcuts s->v of the same routes, and a sink z
    right below the source carrying the sum of the long routes' weights (so that the edges 'one level below the source' computed
    with a wrong level function can sum to the source flow without being a cut)."""
    import networkx as nx
    a1, a2, b1, b2 = (2, 4, 1, 8) if fixed else (rng.choice([1, 2, 3]), rng.choice([4, 5, 6]), rng.choice([1, 7]), rng.choice([8, 9, 11]))
    depth = 3 if fixed else rng.choice([2, 3])
    routes = []
    for tag, a, b in (("", a1, b1), ("2", a2, b2)):
        mid = [f"m{tag}{j}" for j in range(depth)]
        routes.append((["s"] + mid + [f"v{tag}", f"w{tag}", "t"], a))
        routes.append((["s", f"v{tag}", f"w{tag}", "t"], b))
    routes.append((["s", "z"], a1 + a2))
    if not fixed and rng.random() < 0.5:
        routes.append((["s", "w", "t"], rng.choice([1, 2, 3])))          # one more shortcut level
    flow = {}
    for P, wgt in routes:
        for e in zip(P, P[1:]):
            flow[e] = flow.get(e, 0) + wgt
    es = list(flow)
    if not fixed:
        rng.shuffle(es)
    G = nx.DiGraph()
    for e in es:
        G.add_edge(*e, flow=flow[e])
    return {"class": "MinFlowDecomp", "G": G, "kwargs": {"flow_attr": "flow", "weight_type": int, "solver_options": {"threads": zoo.THREADS}}}


def is_exact_cut_multiset(G, live, part):
    """is there a set C of edges to be explained whose flow values are exactly the multiset `part` and that EVERY source-to-sink
    path of G crosses exactly once?  (exhaustive over the edge sets with that multiset of values; graphs are tiny)"""
    import itertools, collections
    import gen
    want = collections.Counter(part)
    by_val = collections.defaultdict(list)
    for e in live:
        if "flow" in G.edges[e]:
            by_val[G.edges[e]["flow"]].append(e)
    if any(len(by_val[v]) < c_ for v, c_ in want.items()):
        return False
    paths = [list(zip(p_, p_[1:])) for p_ in gen.all_st_paths(G) if len(p_) >= 2]     # an isolated node carries no flow: no route
    choices = [list(itertools.combinations(by_val[v], c_)) for v, c_ in want.items()]
    budget = 200000
    for combo in itertools.product(*choices):
        budget -= 1
        if budget < 0:
            return True                                    # undecided: do not blame
        C = set(e for grp in combo for e in grp)
        if all(sum(1 for e in p_ if e in C) == 1 for p_ in paths):
            return True
    return False


def option_changes_answer(info, opts_on, opts_off):
    """search for a failing input behind a broken premise: does the option change solvability / the number of routes on this instance?"""
    try:
        a = zoo.construct(info, opts_on); a.solve()
        b = zoo.construct(info, opts_off); b.solve()
    except Exception as e:
        return f"raised {e!r}"
    if a.is_solved() != b.is_solved():
        return f"solved {a.is_solved()} with the option, {b.is_solved()} without"
    if a.is_solved():
        key = "walks" if "walks" in a.get_solution() else "paths"
        na, nb = len(a.get_solution()[key]), len(b.get_solution()[key])
        if na != nb:
            return f"{na} routes with the option, {nb} without"
    return None


def mgs_premises(ctx, n):
    """Premises of C05_min_gen_set_option_is_sound, checked on the objects the code builds: whenever MinFlowDecomp consults
    MinGenSet for its lower bound, (a) the s-t graph has the shape the theorem assumes (nodes attached to the synthetic source
    have no other in-edge; exactly the synthetic edges are ignored), (b) the numbers handed over are flow values of edges to
    be explained, (c) the total is the flow over the edges leaving the graph's sources (LowerBounds.src_cut), (d) multiplicity
    1, same weight type, no partition constraints unless asked for; and when a weighted edge is ignored MinGenSet is not
    consulted at all."""
    import flowpaths as fp
    import inspect
    import flowpaths.mingenset as mgsmod
    cls_ = mgsmod.MinGenSet; real_init = cls_.__init__
    names_ = [p_ for p_ in inspect.signature(real_init).parameters][1:]
    for i in range(n):
        rng = ctx.rng("mgsprem", i)
        info = scan_instance(rng, False) if i % 2 else zoo.make(rng, "MinFlowDecomp", node=False, with_starts=False, exact=True)
        shortcut = i % 3 == 0
        if shortcut:
            # level-cut family (fixed corpus for i == 0): long routes and flow-carrying shortcuts from the source to deep nodes,
            # plus a sink right below the source whose inflow makes a WRONG level set sum to the source flow
            info = level_cut_instance(rng, fixed=(i == 0))
        seen = []

        def tapped(self, *a, **kw):          # the constructor itself is wrapped: independent of how the module imports the class
            seen.append(dict(zip(names_, a), **kw)); return real_init(self, *a, **kw)
        pc = True if shortcut else rng.random() < 0.3
        opts = {"use_min_gen_set_lowerbound": True, "optimize_with_greedy": False, "use_min_gen_set_lowerbound_partition_constraints": pc}
        cls_.__init__ = tapped
        try:
            m = zoo.construct(info, opts); lb = m.get_lowerbound_k()
        except ValueError as e:
            cls_.__init__ = real_init
            try:
                zoo.construct(info, {"use_min_gen_set_lowerbound": False, "optimize_with_greedy": False}).get_lowerbound_k()
            except ValueError:
                ctx.dist("mgs-premises:ValueError"); continue         # the instance itself is rejected: not this option's doing
            ctx.report(f"MinFlowDecomp.get_lowerbound_k() raises {e!r} with the min-gen-set lower bound on (partition constraints: {pc}); "
                       "without the option the same input is accepted", {"instance": zoo.describe(info), "options": opts})
            continue
        finally:
            cls_.__init__ = real_init
        G = info["G"]; ign = set(map(tuple, info["kwargs"].get("elements_to_ignore", [])))
        rep = {"instance": zoo.describe(info), "options": opts, "captured": [{k: v for k, v in c.items() if k != "solver_options"} for c in seen]}
        ctx.case(["mgsprem", zoo.describe(info), pc], nontrivial=bool(seen)); ctx.count("E2_min_gen_set_premises", "cases")
        weighted_ignored = any(G.has_edge(*e) and "flow" in G.edges[e] for e in ign)
        if weighted_ignored:
            ctx.count("E2_min_gen_set_premises", "guard_cases")
            if seen:
                ctx.report("MinFlowDecomp consulted MinGenSet for the lower bound although a weighted edge is ignored (the bound is only valid "
                           "when none is)", rep)
            continue
        if not seen:
            ctx.report("MinFlowDecomp did not consult MinGenSet although use_min_gen_set_lowerbound is on and no weighted edge is ignored", rep)
            continue
        c = seen[0]; st = fp.stDAG(G)
        s, t = st.source, st.sink
        live = [e for e in G.edges() if e not in ign]
        flows = {G.edges[e]["flow"] for e in live if "flow" in G.edges[e]}
        sources = [v for v in G.nodes() if G.in_degree(v) == 0]
        cut = [(u, v) for u in sources for v in G.successors(u) if (u, v) not in ign]
        problems = []
        for u in st.successors(s):
            if any(x != s for x in st.predecessors(u)):
                problems.append(f"node {u} is attached to the synthetic source and has another in-edge")
        # the ignore list of the k-model the search then builds (the instance the theorem speaks about)
        kw_k = {k_: v for k_, v in info["kwargs"].items()}
        km = fp.kFlowDecomp(G, k=max(1, lb), **kw_k)
        kign = set(map(tuple, km.edges_to_ignore)); synth = set(map(tuple, km.G.source_sink_edges))
        if {e for e in kign - synth if km.G.has_edge(*e)}:
            problems.append("a non-synthetic edge of the graph is ignored")
        if not synth <= kign:
            problems.append("a synthetic edge is not ignored in the k-model")
        if not set(c.get("numbers", [])) <= flows:
            problems.append(f"numbers {sorted(set(c.get('numbers', [])) - flows)} are not flow values of edges to be explained")
        if c.get("total") != sum(G.edges[e]["flow"] for e in cut):
            problems.append(f"total {c.get('total')} is not the flow over the edges leaving the sources ({sum(G.edges[e]['flow'] for e in cut)})")
        if c.get("max_multiplicity", 1) != 1:
            problems.append(f"max_multiplicity {c.get('max_multiplicity')}")
        if c.get("weight_type") is not info["kwargs"].get("weight_type", float):
            problems.append(f"weight type {c.get('weight_type')}")
        if (c.get("partition_constraints") is not None) != pc:
            problems.append(f"partition constraints {c.get('partition_constraints')} although the option is {pc}")
        if pc and c.get("partition_constraints"):
            for part in c["partition_constraints"]:
                if sum(part) != c.get("total") or not set(part) <= flows:
                    problems.append(f"partition constraint {part} does not split the total into flow values")
                elif not is_exact_cut_multiset(G, live, part):
                    problems.append(f"partition constraint {part} is not the multiset of flow values of any set of edges that every "
                                    "source-to-sink path crosses exactly once (premise of min_gen_set_partition_constraint_is_sound)")
            ctx.count("E2_min_gen_set_premises", "partition_constraints_checked", len(c["partition_constraints"]))
        ctx.count("E2_min_gen_set_premises", "premises_checked")
        if problems:
            diff = option_changes_answer(info, opts, dict(opts, use_min_gen_set_lowerbound=False))
            rep["failing_input_search"] = diff or "the option does not change the answer on this instance"
            ctx.report("the MinGenSet instance built for the lower bound does not meet the premises of C05_min_gen_set_option_is_sound: "
                       + "; ".join(problems) + (f" -- and the answer changes: {diff}" if diff else ""), rep, concrete=bool(diff))


def mgs_premises_cycles(ctx, n):
    """Premises of C05_min_gen_set_option_is_sound_for_walks on the objects MinFlowDecompCycles builds: when it consults MinGenSet,
    (a) the numbers are flow values of the graph's edges, (b) the total is the flow leaving the sources, (c) max_multiplicity is
    at least the largest repetition cap of the k-model the search then builds (`mult P i e <= mg_mult` must hold for EVERY walk
    family the k-model admits, and a walk may repeat an edge up to its cap), same weight type; flows from walk families in
    which the lightest walk is never alone on an edge are part of the generator (there a multiplicity counted in units of
    the smallest flow value is too small)."""
    import flowpaths as fp
    import inspect
    import flowpaths.mingenset as mgsmod
    cls_ = mgsmod.MinGenSet; real_init = cls_.__init__
    names_ = [p_ for p_ in inspect.signature(real_init).parameters][1:]
    for i in range(n):
        rng = ctx.rng("mgspremc", i)
        if i % 3 == 0:
            # chain s -> x1 -> ... -> t with self-loops / 2-cycles; every walk uses the whole chain, loops are shared
            G = nx.DiGraph(); G.graph["id"] = f"mgsc{i}"
            L = rng.randint(2, 4); chain = ["s"] + [f"x{j}" for j in range(L)] + ["t"]
            ws = [rng.randint(1, 5) for _ in range(rng.randint(2, 3))]
            for e in gen.pairs(chain): G.add_edge(*e, flow=sum(ws))
            for j in range(L):
                if rng.random() < 0.7:
                    reps = [rng.randint(0, 2) for _ in ws]
                    if sum(r * w for r, w in zip(reps, ws)) > 0:
                        G.add_edge(f"x{j}", f"x{j}", flow=sum(r * w for r, w in zip(reps, ws)))
            info = {"class": "MinFlowDecompCycles", "G": G, "ignore": [],
                    "kwargs": {"flow_attr": "flow", "weight_type": int, "solver_options": {"threads": 1}}}
        else:
            info = zoo.make(rng, "MinFlowDecompCycles", node=False, with_starts=False, with_ignore=False, exact=True)
        seen = []

        def tapped(self, *a, **kw):
            seen.append(dict(zip(names_, a), **kw)); return real_init(self, *a, **kw)
        opts = {"use_min_gen_set_lowerbound": True}
        cls_.__init__ = tapped
        try:
            m = zoo.construct(info, opts); lb = m.get_lowerbound_k()
        except ValueError:
            ctx.dist("mgs-premises-cycles:ValueError"); continue
        finally:
            cls_.__init__ = real_init
        G = info["G"]
        rep = {"instance": zoo.describe(info), "options": opts, "captured": [{k: v for k, v in c.items() if k != "solver_options"} for c in seen]}
        ctx.case(["mgspremc", zoo.describe(info)], nontrivial=bool(seen)); ctx.count("E2_min_gen_set_premises", "cyclic_cases")
        if not seen:
            continue            # ignored weighted edge / unweighted edges: the guard, covered for the DAG class above
        c = seen[0]
        flows = {d["flow"] for _, _, d in G.edges(data=True) if "flow" in d}
        problems = []
        if not set(c.get("numbers", [])) <= flows:
            problems.append(f"numbers {sorted(set(c.get('numbers', [])) - flows)} are not flow values")
        srcflow = sum(max(0, sum(d.get("flow", 0) for _, _, d in G.out_edges(v, data=True)) - sum(d.get("flow", 0) for _, _, d in G.in_edges(v, data=True))) for v in G.nodes())
        if c.get("total") != srcflow:
            problems.append(f"total {c.get('total')} is not the flow leaving the sources ({srcflow})")
        if c.get("weight_type") is not info["kwargs"].get("weight_type", float):
            problems.append(f"weight type {c.get('weight_type')}")
        try:
            kw_k = {k_: v for k_, v in info["kwargs"].items()}
            km = fp.kFlowDecompCycles(G, k=max(1, lb or 1), **kw_k)
            synth = set(map(tuple, km.G.source_sink_edges))
            cap = max([km.edge_upper_bounds[e] for e in km.G.edges() if tuple(e) not in synth] or [1])
        except Exception as e:
            ctx.report(f"kFlowDecompCycles for the lower bound's k raised {e!r}", rep); continue
        if c.get("max_multiplicity", 1) < cap:
            problems.append(f"max_multiplicity {c.get('max_multiplicity')} is below the largest repetition cap {cap} of the k-model: a walk "
                            "of an admissible decomposition may repeat an edge more often than MinGenSet may use an element")
        ctx.count("E2_min_gen_set_premises", "cyclic_premises_checked")
        if problems:
            diff = option_changes_answer(info, opts, {"use_min_gen_set_lowerbound": False})
            rep["failing_input_search"] = diff or "the option does not change the answer on this instance"
            ctx.report("the MinGenSet instance built for the lower bound of MinFlowDecompCycles does not meet the premises of "
                       "C05_min_gen_set_option_is_sound_for_walks: " + "; ".join(problems) + (f" -- and the answer changes: {diff}" if diff else ""),
                       rep, concrete=bool(diff))


def length_safety(ctx, n):
    """safety options x subpath constraints from arbitrary routes x coverage by LENGTH (fraction below 1) or by relaxed edge
    count, on the DAG decomposition and error classes: the constraint edges are then only partially required, which the
    safety machinery (trusted edges, constraints extended to safe sequences, safety as subpath constraints) must respect"""
    import flowpaths as fp
    import gen
    classes = ["kLeastAbsErrors", "kMinPathError", "MinFlowDecomp", "kFlowDecomp", "kPathCover", "MinPathCover"]
    for i in range(n):
        rng = ctx.rng("lensafe", i)
        name = classes[i % len(classes)]
        G, paths, ws, is_int = gen2.rand_flow_dag(rng, nmax=rng.choice([5, 6, 7]), npaths=(2, 4), zero_edges=name in ("kLeastAbsErrors", "kMinPathError"))
        allp = gen.all_st_paths(G)
        cons = []
        for _ in range(rng.randint(1, 2)):
            p_ = rng.choice(allp); es = list(zip(p_, p_[1:]))
            if len(es) >= 2:
                n_ = min(len(es), rng.choice([2, 3, 3])); a_ = rng.randrange(0, len(es) - n_ + 1); cons.append(es[a_:a_ + n_])
        if not cons:
            continue
        cover = name in ("kPathCover", "MinPathCover")
        kw = dict(flow_attr="flow", weight_type=int if is_int else float, subpath_constraints=cons, solver_options={"threads": zoo.THREADS})
        if cover:
            kw = dict(subpath_constraints=cons, solver_options={"threads": zoo.THREADS})
        heavy = rng.random() < 0.7
        if heavy:
            # ONE long edge of a generating path carries the required fraction of the constraint's length; the rest of the
            # constraint follows an arbitrary route, so the path that realises the constraint leaves it half-way
            cons = []
            for gp in rng.sample(paths, min(len(paths), 2)):
                ges = list(zip(gp, gp[1:]))
                if not ges:
                    continue
                # an edge of the generating path whose head offers ANOTHER way on than the generating path takes
                cand = [(i_, e_) for i_, e_ in enumerate(ges)
                        if [w_ for w_ in G.successors(e_[1]) if i_ + 1 >= len(ges) or w_ != ges[i_ + 1][1]]]
                czero = [(i_, e_) for i_, e_ in cand if any(G.edges[e_[1], w_]["flow"] == 0 for w_ in G.successors(e_[1]))]
                if czero and rng.random() < 0.7:
                    cand = czero
                if not cand:
                    continue
                i0, e0 = rng.choice(cand); tail = []
                v = e0[1]
                outs = sorted(w_ for w_ in G.successors(v) if i0 + 1 >= len(ges) or w_ != ges[i0 + 1][1])
                zero = [w_ for w_ in outs if G.edges[v, w_]["flow"] == 0]          # a way on that no weight wants to take
                w_ = rng.choice(zero if zero and rng.random() < 0.7 else outs); tail.append((v, w_)); v = w_
                while G.out_degree(v) > 0 and rng.random() < 0.4:
                    w_ = rng.choice(sorted(G.successors(v))); tail.append((v, w_)); v = w_
                head = []
                if rng.random() < 0.4 and G.in_degree(e0[0]) > 0:
                    u_ = rng.choice(sorted(G.predecessors(e0[0]))); head = [(u_, e0[0])]
                if tail or head:
                    cons.append(head + [e0] + tail)
            if not cons:
                continue
            for e in G.edges():
                G.edges[e]["len"] = rng.choice([1, 1, 2, 5, 10])
            # the fraction is what the edge shared with the generating path alone contributes (lengths elsewhere are arbitrary,
            # so edges that a safety extension of the constraint would add may be long)
            fr = []
            for c in cons:
                e0 = next(e for e in c if any(e in zip(gp, gp[1:]) for gp in paths))
                G.edges[e0]["len"] = rng.choice([5, 10])
            for c in cons:
                e0 = next(e for e in c if any(e in zip(gp, gp[1:]) for gp in paths))
                fr.append(G.edges[e0]["len"] / sum(G.edges[e]["len"] for e in c))
            f0 = int(min(fr) * 100) / 100
            if f0 < 0.2:
                continue
            kw["subpath_constraints"] = cons
            kw["length_attr"] = "len"; kw["subpath_constraints_coverage_length"] = f0
            ctx.count("E2_option_vectors", "partial_length_coverage_leaving_the_route")
        elif rng.random() < 0.65:
            for e in G.edges():
                G.edges[e]["len"] = rng.choice([1, 2, 3, 5])
            kw["length_attr"] = "len"; kw["subpath_constraints_coverage_length"] = rng.choice([0.3, 0.5, 0.6, 0.75])
        else:
            kw["subpath_constraints_coverage"] = rng.choice([0.5, 0.5, 0.75])
        if name in ("kLeastAbsErrors", "kMinPathError") and rng.random() < 0.5:
            for e in G.edges():
                if rng.random() < 0.3:
                    G.edges[e]["flow"] = max(0, G.edges[e]["flow"] + rng.choice([-1, 1, 2]) * (1 if is_int else 0.5))
        if name not in ("MinFlowDecomp", "MinPathCover"):
            kw["k"] = max(1, len(set(map(tuple, paths))) + rng.choice([-1, -1, 0, 0, 1]))
            if cover and rng.random() < 0.6:
                kw["k"] = rng.choice([1, 1, 2])        # below the width: must stay infeasible whatever the options
        info = {"class": name, "G": G, "kwargs": kw, "node": False}
        off = {f: False for f in flags_for(name)}
        ref = outcome(info, off)
        ctx.case(["lensafe", zoo.describe(info)], nontrivial=ref[0] == "solved"); ctx.count("E2_option_vectors", "length_coverage_safety_cases")
        ctx.dist("lensafe:" + name)
        vecs = [("default", None),
                ("safe-paths", dict(off, optimize_with_safe_paths=True)),
                ("safe-sequences", dict(off, optimize_with_safe_sequences=True)),
                ("safe-paths+safety-as-constraints", dict(off, optimize_with_safe_paths=True, optimize_with_safety_as_subpath_constraints=True)),
                ("safe-sequences+safety-as-constraints", dict(off, optimize_with_safe_sequences=True, optimize_with_safety_as_subpath_constraints=True)),
                ("safe-paths+constraints-as-safe-sequences+safety-as-constraints",
                 dict(off, optimize_with_safe_paths=True, optimize_with_subpath_constraints_as_safe_sequences=True, optimize_with_safety_as_subpath_constraints=True)),
                ("safe-sequences+constraints-as-safe-sequences+zero-edges",
                 dict(off, optimize_with_safe_sequences=True, optimize_with_subpath_constraints_as_safe_sequences=True, optimize_with_safe_zero_edges=True))]
        for vn, o in vecs:
            if o is not None and incompatible(o):
                continue
            got = outcome(info, o)
            ctx.count("E2_option_vectors", "runs")
            if not same(ref, got):
                ctx.report(f"{name}: option vector '{vn}' changes the result under partial constraint coverage: reference (all optimisations off) "
                           f"{ref}, with options {got}",
                           {"instance": zoo.describe(info), "options": o, "reference_options": off, "reference": list(ref), "got": list(got)})
                break


def replay(ctx, body):
    """re-runs a reported case: the instance under the reference options and under the reported option vector (with the scanning
    window of the report, if any); True = the two outcomes still differ"""
    if "instance" not in body:
        print("REPLAY: this report carries no instance (correspondence-only)"); return None
    info = zoo.rebuild(body["instance"])
    ref_o = body.get("reference_options"); o = body.get("options")
    if "window" in body:
        w = tuple(body["window"]); ref = scan_outcome(info, ref_o, w); got = scan_outcome(info, o, w)
    elif ref_o is None and "captured" in body:
        ref = outcome(info, {"use_min_gen_set_lowerbound": False, "optimize_with_greedy": False}); got = outcome(info, o)
    else:
        ref = outcome(info, ref_o); got = outcome(info, o)
    print("reference options:", ref_o, "->", ref); print("reported options :", o, "->", got)
    return not same(ref, got)
