"""C02 — flow decompositions explain every non-ignored edge's flow exactly.
E1: LP of kFlowDecomp (MILP route, given-weights route) == PathEnc.encode_kfd / encode_kfd_given.
E2: explains_flow + weight type on every solution of kFlowDecomp / MinFlowDecomp (greedy, MILP,
    given weights; edge and node origin) and of the cyclic classes."""
from fractions import Fraction as F
import networkx as nx
import zoo, common, gen, gen2, lpdump, e1, props, vcheck
import gencheck_enc

LEVEL = "proof"
EXPLANATION = ("Props/C02.v: the rows generated for kFlowDecomp (PathEnc.encode_kfd) force, for every non-ignored edge, "
               "sum_i Pi(e,i) = f(e) with Pi(e,i) = Edge(e,i)*W(i) (C12 product theorem through the row-level bridge), hence the "
               "decoded paths (C01 decode theorem) with their weights explain the flow exactly; the given-weights rows likewise. "
               "Tie: E1 structural LP equality per instance; E2 the property evaluated on every returned solution.")
ASSUMPTIONS = ["HiGHS status kOptimal => returned assignment satisfies the rows within 1e-9 (solver specification, DESIGN §4)",
               "float weights: tolerance 1e-6 per route on an edge; integer weights: exact"]
TRUSTED = ["models: coq/theories/PathEnc.v, Blocks.v; LP read-back harness/lpdump.py, harness/e1.py"]
THREADS = 1


def kfd_request(m, ids, cmd="kfd", extra=()):
    st = m.G
    t = e1.path_inst_tokens(m, ids)
    t += e1.flow_tokens(st, ids, m.flow_attr)
    t += e1.edge_list_tokens(m.edges_to_ignore, ids)
    t += common.qtok(m.w_max) + [m.weight_type == int]
    return cmd + " " + common.toks(t, list(extra))


def make_kfd(rng, node_mode=False):
    import flowpaths as fp
    G, paths, ws, is_int = gen2.rand_flow_dag(rng, nmax=rng.choice([4, 5, 6]), zero_edges=rng.random() < 0.4)
    G.graph["id"] = "graph 1"                 # many files start every block at the same id
    ign = gen2.rand_ignore(rng, G) if rng.random() < 0.4 else []
    cons = gen2.rand_constraints(rng, paths) if rng.random() < 0.5 else []
    kw = {}
    if cons:
        r = rng.random()
        if r < 0.3:
            kw["subpath_constraints_coverage"] = rng.choice([0.5, 0.75, 0.25])
        elif r < 0.65:
            for e in G.edges():
                if rng.random() < 0.8:
                    G.edges[e]["len"] = rng.choice([1, 2, 3, 5, 0, 0])
            kw["subpath_constraints_coverage_length"] = rng.choice([1, 0.5, 0.75])
            kw["length_attr"] = "len"
    k = max(1, len(set(map(tuple, paths))) + rng.choice([-1, 0, 0, 1]))
    opts = {"optimize_with_greedy": rng.random() < 0.3, "optimize_with_safe_paths": rng.random() < 0.5,
            "optimize_with_safe_sequences": False, "optimize_with_flow_safe_paths": rng.random() < 0.3}
    if opts["optimize_with_flow_safe_paths"]:
        opts["optimize_with_safe_paths"] = False
    given = None
    if rng.random() < 0.2 and not ign:
        given = sorted(set(ws)) + ([rng.choice([1, 2, 5])] if rng.random() < 0.5 else [])
        given = [int(x) if is_int else float(x) for x in given]
    args = dict(G=G, flow_attr="flow", k=k, weight_type=int if is_int else float, subpath_constraints=cons,
                elements_to_ignore=ign, optimization_options=opts, solver_options={"threads": THREADS}, **kw)
    if given is not None:
        args["solution_weights_superset"] = given
    return args, paths, ws


def describe(args):
    G = args["G"]
    d = {k: v for k, v in args.items() if k not in ("G", "weight_type")}
    d["edges"] = [[u, v, dict(dd)] for u, v, dd in G.edges(data=True)]
    d["weight_type"] = args["weight_type"].__name__
    return d


def check_solution(ctx, cls, args, m, sol, routes_key="paths"):
    """C02 (and the C01 shape clauses it relies on) on the implementation's answer"""
    G = args["G"]; wt = args["weight_type"]
    routes = sol[routes_key]; weights = sol["weights"]
    rep = {"class": cls, "args": describe(args), "solution": {routes_key: routes, "weights": weights}}
    if len(routes) != len(weights):
        ctx.report("number of weights differs from number of routes", rep); return False
    for w in weights:
        if wt == int and not (isinstance(w, int) or float(w).is_integer()):
            ctx.report(f"weight {w!r} is not an integer although weight_type=int", rep); return False
        if w < -1e-9:
            ctx.report(f"negative weight {w!r}", rep); return False
    for w in weights:
        if wt == int and not isinstance(w, int):
            ctx.report(f"weight {w!r} has type {type(w).__name__}, requested int", rep); return False
        if wt == float and not isinstance(w, (float, int)):
            ctx.report(f"weight {w!r} has type {type(w).__name__}, requested float", rep); return False
    nonempty = [r for r in routes if len(r) > 0]
    if len(nonempty) > args.get("k", len(nonempty)) and cls == "kFlowDecomp":
        ctx.report(f"kFlowDecomp(k={args['k']}) returned {len(nonempty)} non-empty paths", rep); return False
    why = props.explains_flow(G, args["flow_attr"], routes, weights, ignore=args.get("elements_to_ignore", []), exact=(wt == int))
    if wt == int and VB is not None:
        # integer weights: decided exactly by the verified checker Checkers.explains_b
        VB.explains(G, args["flow_attr"], routes, weights, [tuple(e) for e in args.get("elements_to_ignore", [])], why is None,
                    "returned decomposition does not explain the flow: " + str(why), rep)
        return why is None
    if why:
        ctx.report("returned decomposition does not explain the flow: " + why, rep); return False
    return True


VB = None


def run(ctx):
    global VB
    import flowpaths as fp
    VB = vcheck.Batch(ctx)
    lpdump.install()
    ctx.rule = ("kFlowDecomp on random DAGs (<= 6 nodes) with flows = superpositions of 1-4 weighted paths (int / dyadic float), "
                "ignore sets, subpath constraints (edge / length coverage), greedy on/off, safe-path options, given weights; "
                "non-trivial = LP has >= 1 product block and >= 2 layers, or a solved instance with >= 2 routes")
    n = ctx.budget(160, 12000)
    for i in range(n):
        rng = ctx.rng("kfd", i)
        args, paths, ws = make_kfd(rng)
        lpdump.reset()
        try:
            m = fp.kFlowDecomp(**args)
        except ValueError as e:
            ctx.dist("ctor ValueError"); continue
        ids = e1.ids_of(m.G)
        given = args.get("solution_weights_superset")
        nontriv = False
        if not m.is_solved():
            impl = lpdump.dump_impl(m.solver, e1.colkey_dag(m, ids))
            if given is None:
                req = kfd_request(m, ids, "kfd")
            else:
                req = kfd_request(m, ids, "kfdw", extra=[len(given), [common.qtok(w) for w in given], args["k"]])
            d = e1.compare(ctx, "E1_kFlowDecomp_LP", "kfd", m, impl, req, args)
            nontriv = m.k >= 2 and len(impl["rows"]) > 6
            ctx.dist("route:MILP" if given is None else "route:given-weights")
            if d:
                ctx.report("E1 correspondence broken: LP of kFlowDecomp differs from PathEnc.encode_kfd: " + "; ".join(d[:3]),
                           {"class": "kFlowDecomp", "args": describe(args), "diff": d}, concrete=False)
        else:
            ctx.dist("route:greedy")
        try:
            m.solve()
        except Exception as e:
            ctx.report("solve() raised " + repr(e), {"class": "kFlowDecomp", "args": describe(args)}); continue
        if m.is_solved():
            sol = m.get_solution()
            ok = check_solution(ctx, "kFlowDecomp", args, m, sol)
            ctx.count("E2_explains_flow", "solved"); nontriv = nontriv or len(sol["paths"]) >= 2
        else:
            ctx.count("E2_explains_flow", "unsolved")
        ctx.case(describe(args), nontrivial=nontriv, sample={"edges": describe(args)["edges"], "k": args["k"],
                                                              "opts": args["optimization_options"]})
    # a broken correspondence without a failing input so far: search harder on the property level
    if ctx.engines.get("E1_kFlowDecomp_LP", {}).get("disagreements") and not any(v["concrete"] for v in ctx.violations):
        for i in range(ctx.budget(600, 6000)):
            rng = ctx.rng("search", i)
            args, paths, ws = make_kfd(rng)
            args["k"] = args["k"] + rng.choice([0, 1, 2])          # spare layers make over-/under-explaining visible
            args["optimization_options"]["optimize_with_greedy"] = False
            try:
                m = fp.kFlowDecomp(**args); m.solve()
            except Exception:
                continue
            ctx.count("search_after_broken_E1", "cases")
            if m.is_solved() and not check_solution(ctx, "kFlowDecomp", args, m, m.get_solution()):
                break
    # large magnitudes: conservation must be tested exactly; a flow that misses conservation by one unit
    # must be rejected (ValueError) or, if a model is built and solved, still be explained exactly
    for i in range(ctx.budget(40, 800)):
        rng = ctx.rng("big", i)
        G, paths, ws, is_int = gen2.rand_flow_dag(rng, nmax=5, intw=True)
        scale = 10 ** rng.choice([9, 10, 12])
        for e in G.edges():
            G.edges[e]["flow"] *= scale
        inner = [v for v in G if G.in_degree(v) > 0 and G.out_degree(v) > 0]
        broken = bool(inner) and rng.random() < 0.6
        if broken:
            v = rng.choice(inner); e = rng.choice(list(G.in_edges(v)))
            G.edges[e]["flow"] += rng.choice([1, 2, 3])
        args = dict(G=G, flow_attr="flow", k=len(set(map(tuple, paths))) + 1, weight_type=int, solver_options={"threads": THREADS})
        ctx.case(["big", describe(args)], nontrivial=True); ctx.count("E2_large_magnitudes", "cases")
        try:
            m = fp.kFlowDecomp(**args); m.solve()
        except ValueError:
            if not broken:
                ctx.report("kFlowDecomp rejected a conserving flow with large values", {"class": "kFlowDecomp", "args": describe(args)})
            continue
        except Exception as e:
            ctx.report("kFlowDecomp raised " + repr(e), {"class": "kFlowDecomp", "args": describe(args)}); continue
        if m.is_solved():
            check_solution(ctx, "kFlowDecomp", args, m, m.get_solution())
    # MinFlowDecomp: every route (greedy / MILP / lower bounds / node origin)
    n2 = ctx.budget(60, 1500)
    for i in range(n2):
        rng = ctx.rng("mfd", i)
        G, paths, ws, is_int = gen2.rand_flow_dag(rng, nmax=5)
        cons = gen2.rand_constraints(rng, paths) if rng.random() < 0.4 else []
        opts = {"optimize_with_greedy": rng.random() < 0.5}
        args = dict(G=G, flow_attr="flow", weight_type=int if is_int else float, subpath_constraints=cons,
                    optimization_options=opts, solver_options={"threads": THREADS})
        try:
            m = fp.MinFlowDecomp(**args); m.solve()
        except ValueError:
            ctx.dist("mfd ValueError"); continue
        except Exception as e:
            ctx.report("MinFlowDecomp raised " + repr(e), {"class": "MinFlowDecomp", "args": describe(args)}); continue
        ctx.case(["mfd", describe(args)], nontrivial=True)
        if m.is_solved():
            ctx.count("E2_explains_flow", "mfd_solved")
            check_solution(ctx, "MinFlowDecomp", args, m, m.get_solution())
        else:
            ctx.count("E2_explains_flow", "mfd_unsolved")
    # the cyclic decompositions: explains_flow with multiplicities (weight times number of traversals), over random
    # safety option vectors (the fixing variants change which rows/bounds carry the decomposition)
    CYC = ["optimize_with_safe_sequences", "optimize_with_safe_sequences_allow_geq_constraints",
           "optimize_with_safe_sequences_fix_via_bounds", "optimize_with_safe_sequences_fix_zero_edges",
           "optimize_with_safety_as_subset_constraints"]
    for i in range(ctx.budget(90, 2000)):
        rng = ctx.rng("cyc", i)
        name = "kFlowDecompCycles" if i % 3 else "MinFlowDecompCycles"
        node = rng.random() < 0.3
        info = zoo.make(rng, name, node=node, with_cons=rng.random() < 0.3, with_ignore=rng.random() < 0.3, nmax=6)
        r = rng.random()
        opts = None if r < 0.25 else {f: (rng.random() < 0.5) for f in CYC}
        if opts is not None:
            opts["optimize_with_safe_sequences"] = True if r < 0.85 else opts["optimize_with_safe_sequences"]
            if r < 0.55:       # fixing through bounds only (no rows, no zero-fixing): the decomposition rows rely on the queued bounds
                opts["optimize_with_safe_sequences_fix_via_bounds"] = True; opts["optimize_with_safe_sequences_fix_zero_edges"] = False
            info["kwargs"]["optimization_options"] = opts
        args = dict(G=info["G"], flow_attr="flow", weight_type=info["kwargs"]["weight_type"],
                    elements_to_ignore=[tuple(e) for e in info["ignore"]], optimization_options=opts)
        if info["kwargs"].get("k") is not None:
            args["k"] = info["kwargs"]["k"]
        try:
            m = zoo.construct(info); m.solve()
        except ValueError:
            ctx.dist("cyc ValueError"); continue
        except Exception as e:
            ctx.report(f"{name} raised {e!r}", {"class": name, "instance": zoo.describe(info)}); continue
        ctx.case(["cyc", zoo.describe(info)], nontrivial=True)
        if m.is_solved() and node:
            # node-weighted input: every non-ignored node's weight = sum over walks of weight * number of visits
            ctx.count("E2_explains_flow", "cyclic_node_mode_solved")
            sol = m.get_solution(); G = info["G"]; exact = info["kwargs"]["weight_type"] == int
            rep = {"class": name, "instance": zoo.describe(info), "solution": {"walks": sol["walks"], "weights": sol["weights"]}}
            if len(sol["walks"]) != len(sol["weights"]):
                ctx.report("number of weights differs from number of walks", rep); continue
            acc = {}
            for wk, w in zip(sol["walks"], sol["weights"]):
                for v in wk:
                    acc[v] = acc.get(v, 0) + (F(w) if exact else float(w))
            bad = next((f"node {v!r}: explained {acc.get(v, 0)} != weight {d['flow']}" for v, d in G.nodes(data=True)
                        if "flow" in d and v not in info["ignore"] and abs(float(acc.get(v, 0)) - float(d["flow"])) > (0 if exact else 1e-6 * (1 + len(sol["walks"])))), None)
            if bad:
                ctx.report(f"{name} (node-weighted): returned decomposition does not explain the node weights: {bad}", rep)
        elif m.is_solved():
            ctx.count("E2_explains_flow", "cyclic_solved")
            check_solution(ctx, name, args, m, m.get_solution(), routes_key="walks")
        else:
            ctx.count("E2_explains_flow", "cyclic_unsolved")
    # node-weighted walks through a self-loop: the node is visited once per traversal and its weight counts every visit
    for r in (1, 2, 3):
        for w in (1, 2, 2.5):
            for name in ("kFlowDecompCycles", "MinFlowDecompCycles"):
                G = nx.DiGraph(); G.graph["id"] = "graph 1"
                wt = float if isinstance(w, float) else int
                G.add_node("s", flow=wt(w)); G.add_node("a", flow=wt(w * (r + 1))); G.add_node("b", flow=wt(w)); G.add_node("t", flow=wt(w))
                G.add_edge("s", "a"); G.add_edge("a", "a"); G.add_edge("a", "b"); G.add_edge("b", "t")
                kw = dict(flow_attr="flow", flow_attr_origin="node", weight_type=wt, solver_options={"threads": THREADS})
                if name == "kFlowDecompCycles":
                    kw["k"] = 1
                rep = {"class": name, "family": "self-loop node mode", "r": r, "w": w}
                ctx.case(["selfloop", name, r, w], nontrivial=True); ctx.count("E2_explains_flow", "selfloop_family")
                try:
                    m = getattr(fp, name)(G, **kw); m.solve()
                except Exception as e:
                    ctx.report(f"{name} raised {e!r}", rep); continue
                if not m.is_solved():
                    # w * (r+1) visits need r loop traversals: beyond the implementation's cap this is the open scale finding of C04
                    ctx.count("E2_explains_flow", "selfloop_family_unsolved"); continue
                sol = m.get_solution(); rep["solution"] = {"walks": sol["walks"], "weights": sol["weights"]}
                acc = {}
                for wk, x in zip(sol["walks"], sol["weights"]):
                    for v in wk:
                        acc[v] = acc.get(v, 0) + float(x)
                bad = next((f"node {v!r}: explained {acc.get(v, 0)} != weight {d['flow']}" for v, d in G.nodes(data=True)
                            if abs(acc.get(v, 0) - float(d["flow"])) > 1e-6), None)
                if bad:
                    ctx.report(f"{name} (node-weighted, self-loop): returned decomposition does not explain the node weights: {bad}", rep)
    # ---- flow values whose numeric type differs from the requested weight type: weight_type=int on FLOAT flow values that are
    # integral (3.0) or not (2.5, x.25).  A solved model must still explain the input values exactly with weights of type int
    # (so on a non-integral flow every "solved" answer is wrong); weight_type=float on int values must return floats/ints.
    for i in range(ctx.budget(40, 800)):
        rng = ctx.rng("typemix", i)
        cyc = i % 2 == 1
        name = rng.choice(["kFlowDecompCycles", "MinFlowDecompCycles"] if cyc else ["kFlowDecomp", "MinFlowDecomp"])
        G0 = gen.rand_cyclic(rng, nmax=5) if cyc else gen.rand_dag(rng, nmax=6)
        srcs = [v for v in G0 if G0.in_degree(v) == 0]; snks = [v for v in G0 if G0.out_degree(v) == 0]
        if not srcs or not snks:
            continue
        G = nx.DiGraph(); G.graph["id"] = f"typemix{i}"; G.add_edges_from(G0.edges(), flow=0)
        kind = rng.choice(["integral_float", "integral_float", "half", "quarter", "one_fractional_route"])
        nroutes = rng.randint(1, 3); ok = True; used = []
        for j in range(nroutes):
            w = gen.rand_walk(rng, G0, maxlen=10) if cyc else rng.choice(gen.all_st_paths(G0))
            if w is None:
                ok = False; break
            base = rng.randint(1, 6)
            x = {"integral_float": float(base), "half": base + 0.5, "quarter": base + rng.choice([0.25, 0.5, 0.75]),
                 "one_fractional_route": (base + 0.5) if j == 0 else float(base)}[kind]
            used.append(x)
            for e in gen.pairs(w):
                G.edges[e]["flow"] += x
        if not ok:
            continue
        G.remove_edges_from([e for e in list(G.edges()) if G.edges[e]["flow"] == 0])
        G.remove_nodes_from([v for v in list(G.nodes()) if G.degree(v) == 0])
        if G.number_of_edges() == 0:
            continue
        for e in G.edges(): G.edges[e]["flow"] = float(G.edges[e]["flow"])
        args = dict(G=G, flow_attr="flow", weight_type=int, solver_options={"threads": THREADS})
        if name.startswith("k"):
            args["k"] = nroutes + rng.choice([0, 1])
        if not cyc and rng.random() < 0.4:
            args["optimization_options"] = {"optimize_with_greedy": False}
        rep = {"class": name, "args": describe(args), "family": "type mix: " + kind, "route_values": used}
        ctx.case(["typemix", name, describe(args)], nontrivial=True); ctx.count("E2_explains_flow", "typemix_cases"); ctx.dist("typemix:" + kind)
        try:
            m = getattr(fp, name)(**args); m.solve()
        except ValueError:
            ctx.count("E2_explains_flow", "typemix_rejected"); continue
        except Exception as e:
            ctx.report(f"{name} raised {e!r}", rep); continue
        if not m.is_solved():
            ctx.count("E2_explains_flow", "typemix_unsolved"); continue
        ctx.count("E2_explains_flow", "typemix_solved")
        check_solution(ctx, name, args, m, m.get_solution(), routes_key="walks" if cyc else "paths")
    VB.flush()
    gencheck_enc.run_generated_kfd(ctx)      # generated-model tie of _encode_paths / _encode_flow_decomposition (coq/gen_proofs)
