"""C07 — k-Least-Absolute-Errors returns a true optimum with a consistent objective.
E1: the LP kLeastAbsErrors hands to HiGHS == ErrEnc.encode_klae on the caller's arguments (ignore set, scale-0
    handling, w_max, error columns, products, 9aa/9ab, objective are recomputed by the Coq encoder).
E2: on every solved instance (DAG and cyclic class): routes valid, k routes / weights, weight type; per-element
    errors and the objective recomputed from the returned routes == reported edge_errors / solver objective /
    get_objective_value(); is_valid_solution() accepts; on tiny integer instances the objective == exhaustive optimum."""
import time
from fractions import Fraction as F
import networkx as nx
import common, gen, gen2, lpdump, e1, e1err, errlib, props

LEVEL = "proof"
EXPLANATION = ("Props/C07.v (12 theorems, all closed under the global context). MAIN C07_klae_optimal_checked (one theorem, executable premises klae_premises_b evaluated "
               "per E1 instance): without given weights, the objective of an optimal satisfying assignment of ErrEnc.encode_klae equals the minimum of "
               "sum_e scale_e*|f(e) - sum_i w_i [e on path i]| over ALL k source-to-sink paths covering the subpath constraints and ALL non-negative weights of the requested type "
               "(bound w_max removed by clipping). Parts: klae_enc_sound(_checked), klae_complete (with subpath constraints), wmax_no_loss, err_fits_bound; given weights: "
               "klae_given_complete / klae_given_optimal (minimum over choices whose errors fit w_max); klae_reported_objective (code as it is) and the refutation of the old plain-sum function. "
               "Optimality is relative to the solver specification (DESIGN §4). Not proved: given weights together with subpath constraints; cyclic class: E2 only. "
               "Tie: E1 per instance over the option space + per-instance premises check; E2 recomputation on every answer, exhaustive / closed-form optimum.")
ASSUMPTIONS = ["HiGHS status kOptimal => returned assignment satisfies the rows within 1e-9 and is optimal (solver specification, DESIGN §4)",
               "float weights: solution values compared with tolerance 1e-6 per route on an element; integer weights: exact",
               "exhaustive optimum: integer weights in [0, max f] (justified by wmax_no_loss), DAGs <= 6 edges, k <= 3"]
TRUSTED = ["models: coq/theories/ErrEnc.v (+ PathEnc.v, Blocks.v); wire/colkeys harness/e1err.py; LP read-back harness/lpdump.py",
           "E2 oracle side: harness/errlib.py brute force and harness/props.py recomputation (plain Python, exact Fractions)"]

K_CAP = "cycles_rep_cap_from_reachable_max"


def scaled_lt1(args):
    return any(0 < s < 1 for s in (args.get("error_scaling") or {}).values())


def check_solution(ctx, cls, args, m, exact, eng="E2_recompute"):
    """the property clauses on the implementation's answer; returns the solver objective (float) or None"""
    rk = errlib.routes_key(cls)
    origin = args.get("flow_attr_origin", "edge")
    G = args["G"]; ign = args.get("elements_to_ignore", []) or []; sc = args.get("error_scaling", {}) or {}
    kw_full = {"remove_empty_walks": False} if rk == "walks" else {"remove_empty_paths": False}
    sol = m.get_solution(); full = m.get_solution(**kw_full)
    rep = {"class": cls, "args": errlib.describe(args), "solution": {rk: sol[rk], "weights": sol["weights"],
                                                                       "edge_errors": {str(k): v for k, v in sol["edge_errors"].items()}}}
    if not errlib.check_shape(ctx, cls, args, m, sol, full, rep):
        return None
    routes, weights = sol[rk], sol["weights"]
    dropped = errlib.dropped_single_node_routes(cls, args, sol, full)
    if dropped and any(abs(w) > 1e-9 for _, w in dropped):
        ctx.report(f"{cls} (node weights): get_solution() drops the single-node route(s) {dropped} with their weights", rep)
        return None
    obj, errs = props.lae_objective(G, args["flow_attr"], routes, weights, origin, ign, sc, exact)
    conv = (lambda x: x) if origin == "edge" else (lambda x: (x + ".0", x + ".1"))
    rep_err = sol["edge_errors"]
    if set(map(conv, errs)) != set(rep_err):
        ctx.report(f"{cls}: edge_errors reported for {sorted(map(str, rep_err))}, non-ignored weighted elements are {sorted(map(str, errs))}", rep)
        return None
    tol = 0 if exact else 1e-6 * (len(routes) + 1)
    for x, v in errs.items():
        r = rep_err[conv(x)]
        if (exact and F(r) != v) or (not exact and abs(float(r) - float(v)) > tol):
            errlib.report(ctx, f"{cls}: reported error {r} on {x} but |f - explained| recomputed from the returned routes is {v}", rep, cls, args, m)
            return None
    so = m.solver.get_objective_value()
    if abs(so - float(obj)) > 1e-6 * (len(errs) + 1):
        errlib.report(ctx, f"{cls}: solver objective {so} differs from the scaled absolute error {obj} of the returned solution", rep, cls, args, m)
        return None
    ctx.count(eng, "errors_and_solver_objective_recomputed_ok")
    ro = m.get_objective_value()
    if abs(ro - float(obj)) > 1e-6 * (len(errs) + 1):
        ctx.report(f"{cls}: get_objective_value() = {ro} but the (scaled) objective of the returned solution is {obj} (solver: {so})", rep)
    else:
        ctx.count(eng, "reported_objective_ok")
    try:
        valid = m.is_valid_solution()
    except Exception as e:
        ctx.report(f"{cls}: is_valid_solution() raised {e!r} on the model's own optimum", rep); valid = True
    if not valid:
        ctx.report(f"{cls}: is_valid_solution() rejects the model's own optimal solution", rep)
    else:
        ctx.count(eng, "is_valid_solution_accepts")
    return so


def e1_case(ctx, m, args):
    ids = e1.ids_of(m.G)
    impl = lpdump.dump_impl(m.solver, e1err.colkey(m, ids))
    req = e1err.request("klae", m, ids, args)
    d = e1.compare(ctx, "E1_kLeastAbsErrors_LP", "klae", m, impl, req, args)
    try:
        e1err.theorem_premises(ctx, "E1_kLeastAbsErrors_LP", "klaepremises", m, ids, args)
    except Exception as e:
        ctx.report(f"E1_kLeastAbsErrors_LP: optimality-premises check crashed: {e!r}", {"engine": "E1_kLeastAbsErrors_LP"}, concrete=False)
    if d and ctx.engines.get("E1_kLeastAbsErrors_LP", {}).get("disagreements", 0) <= 3:   # keep room for concrete failing inputs
        ctx.report("E1 correspondence broken: LP of kLeastAbsErrors differs from ErrEnc.encode_klae: " + "; ".join(d[:3]),
                   {"class": "kLeastAbsErrors", "args": errlib.describe(args), "diff": d[:12]}, concrete=False)
    return impl, d


def option_hist(ctx, args):
    for o in ("elements_to_ignore", "error_scaling", "additional_starts", "additional_ends", "solution_weights_superset",
              "subpath_constraints", "path_length_factors", "length_attr"):
        if args.get(o):
            ctx.dist("opt:" + o)
    ctx.dist("origin:" + args.get("flow_attr_origin", "edge")); ctx.dist("type:" + args.get("weight_type", float).__name__)
    sc = args.get("error_scaling") or {}
    if any(s == 0 for s in sc.values()): ctx.dist("scale:0")
    if any(0 < s < 1 for s in sc.values()): ctx.dist("scale:(0,1)")


def run_dag(ctx, n, tiny):
    import flowpaths as fp
    stream = "lae-tiny" if tiny else "lae"
    for i in range(n):
        def _one(cur):
            rng = ctx.rng(stream, i)
            args, info = gen2.rand_err_args(rng, "lae", tiny=tiny, force_int=True if tiny else None)
            k = rng.choice([1, 2, 2, 3]) if not tiny else rng.choice([1, 1, 2, 2, 3])
            args = dict(args, k=k, solver_options=dict(errlib.SOLVER))
            cur["args"] = args
            args = errlib.attach_numpy(ctx, "kLeastAbsErrors", args, errlib.numpy_spec(ctx.rng(stream + "-np", i)))
            cur["args"] = args
            exact = args["weight_type"] == int
            lpdump.reset()
            try:
                m = fp.kLeastAbsErrors(**errlib.clean_args(args))
            except (ValueError, OverflowError) as e:
                ctx.dist("ctor " + type(e).__name__); return
            option_hist(ctx, args)
            impl, d = e1_case(ctx, m, args)
            try:
                m.solve()
            except Exception as e:
                ctx.report("kLeastAbsErrors.solve() raised " + repr(e), {"class": "kLeastAbsErrors", "args": errlib.describe(args)}); return
            status = m.solver.get_model_status()
            cons = args.get("subpath_constraints")
            nontriv = len(impl["rows"]) > 8
            if not m.is_solved():
                ctx.count("E2_recompute", "unsolved:" + str(status))
                if status == "kInfeasible" and not cons:
                    # without subpath constraints every k >= 1 is feasible (klae_enc_complete: any k paths, zero weights)
                    errlib.report(ctx, "kLeastAbsErrors is infeasible although there are no subpath constraints",
                                  {"class": "kLeastAbsErrors", "args": errlib.describe(args), "status": status}, "kLeastAbsErrors", args, m)
            else:
                ctx.count("E2_recompute", "solved")
                so = check_solution(ctx, "kLeastAbsErrors", args, m, exact)
                if tiny and so is not None and args.get("flow_attr_origin", "edge") == "edge" and not cons:
                    el = errlib.elements_edge(args)
                    paths = errlib.st_paths(args["G"], args.get("additional_starts", ()), args.get("additional_ends", ()))
                    given = args.get("solution_weights_superset")
                    best = errlib.brute_lae(args, m.k, paths, el, given=given, k_orig=m.original_k)
                    if best is None:
                        ctx.count("E2_exhaustive_optimum", "skipped_too_large")
                    elif abs(float(best) - so) > 1e-6:
                        errlib.report(ctx, f"kLeastAbsErrors objective {so} differs from the exhaustive optimum {best} over k-tuples of paths and integer weights <= max f",
                                      {"class": "kLeastAbsErrors", "args": errlib.describe(args), "solver_objective": so, "exhaustive_optimum": str(best)},
                                      "kLeastAbsErrors", args, m)
                    else:
                        ctx.count("E2_exhaustive_optimum", "agreements")
            ctx.case(["lae", tiny, errlib.describe(args)], nontrivial=nontriv,
                     sample={"edges": errlib.describe(args)["edges"], "k": k, "options": {o: str(v) for o, v in args.items() if o not in ("G", "solver_options", "k")}})
        errlib.guarded(ctx, 'kLeastAbsErrors', f"{stream}#{i}", _one)


def rand_cyclic_err(rng):
    """cyclic instance with arbitrary non-negative weights around a superposition of walks"""
    G = gen.rand_cyclic(rng, nmax=rng.choice([3, 4, 5]))
    is_int = rng.random() < 0.6
    unit = 1 if is_int else rng.choice([0.5, 0.25])
    f = {e: 0 for e in G.edges()}
    for _ in range(rng.randint(1, 3)):
        w = gen.rand_walk(rng, G, maxlen=12)
        if w:
            x = rng.choice([1, 2, 3])
            for e in zip(w, w[1:]):
                f[e] += x
    for e in f:
        if rng.random() < 0.3:
            f[e] = max(0, f[e] + rng.choice([-1, 1, 2]))
    if all(v == 0 for v in f.values()):
        f[next(iter(f))] = 2
    for e, v in f.items():
        G.edges[e]["flow"] = int(v) if is_int else float(v * unit)
    args = dict(G=G, flow_attr="flow", weight_type=int if is_int else float)
    if rng.random() < 0.3:
        ign = [e for e in G.edges() if rng.random() < 0.15]
        if any(G.edges[e]["flow"] > 0 for e in G.edges() if e not in ign):
            args["elements_to_ignore"] = ign
    if rng.random() < 0.4:
        args["error_scaling"] = {e: rng.choice([0, 0.5, 1, 0.5]) for e in G.edges() if rng.random() < 0.3}
    gen2.ensure_err_domain(args)
    return args, is_int


def run_cyclic(ctx, n):
    import flowpaths as fp
    for i in range(n):
        def _one(cur):
            rng = ctx.rng("lae-cyc", i)
            args, is_int = rand_cyclic_err(rng)
            k = rng.choice([1, 2, 2, 3])
            args = dict(args, k=k, solver_options=dict(errlib.SOLVER, time_limit=8))   # random cyclic instances: a hard MILP is counted as unsolved:kTimeLimit, not waited for
            cur["args"] = args
            args = errlib.attach_numpy(ctx, "kLeastAbsErrorsCycles", args, errlib.numpy_spec(ctx.rng("lae-cyc-np", i)))
            cur["args"] = args
            try:
                m = fp.kLeastAbsErrorsCycles(**errlib.clean_args(args)); m.solve()
            except (ValueError, OverflowError) as e:
                ctx.dist("cyc ctor " + type(e).__name__); return
            except Exception as e:
                ctx.report("kLeastAbsErrorsCycles raised " + repr(e), {"class": "kLeastAbsErrorsCycles", "args": errlib.describe(args)}); return
            option_hist(ctx, args)
            if m.is_solved():
                ctx.count("E2_recompute_cycles", "solved")
                check_solution(ctx, "kLeastAbsErrorsCycles", args, m, is_int, eng="E2_recompute_cycles")
            else:
                st = m.solver.get_model_status()
                ctx.count("E2_recompute_cycles", "unsolved:" + str(st))
                if st == "kInfeasible":
                    # without constraints every k >= 1 admits k walks with zero weights; the only known obstacle is the
                    # repetition cap derived from the weights: re-solve with all weights multiplied by a large constant
                    why = errlib.solver_disagrees("kLeastAbsErrorsCycles", args, m)
                    if why:
                        ctx.count("solver_specification", "highs_answers_depend_on_presolve")     # solver defect (DESIGN 10.4), not reported
                        ctx.case(["lae-cyc", errlib.describe(args)], nontrivial=G_has_cycle(args["G"])); return
                    verdict, c = errlib.rescale_feasible("kLeastAbsErrorsCycles", args)
                    if verdict == "inconclusive":
                        ctx.count("E2_recompute_cycles", "infeasible_diagnosis_inconclusive(time limit)")
                    else:
                        ctx.report("kLeastAbsErrorsCycles is infeasible although there are no subset constraints",
                                   {"class": "kLeastAbsErrorsCycles", "args": errlib.describe(args), "feasible_after_scaling_by": c},
                                   key=K_CAP if verdict == "feasible" else None)
            ctx.case(["lae-cyc", errlib.describe(args)], nontrivial=G_has_cycle(args["G"]))
        errlib.guarded(ctx, 'kLeastAbsErrorsCycles', f"lae-cyc#{i}", _one)


def run_family(ctx):
    """deterministic cyclic families with the optimum known in closed form (errlib.cyclic_families): every instance must be
    solved (they respect the repetition caps of the code as it is, so the open cap findings do not apply) with exactly
    that objective"""
    import flowpaths as fp
    for fi, fam in enumerate(errlib.cyclic_families()):
        for k in fam["k_list"]:
            def _one(cur):
                if k is None:
                    return
                args = dict(G=fam["G"], flow_attr="flow", k=k, weight_type=fam["weight_type"], solver_options=dict(errlib.SOLVER))
                cur["args"] = args
                args = errlib.attach_numpy(ctx, "kLeastAbsErrorsCycles", args, errlib.NP_ROT[fi % len(errlib.NP_ROT)])
                cur["args"] = args
                rep = {"class": "kLeastAbsErrorsCycles", "family": fam["name"], "args": errlib.describe(args), "closed_form_optimum": str(fam["lae_opt"])}
                try:
                    m = fp.kLeastAbsErrorsCycles(**errlib.clean_args(args)); m.solve()
                except Exception as e:
                    ctx.report(f"kLeastAbsErrorsCycles raised {e!r} on family instance {fam['name']}", rep); return
                ctx.case(["lae-family", fam["name"], k], nontrivial=True)
                st = m.solver.get_model_status()
                if not m.is_solved():
                    if st == "kInfeasible":
                        errlib.report(ctx, f"kLeastAbsErrorsCycles is infeasible on '{fam['name']}' (k={k}); k walks with zero weights exist within every repetition cap", rep,
                                      "kLeastAbsErrorsCycles", args, m)
                    else:
                        ctx.count("E2_cyclic_family", "inconclusive:" + str(st))
                    return
                so = check_solution(ctx, "kLeastAbsErrorsCycles", args, m, fam["weight_type"] == int, eng="E2_cyclic_family")
                if so is None:
                    return
                if abs(so - float(fam["lae_opt"])) > 1e-6:
                    sol = m.get_solution()
                    rep["solution"] = {"walks": sol["walks"], "weights": sol["weights"]}
                    errlib.report(ctx, f"kLeastAbsErrorsCycles on '{fam['name']}' (k={k}) returns total error {so}, the optimum is {fam['lae_opt']}", rep,
                                  "kLeastAbsErrorsCycles", args, m)
                else:
                    ctx.count("E2_cyclic_family", "optimum_agrees")
            errlib.guarded(ctx, 'kLeastAbsErrorsCycles', f"{fam['name']} k={k}", _one)


def G_has_cycle(G):
    return not nx.is_directed_acyclic_graph(G)


def witness_12(ctx):
    """the witness of klae_objective_old_refuted (fixed by /repo 158493f) replayed on the implementation on every run"""
    import flowpaths as fp
    G = nx.DiGraph(); G.add_edge("a", "b", flow=2); G.add_edge("b", "c", flow=0)
    args = dict(G=G, flow_attr="flow", k=1, weight_type=int, error_scaling={("b", "c"): 0.5}, solver_options=dict(errlib.SOLVER))
    m = fp.kLeastAbsErrors(**errlib.clean_args(args)); m.solve()
    if m.is_solved():
        check_solution(ctx, "kLeastAbsErrors", args, m, True, eng="E2_witness")
        ctx.case(["witness-12"], nontrivial=True)


def witness_6(ctx, cls_name="kLeastAbsErrors"):
    """node weights, additional start = additional end: the optimum uses the single-node route [v3] (DESIGN §6 #6)"""
    import flowpaths as fp
    G = nx.DiGraph()
    for v, f in (("v2", 1.5), ("v1", 0.75), ("v3", 1.25)):
        G.add_node(v, flow=f)
    G.add_node("v0")
    G.add_edges_from([("v2", "v1"), ("v2", "v3"), ("v2", "v0"), ("v3", "v1")])
    args = dict(G=G, flow_attr="flow", flow_attr_origin="node", k=3, weight_type=float, additional_starts=["v3"], additional_ends=["v3"],
                solver_options=dict(errlib.SOLVER))
    m = getattr(fp, cls_name)(**errlib.clean_args(args)); m.solve()
    if m.is_solved():
        if cls_name == "kLeastAbsErrors":
            check_solution(ctx, cls_name, args, m, False, eng="E2_witness")
        else:
            from engines import c08
            c08.check_solution(ctx, cls_name, args, m, False, eng="E2_witness")
        ctx.case(["witness-6", cls_name], nontrivial=True)


def run(ctx):
    lpdump.install()
    ctx.rule = ("kLeastAbsErrors on random DAGs (<= 6 nodes) with arbitrary non-negative weights (perturbed superpositions or random values; int / dyadic float), "
                "k in 1..3, ignore sets, error_scaling incl. 0 and 1/2, additional starts/ends, subpath constraints, solution_weights_superset, edge and node origin; "
                "tiny stream: <= 6 edges, weights <= 4, integer type, compared with the exhaustive optimum; cyclic stream: kLeastAbsErrorsCycles on <= 5-node digraphs; deterministic cyclic families with closed-form optimum (chain with a zero-flow SCC 1..4 hops from the heavy edge, fractional perfect decompositions needing r+1 traversals, loops whose largest weight / repetition cap is a power of two, several heavy cycles through ONE hub vertex). "
                "non-trivial = LP has more than 8 rows (at least one product block and error rows) / graph has a cycle")
    for wfun in (witness_12, witness_6):
        try:
            wfun(ctx)
        except Exception as e:
            ctx.report(f"{wfun.__name__}: the recorded witness instance raised {e!r}", {"witness": wfun.__name__})
    run_dag(ctx, ctx.budget(240, 6000), tiny=False)
    run_dag(ctx, ctx.budget(160, 5000), tiny=True)
    run_family(ctx)
    run_cyclic(ctx, ctx.budget(60, 1500))
    import e1werr   # E1_cycles: LP of kLeastAbsErrorsCycles == WalkErrEnc.encode_klae_cycles (harness/e1werr.py)
    e1werr.run_e1_cycles(ctx, "kLeastAbsErrorsCycles", rand_cyclic_err, ctx.budget(60, 1500), "lae-cyc-e1")
    import gencheck_enc; gencheck_enc.run_generated_klae(ctx)   # generated-model tie: the kLeastAbsErrors encoders regenerated from source (coq/gen_proofs/EncKlae*.v)


def replay(ctx, body):
    """re-run a recorded case: rebuild the graph, solve, re-evaluate the clauses"""
    import flowpaths as fp
    lpdump.install()
    a = body.get("args")
    if not a:
        return True
    G = nx.DiGraph()
    for v, d in a.get("nodes", []):
        G.add_node(v, **d)
    for u, v, d in a["edges"]:
        G.add_edge(u, v, **d)
    args = {k: v for k, v in a.items() if k not in ("edges", "nodes", "weight_type")}
    args["G"] = G; args["weight_type"] = int if a["weight_type"] == "int" else float
    edge_mode = args.get("flow_attr_origin", "edge") == "edge"
    if "error_scaling" in args:
        args["error_scaling"] = {(tuple(k) if edge_mode else k): v for k, v in args["error_scaling"]}
    for key in ("elements_to_ignore",):
        if key in args and args.get("flow_attr_origin", "edge") == "edge":
            args[key] = [tuple(e) for e in args[key]]
    if "subpath_constraints" in args and args.get("flow_attr_origin", "edge") == "edge":
        args["subpath_constraints"] = [[tuple(e) for e in c] for c in args["subpath_constraints"]]
    cls = body.get("class", "kLeastAbsErrors")
    before = len(ctx.violations)
    lpdump.reset()
    m = getattr(fp, cls)(**errlib.clean_args(args))
    if cls == "kLeastAbsErrors":
        e1_case(ctx, m, args)
    m.solve()
    if m.is_solved():
        check_solution(ctx, cls, args, m, args["weight_type"] == int)
    return len(ctx.violations) > before
