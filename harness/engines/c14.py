"""C14 — E3 exact-output correspondence between get_solution_walks() and the proved Gallina
reconstruction (Euler.solution_walk), plus the property checked directly on the implementation's
output for every well-formed case."""
import collections, sys
from fractions import Fraction
import networkx as nx
import common, gen

LEVEL = "proof"
EXPLANATION = ("Theorems of Props/C14.v are about Euler.solution_walk (transcription of get_solution_walks and the "
               "Hierholzer reconstruction). The tie is E3: identical multiplicity assignments are given to the extracted "
               "model and to the Python method; walks must be equal node for node.")
ASSUMPTIONS = ["networkx DiGraph iteration order of nodes()/edges() is what the harness passes to the model",
               "solver values are passed as exact rationals (dyadic perturbations of integers), Python round() == round_half_even"]
TRUSTED = ["model: coq/theories/Euler.v; proofs EulerProofs1-4.v"]


def _stub_class():
    from flowpaths.abstractwalkmodeldigraph import AbstractWalkModelDiGraph as W
    class Stub(W):
        def get_solution(self): pass
        def get_lowerbound_k(self): return 1
        def is_valid_solution(self): return True
        def get_objective_value(self): return None
    return Stub


def impl_walks(st, layers):
    """layers: list of dict edge->float value.  Returns get_solution_walks()."""
    Stub = _stub_class()
    m = object.__new__(Stub)
    m.G = st; m.k = len(layers)
    m.edge_vars_sol = {(str(u), str(v), i): val for i, L in enumerate(layers) for (u, v), val in L.items()}
    first = m.get_solution_walks()
    # the reconstruction is asked a second (and third) time on the same object -- as the library itself does for node-weighted
    # input: the answer must not depend on having been asked before
    first = [list(w) for w in first]
    for _ in range(2):
        again = [list(w) for w in m.get_solution_walks()]
        if again != first:
            raise AssertionError(f"get_solution_walks() returns {again} when asked again; the first answer was {first}")
    return first


def request(st, ids, layer):
    es = [[ids[u], ids[v]] + common.qtok(layer.get((u, v), 0.0)) for (u, v) in st.edges() if (u, v) in layer]
    return "euler " + common.toks(ids[st.source], ids[st.sink], len(es), es)


PERT = [0.0, 0.0, 0.0, 2.0 ** -20, -2.0 ** -20, 0.25, -0.25, 2.0 ** -30]


def make_case(rng, malformed):
    import flowpaths as fp
    G = gen.rand_cyclic(rng, nmax=rng.choice([4, 6, 7, 8]))
    if rng.random() < 0.35:
        # nested closed walks: self-loops on several nodes and extra back edges between inner nodes, so that a closed walk found
        # in the splice phase itself passes a self-loop and leaves further closed walks dangling
        inner = [v for v in G.nodes() if G.in_degree(v) > 0 and G.out_degree(v) > 0]
        for v in inner:
            if rng.random() < 0.5:
                G.add_edge(v, v)
        for _ in range(rng.randint(1, 4)):
            if len(inner) >= 2:
                a_, b_ = rng.sample(inner, 2); G.add_edge(a_, b_); G.add_edge(b_, a_)
    st = fp.stDiGraph(G)
    nlayers = rng.choice([1, 1, 2, 3])
    layers = []
    for _ in range(nlayers):
        mult = collections.Counter()
        r = rng.random()
        if r < 0.1:
            pass                                   # empty layer
        else:
            w = gen.rand_walk(rng, G, maxlen=rng.choice([8, 20, 40]))
            if w is None:
                continue
            full = [st.source] + w + [st.sink]
            mult.update(zip(full, full[1:]))
            if rng.random() < 0.3:                 # repeat every cycle edge: multiply closed parts
                for e in list(mult):
                    if st.is_scc_edge(e[0], e[1]) and rng.random() < 0.5:
                        pass
        layer = {}
        for (u, v) in st.edges():
            m = mult.get((u, v), 0)
            if malformed:
                if rng.random() < 0.25:
                    m = max(0, m + rng.choice([-1, 1, 2]))
                val = float(m) + rng.choice(PERT + [0.5, -0.5, 0.5])
            else:
                val = float(m) + rng.choice(PERT)
            if rng.random() < 0.9 or malformed:    # some edges are absent from edge_vars_sol (treated as 0)
                layer[(u, v)] = val
            elif m == 0:
                pass
            else:
                layer[(u, v)] = val
        layers.append(layer)
    return G, st, layers


def property_holds(st, layer, walk):
    """C14 stated directly on the implementation's output (well-formed input)."""
    want = collections.Counter({e: round(v) for e, v in layer.items() if round(v) > 0})
    if not want:
        return walk == []
    full = [st.source] + list(walk) + [st.sink]
    got = collections.Counter(zip(full, full[1:]))
    return got == want


def wellformed(st, layer):
    m = {e: round(v) for e, v in layer.items() if round(v) > 0}
    if not m:
        return True
    exc = collections.Counter()
    for (u, v), c in m.items():
        exc[u] += c; exc[v] -= c
    for x in st.nodes():
        want = 1 if x == st.source else (-1 if x == st.sink else 0)
        if exc[x] != want:
            return False
    H = nx.DiGraph(); H.add_edges_from(m)
    reach = nx.descendants(H, st.source) | {st.source} if st.source in H else set()
    return all(u in reach for (u, v) in m)


def run(ctx):
    ctx.rule = ("case = one layer of a random cyclic s-t digraph (<= 10 nodes) with multiplicities from a random s-t walk "
                "(<= 40 steps, dyadic perturbations < 1/2) or, in the malformed stream, randomly damaged multiplicities and ties; "
                "non-trivial = residual multigraph has a vertex visited more than once; distinct by (edges, values)")
    n_good = ctx.budget(700, 40000); n_bad = ctx.budget(300, 10000)
    reqs = []; meta = []
    for stream, n in (("good", n_good), ("malformed", n_bad)):
        for i in range(n):
            rng = ctx.rng(stream, i)
            try:
                G, st, layers = make_case(rng, stream == "malformed")
            except ValueError:
                continue
            if not layers:
                continue
            ids = {v: j for j, v in enumerate(st.nodes())}
            try:
                walks = impl_walks(st, layers)
                err = None
            except Exception as e:          # the implementation must not crash on these inputs
                walks = [None] * len(layers); err = repr(e)
            for li, layer in enumerate(layers):
                reqs.append(request(st, ids, layer))
                meta.append((stream, i, st, ids, layer, walks[li], err))
    outs = ctx.model.run(reqs)
    for req, out, (stream, i, st, ids, layer, walk, err) in zip(reqs, outs, meta):
        names = list(st.nodes())
        wf = wellformed(st, layer)
        total = sum(round(v) for v in layer.values() if round(v) > 0)
        visits = collections.Counter(v for (u, v), x in layer.items() for _ in range(max(0, round(x))))
        nontriv = any(c > 1 for c in visits.values())
        canon = [sorted((ids[u], ids[v], str(Fraction(x))) for (u, v), x in layer.items()), sorted((ids[u], ids[v]) for u, v in st.edges())]
        ctx.case(canon, nontrivial=nontriv,
                 sample={"stream": stream, "edges": [[u, v, x] for (u, v), x in layer.items() if x], "impl_walk": walk})
        ctx.dist(f"{stream}:edges_total<={10 * (total // 10 + 1)}")
        ctx.count("E3_reconstruction", "cases")
        replay = {"nodes": names, "edges": [[u, v] for u, v in st.edges()], "source": st.source, "sink": st.sink,
                  "values": [[u, v, float(x)] for (u, v), x in layer.items()], "impl_walk": walk, "model": out, "request": req}
        if err is not None:
            ctx.report("get_solution_walks raised " + err, replay, concrete=True); continue
        if out.startswith("OK"):
            parts = out.split()
            left = int(parts[1]); mwalk = [names[int(x)] for x in parts[2:]]
        else:
            left = -1; mwalk = None
        agree = (mwalk == list(walk))
        if wf:
            ctx.count("E2_property_on_impl_output", "cases")
            if not property_holds(st, layer, walk):
                ctx.report("returned walk does not traverse every edge exactly round(value) times", replay, concrete=True)
                continue
            if left != 0:
                ctx.report("model left edges unused on a well-formed input (model/theorem mismatch)", replay, concrete=False)
                continue
        if not agree:
            ctx.count("E3_reconstruction", "disagreements")
            # search: does the property fail on this very input?  (already tested above for well-formed ones)
            ctx.report("E3 correspondence broken: get_solution_walks() differs from Euler.solution_walk "
                       f"(stream {stream}, case {i})", replay, concrete=False)
        else:
            ctx.count("E3_reconstruction", "agreements")
    import gencheck14; gencheck14.run_generated_c14(ctx)   # generated-model tie: get_solution_walks and its helpers regenerated from source (coq/gen_proofs/WalksSpec.v)


def replay(ctx, body):
    import flowpaths as fp
    G = nx.DiGraph();
    names = body["nodes"]
    H = nx.DiGraph()
    for u, v in body["edges"]:
        if u != body["source"] and v != body["sink"]:
            H.add_edge(u, v)
    st = fp.stDiGraph(H)
    # synthetic names differ between runs: map by position
    ren = {body["source"]: st.source, body["sink"]: st.sink}
    layer = {(ren.get(u, u), ren.get(v, v)): x for u, v, x in body["values"]}
    walk = impl_walks(st, [layer])[0]
    print("impl walk now:", walk)
    if wellformed(st, layer):
        return not property_holds(st, layer, walk)
    return walk != body["impl_walk"]
