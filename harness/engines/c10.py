"""C10 — constraints, ignored elements and extra start/end nodes behave as documented.
E2 on every solved model of every class: each constraint is contained to the requested fraction in ONE
returned route; metamorphic: the value of an ignored element (or one with error scale 0) has no influence
on solved status / objective, error scale 0 == ignoring; optimum with constraints / additional starts,
ends == exhaustive optimum over exactly the admissible routes (MinPathCover, MinFlowDecomp)."""
import copy
import networkx as nx
import common, gen, gen2, zoo, props, oracles, voracle
import gencheck

LEVEL = "proof"
EXPLANATION = ("Props/C10.v: for every assignment satisfying the generated rows each subpath constraint is realised to the requested "
               "edge- or length-weighted fraction in a single layer (7a/7b); the generated kFlowDecomp model does not depend on the "
               "flow value of an ignored edge; additional starts/ends attach the synthetic source/sink exactly there (Aug). "
               "Tie: E1 with each feature (C02/C01 engines); here E2 evaluates the clauses on all classes and runs the metamorphic pairs.")
ASSUMPTIONS = ["solver specification", "objective comparison tolerance 1e-6 for float weights"]
TRUSTED = ["harness/oracles.py exhaustive optima on tiny DAGs"]


def objective(m, name):
    try:
        return m.get_objective_value()
    except Exception as e:
        return "raise:" + type(e).__name__


def same(a, b):
    if isinstance(a, (int, float)) and isinstance(b, (int, float)):
        return abs(a - b) <= 1e-6 * max(1, abs(a), abs(b))
    return a == b


def solve(info, **over):
    inf = dict(info); inf["kwargs"] = dict(info["kwargs"]); inf["kwargs"].update(over)
    m = zoo.construct(inf); m.solve()
    return m


def run(ctx):
    import flowpaths as fp
    import gen2
    ctx.rule = ("every route-returning class on random small instances with constraints (edge coverage 1, 1/2, 3/4; length coverage "
                "on DAG classes), ignore sets, error scalings, additional starts/ends, edge and node mode; metamorphic partner "
                "instances; non-trivial = instance has a constraint, an ignored element or an additional start/end")
    n = ctx.budget(420, 8000)
    for i in range(n):
        rng = ctx.rng("c10", i)
        name = zoo.ALL[i % len(zoo.ALL)]
        cyclic = name.endswith("Cycles")
        node = rng.random() < 0.2
        info = zoo.make(rng, name, node=node, with_cons=rng.random() < 0.6, with_ignore=rng.random() < 0.5,
                        with_starts=(rng.random() < 0.4) if name in zoo.HAS_STARTS else False, exact=rng.random() < 0.5)
        kw = info["kwargs"]
        cov = info.get("coverage", 1.0)          # zoo sets relaxed coverage itself
        rep = {"instance": zoo.describe(info)}
        try:
            m = zoo.construct(info); m.solve()
        except ValueError:
            ctx.dist("ValueError:" + name); continue
        except Exception as e:
            ctx.report(f"{name} raised {e!r}", rep); continue
        feat = bool(info["cons"] or info["ignore"] or info["starts"] or info["ends"])
        ctx.case(zoo.describe(info), nontrivial=feat, sample={"class": name, "cons": info["cons"], "ignore": info["ignore"],
                                                              "starts": info["starts"], "ends": info["ends"], "coverage": cov})
        ctx.dist(name)
        if not m.is_solved():
            ctx.count("E2_constraints", "unsolved"); continue
        import inspect
        try:
            par0 = [p_ for p_ in inspect.signature(m.get_solution).parameters if p_.startswith("remove_empty")]
            plain0 = copy.deepcopy(m.get_solution(**{par0[0]: False})) if par0 else None      # the unfiltered answer, asked FIRST
        except Exception as e:
            ctx.report(f"{name}: get_solution(remove_empty...=False) raised {e!r}", rep); continue
        sol = copy.deepcopy(m.get_solution()); routes = sol[zoo.routes_key(name)]
        rep["solution"] = routes
        # (0') asking again gives the same answer (the first call may cache: the cache must hold what was returned)
        try:
            again = [copy.deepcopy(m.get_solution()) for _ in range(2)]
        except Exception as e:
            ctx.report(f"{name}: a second get_solution() raised {e!r}", rep); continue
        ctx.count("E2_repeated_get_solution", "calls")
        # ... also through the documented filtering variants (remove_empty_paths / remove_empty_walks), which must neither
        # change what a later plain call returns nor lose routes when asked twice
        import inspect
        try:
            par = [p_ for p_ in inspect.signature(m.get_solution).parameters if p_.startswith("remove_empty")]
        except (TypeError, ValueError):
            par = []
        if par:
            try:
                f1 = copy.deepcopy(m.get_solution(**{par[0]: True})); f2 = copy.deepcopy(m.get_solution(**{par[0]: True}))
                plain = copy.deepcopy(m.get_solution(**{par[0]: False}))
            except Exception as e:
                ctx.report(f"{name}: get_solution({par[0]}=True) raised {e!r}", rep); continue
            rk = zoo.routes_key(name)
            if plain0 is not None and plain.get(rk) != plain0.get(rk):
                ctx.report(f"{name}: the unfiltered get_solution({par[0]}=False) was {plain0.get(rk)} when asked first and is {plain.get(rk)} "
                           f"after default / filtered calls", rep); continue
            nonempty = [r_ for r_ in sol[rk] if len(r_) > 0]
            if f1.get(rk) != f2.get(rk) or f1.get(rk) != nonempty or (par[0] in inspect.signature(m.get_solution).parameters and
                    inspect.signature(m.get_solution).parameters[par[0]].default is False and plain.get(rk) != sol[rk]):
                ctx.report(f"{name}: get_solution({par[0]}=True) twice gives {f1.get(rk)} then {f2.get(rk)}; the non-empty routes of the first "
                           f"answer are {nonempty}; a later plain call gives {plain.get(rk)}", rep); continue
        keys_ = [k_ for k_ in sol if not str(k_).startswith("_") and k_ != "graph"]
        if any(a_.get(k_) != sol.get(k_) for a_ in again for k_ in keys_):
            ctx.report(f"{name}: get_solution() called again returns something else: first {({k_: sol[k_] for k_ in keys_})!r:.300}, "
                       f"then {({k_: again[-1].get(k_) for k_ in keys_})!r:.300}", rep); continue
        # (0) the class's own validity check accepts the solution it returned (decomposition / cover classes; the error
        #     classes' check is exercised by C07/C08)
        if name not in zoo.ERR and hasattr(m, "is_valid_solution"):
            try:
                okv = m.is_valid_solution()
            except Exception as e:
                okv = repr(e)
            ctx.count("E2_is_valid_solution", "calls")
            if okv is not True:
                ctx.report(f"{name}: solved, but is_valid_solution() on the returned solution gives {okv}", rep); continue
        # (1) constraint coverage in one route
        if info["cons"]:
            cons_e = info["cons"]
            if node:
                cons_e = [list(zip(c, c[1:])) if len(c) > 1 else [] for c in info["cons"]]
                # node-level constraint: the node sequence must appear; evaluate on nodes
                ok = True
                for c in info["cons"]:
                    need = cov * len(c)
                    best = max((sum(1 for v in (set(c) if cyclic else c) if v in r) for r in routes), default=0)
                    tot = len(set(c)) if cyclic else len(c)
                    if best < cov * tot - 1e-9:
                        ok = False
                if not ok:
                    ctx.report(f"{name}: a node-level constraint is not contained to fraction {cov} in a single route", rep); continue
            else:
                lengths = None; frac = cov
                if "coverage_length" in info:          # coverage measured by edge length (missing length = 1)
                    lengths = {e: info["G"].edges[e].get("len", 1) for e in info["G"].edges()}
                    frac = info["coverage_length"]
                why = props.constraint_covered(cons_e, routes, coverage=frac, lengths=lengths, as_set=cyclic)
                if why:
                    ctx.report(f"{name}: {why} (coverage {cov})", rep); continue
            ctx.count("E2_constraints", "covered")
        # (2) ignored element's value has no influence
        if info["ignore"]:
            G2 = copy.deepcopy(info["G"])
            for x in info["ignore"]:
                d = G2.nodes[x] if node else G2.edges[tuple(x)]
                if "flow" in d:
                    d["flow"] = d["flow"] + rng.choice([1, 5, 100]) * (1 if info["is_int"] else 0.5)
            inf2 = dict(info); inf2["G"] = G2
            try:
                m2 = zoo.construct(inf2); m2.solve()
                ctx.count("E2_ignore_metamorphic", "cases")
                if m2.is_solved() != m.is_solved() or (m.is_solved() and not same(objective(m, name), objective(m2, name))):
                    key = None
                    if cyclic:
                        # the cyclic models cap the traversals of an edge by the largest weight reachable from it, computed over
                        # ALL edges including ignored ones (open finding cycles_rep_cap_from_reachable_max, C07/C08): when the two
                        # runs differ in exactly those caps the dependence on the ignored value is that finding, not a new one
                        try:
                            fa = info["kwargs"].get("flow_attr", "flow")
                            c1 = m.G.compute_edge_max_reachable_value(flow_attr=fa); c2 = m2.G.compute_edge_max_reachable_value(flow_attr=fa)
                            if c1 != c2:
                                key = "cycles_rep_cap_from_reachable_max"
                        except Exception:
                            pass
                    ctx.report(f"{name}: changing the value of an ignored element changed the result "
                               f"({m.is_solved()}, {objective(m, name)}) -> ({m2.is_solved()}, {objective(m2, name)})", rep, key=key); continue
            except Exception as e:
                ctx.report(f"{name}: changing the value of an ignored element made the model raise {e!r}", rep); continue
        # (3) error scale 0 == ignoring (error models)
        if name in zoo.ERR and info["ignore"] and not info["cons"]:
            kw3 = {k: v for k, v in kw.items() if k != "elements_to_ignore"}
            sc = dict(kw.get("error_scaling", {}))
            for x in info["ignore"]:
                sc[x if node else tuple(x)] = 0
            kw3["error_scaling"] = sc
            inf3 = dict(info); inf3["kwargs"] = kw3
            try:
                m3 = zoo.construct(inf3); m3.solve()
                ctx.count("E2_scale0_equals_ignore", "cases")
                if m3.is_solved() != m.is_solved() or (m.is_solved() and not same(objective(m, name), objective(m3, name))):
                    ctx.report(f"{name}: error scale 0 and ignoring give different results "
                               f"({m.is_solved()}, {objective(m, name)}) vs ({m3.is_solved()}, {objective(m3, name)})", rep); continue
            except Exception as e:
                ctx.report(f"{name}: error scale 0 on the ignored elements made the model raise {e!r}", rep); continue
        # (4) optimum over exactly the admissible routes (constraints, starts/ends): MinPathCover vs exhaustive
        if name == "MinPathCover" and not node:
            lengths = None; frac = cov
            if "coverage_length" in info:
                lengths = {e: info["G"].edges[e].get("len", 1) for e in info["G"].edges()}; frac = info["coverage_length"]
            kmin = oracles.min_path_cover_bf(info["G"], ignore=info["ignore"], starts=info["starts"], ends=info["ends"],
                                             cons=info["cons"], coverage=frac, lengths=lengths)
            vk = voracle.min_cover(ctx, info["G"], ignore=info["ignore"], starts=info["starts"], ends=info["ends"],
                                   cons=info["cons"], coverage=frac, lengths=lengths)       # verified oracle (CoverOracle.min_cover_correct)
            if vk != "too-large":
                if kmin is not None and vk != kmin:
                    ctx.report(f"harness inconsistency: Python oracle says {kmin}, the verified cover oracle says {vk}", rep, concrete=False)
                kmin = vk; ctx.count("E2_optimum_with_features", "decided_by_verified_oracle")
            ctx.count("E2_optimum_with_features", "cases")
            if kmin is not None and kmin != len(routes):
                ctx.report(f"MinPathCover returned {len(routes)} paths; the minimum over the admissible routes satisfying the constraints is {kmin}", rep); continue

    # (5) constraints that a solution does not satisfy by accident: sub-sequences of arbitrary routes of the
    #     graph, given to the cover models (always satisfiable for k large enough)
    for i in range(ctx.budget(260, 4000)):
        rng = ctx.rng("advcons", i)
        cyclic = i % 2 == 1
        if cyclic:
            G = gen.rand_cyclic(rng, nmax=5)
            routes0 = [w for w in (gen.rand_walk(rng, G, maxlen=8) for _ in range(3)) if w]
        else:
            G = gen.rand_dag(rng, nmax=6)
            routes0 = gen.all_st_paths(G)
        if not routes0 or G.number_of_edges() > 10:
            continue
        cons = [c for c in gen2.rand_constraints(rng, [rng.choice(routes0) for _ in range(3)], maxn=3, contiguous=False) if c]
        if not cons:
            continue
        mixed = False
        if cyclic and rng.random() < 0.5:
            # a constraint mixing edges of two different walks: it may be impossible to put them on ONE walk; then the
            # model must not claim to be solved with a solution that does not contain it
            w1, w2 = rng.choice(routes0), rng.choice(routes0)
            e1_, e2_ = list(zip(w1, w1[1:])), list(zip(w2, w2[1:]))
            if e1_ and e2_:
                cons.append([rng.choice(e1_), rng.choice(e2_)] + ([rng.choice(e1_)] if rng.random() < 0.5 else [])); mixed = True
        cov = rng.choice([1.0, 1.0, 0.5])
        lengths = None; extra = {}
        if not cyclic and rng.random() < 0.4:
            # coverage by LENGTH (edge coverage stays at its default 1): a constraint relaxed this way may be satisfied
            # without containing all of its edges -- those edges must nevertheless be covered
            for e in G.edges():
                G.edges[e]["len"] = rng.choice([1, 1, 5, 5, 2, 0, 0])
            lengths = {e: G.edges[e]["len"] for e in G.edges()}
            cov = rng.choice([0.5, 0.8, 0.75])
            extra = {"length_attr": "len", "subpath_constraints_coverage_length": cov}
        rep = {"edges": [list(e) for e in G.edges()], "constraints": cons, "coverage": cov, "cyclic": cyclic, "lengths": lengths and {str(k): v for k, v in lengths.items()}}
        try:
            if cyclic:
                m = fp.MinPathCoverCycles(G, subset_constraints=cons, subset_constraints_coverage=cov, solver_options={"threads": zoo.THREADS})
            elif lengths:
                m = fp.MinPathCover(G, subpath_constraints=cons, solver_options={"threads": zoo.THREADS}, **extra)
            else:
                m = fp.MinPathCover(G, subpath_constraints=cons, subpath_constraints_coverage=cov, solver_options={"threads": zoo.THREADS})
            m.solve()
        except Exception as e:
            ctx.report(f"cover model with constraints raised {e!r}", rep); continue
        ctx.case(["advcons", rep], nontrivial=True); ctx.count("E2_adversarial_constraints", "cases")
        if not m.is_solved():
            if not mixed:
                ctx.report("minimum cover with satisfiable constraints not solved", rep)
            continue
        routes = m.get_solution()["walks" if cyclic else "paths"]
        rep["solution"] = routes
        why = props.constraint_covered(cons, routes, coverage=cov, lengths=lengths, as_set=cyclic)
        if why:
            ctx.report(("MinPathCoverCycles: " if cyclic else "MinPathCover: ") + why, rep); continue
        why = props.covers(G, routes)
        if why:
            ctx.report(("MinPathCoverCycles: " if cyclic else "MinPathCover: ") + f"a constraint must not remove the cover requirement: {why}", rep); continue
        if not cyclic:
            kmin = oracles.min_path_cover_bf(G, cons=cons, coverage=cov, lengths=lengths)
            vk = voracle.min_cover(ctx, G, cons=cons, coverage=cov, lengths=lengths)        # verified oracle
            if vk != "too-large":
                if kmin is not None and vk != kmin:
                    ctx.report(f"harness inconsistency: Python oracle says {kmin}, the verified cover oracle says {vk}", rep, concrete=False)
                kmin = vk; ctx.count("E2_adversarial_constraints", "decided_by_verified_oracle")
            if kmin is not None and kmin != len(routes):
                ctx.report(f"MinPathCover returned {len(routes)} paths; minimum satisfying the constraints is {kmin}", rep); continue
            if kmin is not None and lengths:
                # the k-model itself: feasible at the minimum (with a real cover), infeasible one below
                for kk in (kmin - 1, kmin):
                    if kk < 1:
                        continue
                    try:
                        km = fp.kPathCover(G, k=kk, subpath_constraints=cons, solver_options={"threads": zoo.THREADS}, **extra); km.solve()
                    except Exception as e:
                        ctx.report(f"kPathCover(k={kk}) raised {e!r}", rep); break
                    ctx.count("E2_adversarial_constraints", "k_model_boundary")
                    if km.is_solved() != (kk >= kmin):
                        ctx.report(f"kPathCover(k={kk}) solved={km.is_solved()}; the minimum cover satisfying the constraints has {kmin} paths", rep); break
                    if km.is_solved() and props.covers(G, km.get_solution()["paths"]):
                        ctx.report(f"kPathCover(k={kk}): {props.covers(G, km.get_solution()['paths'])}", rep); break

    # (6) flow decomposition with the greedy shortcut: constraints from ARBITRARY routes with relaxed coverage; the
    #     greedy acceptance test and the MILP must agree on what "covered to the fraction" means
    for i in range(ctx.budget(500, 8000)):
        rng = ctx.rng("advfd", i)
        G, paths, ws, is_int = gen2.rand_flow_dag(rng, nmax=rng.choice([5, 6, 7]), npaths=(3, 4))
        allp = gen.all_st_paths(G)
        cons = []
        for _ in range(rng.randint(1, 2)):
            p_ = rng.choice(allp); es = list(zip(p_, p_[1:]))
            if len(es) >= 2:
                n_ = min(len(es), rng.choice([3, 3, 3, 2]))
                a_ = rng.randrange(0, len(es) - n_ + 1); cons.append(es[a_:a_ + n_])
        if not cons:
            continue
        cov = rng.choice([0.5, 0.5, 0.75, 1.0])
        lengths = None; covkw = {"subpath_constraints_coverage": cov}
        if rng.random() < 0.4:
            # coverage by length with zero-length edges inside the constraints (an explicit length 0 is a length, not "missing")
            for e in G.edges():
                G.edges[e]["len"] = rng.choice([0, 0, 5, 5, 1])
            lengths = {e: G.edges[e]["len"] for e in G.edges()}
            cov = rng.choice([0.55, 0.6, 0.8])
            covkw = {"subpath_constraints_coverage_length": cov, "length_attr": "len"}
            cons = [c for c in cons if sum(lengths[e] for e in c) > 0]
            if not cons:
                continue
        elif rng.random() < 0.4:
            # a length attribute WITHOUT a length coverage: the fraction still counts edges, the lengths must not matter
            for e in G.edges():
                G.edges[e]["len"] = rng.choice([2, 3, 5])
            covkw = {"subpath_constraints_coverage": cov, "length_attr": "len"}
        rep = {"edges": [[u, v, d] for u, v, d in G.edges(data=True)], "constraints": cons, "coverage": cov, "by_length": lengths is not None,
               "length_attr_given": "length_attr" in covkw}
        res = {}
        for greedy in (True, False):
            try:
                m = fp.MinFlowDecomp(G, flow_attr="flow", weight_type=int if is_int else float, subpath_constraints=cons,
                                     optimization_options={"optimize_with_greedy": greedy},
                                     solver_options={"threads": zoo.THREADS}, **covkw)
                m.solve()
            except Exception as e:
                ctx.report(f"MinFlowDecomp raised {e!r}", rep); res = None; break
            if not m.is_solved():
                ctx.report("MinFlowDecomp not solved (constraints are realisable by zero-weight paths)", rep); res = None; break
            sol = m.get_solution()
            why = props.constraint_covered(cons, sol["paths"], coverage=cov, lengths=lengths)
            if why:
                ctx.report(f"MinFlowDecomp (greedy={greedy}): {why} (coverage {cov}{' by length' if lengths else ''})", dict(rep, solution=sol["paths"])); res = None; break
            res[greedy] = len(sol["paths"])
        ctx.case(["advfd", rep], nontrivial=True); ctx.count("E2_greedy_vs_milp_constraints", "cases")
        if res and res[True] != res[False]:
            ctx.report(f"MinFlowDecomp: {res[True]} paths with the greedy shortcut, {res[False]} without", rep)

    # (7) error scale 0 == ignoring, in the presence of the safety optimisations that look at "trusted" edges: the
    #     zero-scaled element carries a large (untrusted) weight, so it is selected by a percentile / given as trusted
    for i in range(ctx.budget(160, 2500)):
        rng = ctx.rng("scale0trusted", i)
        name = ["kLeastAbsErrorsCycles", "kMinPathErrorCycles", "kLeastAbsErrors", "kLeastAbsErrorsCycles"][i % 4]
        info = zoo.make(rng, name, node=False, with_cons=False, with_ignore=True, with_starts=False, exact=rng.random() < 0.5)
        G = info["G"]; kw = dict(info["kwargs"]); kw.pop("error_scaling", None)
        if rng.random() < 0.6:
            # an extra heavy edge that no generating route uses: forcing a route through it (because it stayed "trusted")
            # costs error, ignoring it costs nothing
            nodes_ = [v for v in G.nodes()]
            cand = [(u, v) for u in nodes_ for v in nodes_ if u != v and not G.has_edge(u, v) and G.in_degree(v) > 0 and G.out_degree(u) > 0]
            rng.shuffle(cand)
            for (u, v) in cand:
                G.add_edge(u, v, flow=0)
                if name.endswith("Cycles") or nx.is_directed_acyclic_graph(G):
                    info["ignore"] = [(u, v)]; kw["elements_to_ignore"] = [(u, v)]; break
                G.remove_edge(u, v)
        if not info["ignore"]:
            continue
        for x in info["ignore"]:
            if "flow" in G.edges[tuple(x)]:
                G.edges[tuple(x)]["flow"] = G.edges[tuple(x)]["flow"] + rng.choice([20, 100])
        if name.endswith("Cycles"):
            kw["trusted_edges_for_safety_percentile"] = rng.choice([25, 50, 75])
        else:
            kw["trusted_edges_for_safety"] = [tuple(x) for x in info["ignore"]] + [e for e in G.edges() if rng.random() < 0.5]
        rep = {"class": name, "instance": zoo.describe(info), "kwargs": {k: v for k, v in kw.items() if k != "solver_options"}}
        res = []
        for variant in ("ignore", "scale0", "ignore-without-safety"):
            kwv = dict(kw)
            if variant == "scale0":
                kwv.pop("elements_to_ignore", None); kwv["error_scaling"] = {tuple(x): 0 for x in info["ignore"]}
            if variant == "ignore-without-safety":
                # reference: the same model with every safety optimisation off (which edges are "trusted" is then immaterial)
                kwv["optimization_options"] = {"optimize_with_safe_sequences": False, "optimize_with_safe_paths": False,
                                               "optimize_with_safety_as_subset_constraints": False, "optimize_with_safety_as_subpath_constraints": False,
                                               "optimize_with_max_safe_antichain_as_subset_constraints": False, "optimize_with_safe_zero_edges": False}
            inf = dict(info); inf["kwargs"] = kwv
            try:
                mv = zoo.construct(inf); mv.solve(); res.append((mv.is_solved(), objective(mv, name) if mv.is_solved() else None))
            except ValueError:
                res.append(("ValueError", None))
            except Exception as e:
                res.append((f"raise:{type(e).__name__}", None))
        ctx.case(["scale0trusted", rep["instance"], rep["kwargs"]], nontrivial=True); ctx.count("E2_scale0_equals_ignore_trusted", "cases")
        if res[0][0] != res[1][0] or (res[0][0] is True and not same(res[0][1], res[1][1])):
            ctx.report(f"{name}: with trusted edges for safety, ignoring gives {res[0]} but error scale 0 on the same elements gives {res[1]}", rep)
        elif res[0][0] != res[2][0] or (res[0][0] is True and not same(res[0][1], res[2][1])):
            ctx.report(f"{name}: with trusted edges for safety (an ignored heavy element among the candidates) the result is {res[0]}, "
                       f"with every safety optimisation off it is {res[2]}", rep)
    # (8) elements_to_ignore_percentile (kMinPathErrorCycles): the documented shorthand for ignoring every element whose value is
    #     below the percentile -- must behave exactly like passing that list as elements_to_ignore, in edge and node mode
    import numpy as np
    for i in range(ctx.budget(60, 1200)):
        rng = ctx.rng("pct", i)
        node = rng.random() < 0.4
        info = zoo.make(rng, "kMinPathErrorCycles", node=node, with_cons=rng.random() < 0.2, with_ignore=False, with_starts=False,
                        exact=rng.random() < 0.5)
        G = info["G"]; kw = dict(info["kwargs"]); kw.pop("elements_to_ignore", None)
        pct = rng.choice([0, 10, 25, 50, 75, 90, 100, 33.3])
        elems = list(G.nodes()) if node else list(G.edges())
        val = (lambda x: G.nodes[x].get("flow")) if node else (lambda x: G.edges[x].get("flow"))
        vals = [val(x) for x in elems if val(x) is not None]
        thr = np.percentile(vals, pct) if vals else 0
        explicit = [x for x in elems if val(x) is not None and val(x) < thr]
        rep = {"class": "kMinPathErrorCycles", "instance": zoo.describe(info), "elements_to_ignore_percentile": pct,
               "equivalent_elements_to_ignore": explicit, "threshold": float(thr)}
        res = []
        for extra in ({"elements_to_ignore_percentile": pct}, {"elements_to_ignore": explicit}):
            try:
                mv = fp.kMinPathErrorCycles(G, **kw, **extra); mv.solve()
                res.append((mv.is_solved(), objective(mv, "kMinPathErrorCycles") if mv.is_solved() else None))
            except ValueError as e:
                res.append(("ValueError", str(e)[:100]))
            except Exception as e:
                res.append((f"raise:{type(e).__name__}", str(e)[:100]))
        ctx.case(["pct", rep["instance"], pct], nontrivial=bool(explicit)); ctx.count("E2_ignore_percentile", "cases")
        ctx.dist("percentile-node" if node else "percentile-edge")
        if res[0][0] != res[1][0] or (res[0][0] is True and not same(res[0][1], res[1][1])):
            ctx.report(f"kMinPathErrorCycles: elements_to_ignore_percentile={pct} gives {res[0]} but the equivalent explicit "
                       f"elements_to_ignore list gives {res[1]}", rep)
    # (9) MANY ignored elements with pairwise different values: whatever is derived from "the flow values" (lower bounds, caps,
    #     guessed weights) must not see them -- the result equals that of the same instance whose ignored values are all equal
    for i in range(ctx.budget(50, 1000)):
        rng = ctx.rng("manyign", i)
        name = ["MinFlowDecomp", "kFlowDecomp", "MinFlowDecomp", "kLeastAbsErrors"][i % 4]
        G, paths_, ws_, is_int_ = gen2.rand_flow_dag(rng, nmax=rng.choice([6, 7, 8]), npaths=(1, 2), intw=True)
        G.graph["id"] = "graph 1"
        kw = {"flow_attr": "flow", "weight_type": int, "solver_options": {"threads": zoo.THREADS}}
        if name != "MinFlowDecomp":
            kw["k"] = max(1, len(set(map(tuple, paths_))))
        info = {"class": name, "G": G, "kwargs": kw, "node": False, "routes": paths_, "weights": ws_, "is_int": True, "ignore": [], "cons": [], "starts": [], "ends": []}
        order = list(nx.topological_sort(G)); pos = {v: j for j, v in enumerate(order)}
        cand = [(u, v) for u in order for v in order if pos[u] < pos[v] and not G.has_edge(u, v)]
        rng.shuffle(cand)
        want = rng.randint(3, 6)
        extra = cand[:want]
        j_ = 0
        while len(extra) < want and len(order) >= 2:           # detours through fresh nodes: two more ignored edges each
            a_, b_ = sorted(rng.sample(range(len(order)), 2)); z_ = f"z{j_}"; j_ += 1
            extra += [(order[a_], z_), (z_, order[b_])]
        res = []
        for variant in ("distinct", "equal"):
            G2 = copy.deepcopy(G)
            for j, e in enumerate(extra):
                G2.add_edge(*e, flow=(101 + 7 * j) if variant == "distinct" else 1)
            kw2 = dict(kw, elements_to_ignore=list(extra))
            if rng.random() < 0.3 and name == "MinFlowDecomp":
                kw2["optimization_options"] = {"optimize_with_greedy": False}
            inf = dict(info); inf["G"] = G2; inf["kwargs"] = kw2
            try:
                mv = zoo.construct(inf); mv.solve(); res.append((mv.is_solved(), objective(mv, name) if mv.is_solved() else None))
            except ValueError:
                res.append(("ValueError", None))
            except Exception as e:
                res.append((f"raise:{type(e).__name__}", None))
        rep = {"class": name, "instance": zoo.describe(info), "ignored_extra_edges": extra}
        ctx.case(["manyign", rep["instance"], extra], nontrivial=True); ctx.count("E2_many_ignored_distinct_values", "cases")
        if res[0][0] != res[1][0] or (res[0][0] is True and not same(res[0][1], res[1][1])):
            ctx.report(f"{name}: {len(extra)} ignored edges with pairwise different values give {res[0]}, the same edges with equal values give {res[1]}", rep)
    gencheck.run_generated(ctx, ["max_occurrence"])      # generated-model tie of graphutils.max_occurrence (coq/gen_proofs)
