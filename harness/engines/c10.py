"""C10 — constraints, ignored elements and extra start/end nodes behave as documented.
E2 on every solved model of every class: each constraint is contained to the requested fraction in ONE
returned route; metamorphic: the value of an ignored element (or one with error scale 0) has no influence
on solved status / objective, error scale 0 == ignoring; optimum with constraints / additional starts,
ends == exhaustive optimum over exactly the admissible routes (MinPathCover, MinFlowDecomp)."""
import copy
import networkx as nx
import common, gen, gen2, zoo, props, oracles

LEVEL = "proof"
EXPLANATION = ("Props/C10.v: for every assignment satisfying the generated rows each subpath constraint is realised to the requested "
               "edge- or length-weighted fraction in a single layer (7a/7b); the generated kFlowDecomp model does not depend on the "
               "flow value of an ignored edge; additional starts/ends attach the synthetic source/sink exactly there (Aug). "
               "Tie: E1 with each feature (C02/C01 engines); here E2 evaluates the clauses on all classes and runs the metamorphic pairs.")
ASSUMPTIONS = ["solver specification", "objective comparison tolerance 1e-6 for float weights"]
TRUSTED = ["harness/oracles.py exhaustive optima on tiny DAGs"]


def objective(m, name):
    try:
        return m.get_objective_value()
    except Exception as e:
        return "raise:" + type(e).__name__


def same(a, b):
    if isinstance(a, (int, float)) and isinstance(b, (int, float)):
        return abs(a - b) <= 1e-6 * max(1, abs(a), abs(b))
    return a == b


def solve(info, **over):
    inf = dict(info); inf["kwargs"] = dict(info["kwargs"]); inf["kwargs"].update(over)
    m = zoo.construct(inf); m.solve()
    return m


def run(ctx):
    import flowpaths as fp
    ctx.rule = ("every route-returning class on random small instances with constraints (edge coverage 1, 1/2, 3/4; length coverage "
                "on DAG classes), ignore sets, error scalings, additional starts/ends, edge and node mode; metamorphic partner "
                "instances; non-trivial = instance has a constraint, an ignored element or an additional start/end")
    n = ctx.budget(420, 8000)
    for i in range(n):
        rng = ctx.rng("c10", i)
        name = zoo.ALL[i % len(zoo.ALL)]
        cyclic = name.endswith("Cycles")
        node = rng.random() < 0.2
        info = zoo.make(rng, name, node=node, with_cons=rng.random() < 0.6, with_ignore=rng.random() < 0.5,
                        with_starts=(rng.random() < 0.4) if name in zoo.HAS_STARTS else False, exact=rng.random() < 0.5)
        kw = info["kwargs"]
        cov = info.get("coverage", 1.0)          # zoo sets relaxed coverage itself
        rep = {"instance": zoo.describe(info)}
        try:
            m = zoo.construct(info); m.solve()
        except ValueError:
            ctx.dist("ValueError:" + name); continue
        except Exception as e:
            ctx.report(f"{name} raised {e!r}", rep); continue
        feat = bool(info["cons"] or info["ignore"] or info["starts"] or info["ends"])
        ctx.case(zoo.describe(info), nontrivial=feat, sample={"class": name, "cons": info["cons"], "ignore": info["ignore"],
                                                              "starts": info["starts"], "ends": info["ends"], "coverage": cov})
        ctx.dist(name)
        if not m.is_solved():
            ctx.count("E2_constraints", "unsolved"); continue
        sol = m.get_solution(); routes = sol[zoo.routes_key(name)]
        rep["solution"] = routes
        # (1) constraint coverage in one route
        if info["cons"]:
            cons_e = info["cons"]
            if node:
                cons_e = [list(zip(c, c[1:])) if len(c) > 1 else [] for c in info["cons"]]
                # node-level constraint: the node sequence must appear; evaluate on nodes
                ok = True
                for c in info["cons"]:
                    need = cov * len(c)
                    best = max((sum(1 for v in (set(c) if cyclic else c) if v in r) for r in routes), default=0)
                    tot = len(set(c)) if cyclic else len(c)
                    if best < cov * tot - 1e-9:
                        ok = False
                if not ok:
                    ctx.report(f"{name}: a node-level constraint is not contained to fraction {cov} in a single route", rep); continue
            else:
                lengths = None; frac = cov
                if "coverage_length" in info:          # coverage measured by edge length (missing length = 1)
                    lengths = {e: info["G"].edges[e].get("len", 1) for e in info["G"].edges()}
                    frac = info["coverage_length"]
                why = props.constraint_covered(cons_e, routes, coverage=frac, lengths=lengths, as_set=cyclic)
                if why:
                    ctx.report(f"{name}: {why} (coverage {cov})", rep); continue
            ctx.count("E2_constraints", "covered")
        # (2) ignored element's value has no influence
        if info["ignore"]:
            G2 = copy.deepcopy(info["G"])
            for x in info["ignore"]:
                d = G2.nodes[x] if node else G2.edges[tuple(x)]
                if "flow" in d:
                    d["flow"] = d["flow"] + rng.choice([1, 5, 100]) * (1 if info["is_int"] else 0.5)
            inf2 = dict(info); inf2["G"] = G2
            try:
                m2 = zoo.construct(inf2); m2.solve()
                ctx.count("E2_ignore_metamorphic", "cases")
                if m2.is_solved() != m.is_solved() or (m.is_solved() and not same(objective(m, name), objective(m2, name))):
                    ctx.report(f"{name}: changing the value of an ignored element changed the result "
                               f"({m.is_solved()}, {objective(m, name)}) -> ({m2.is_solved()}, {objective(m2, name)})", rep); continue
            except Exception as e:
                ctx.report(f"{name}: changing the value of an ignored element made the model raise {e!r}", rep); continue
        # (3) error scale 0 == ignoring (error models)
        if name in zoo.ERR and info["ignore"] and not info["cons"]:
            kw3 = {k: v for k, v in kw.items() if k != "elements_to_ignore"}
            sc = dict(kw.get("error_scaling", {}))
            for x in info["ignore"]:
                sc[x if node else tuple(x)] = 0
            kw3["error_scaling"] = sc
            inf3 = dict(info); inf3["kwargs"] = kw3
            try:
                m3 = zoo.construct(inf3); m3.solve()
                ctx.count("E2_scale0_equals_ignore", "cases")
                if m3.is_solved() != m.is_solved() or (m.is_solved() and not same(objective(m, name), objective(m3, name))):
                    ctx.report(f"{name}: error scale 0 and ignoring give different results "
                               f"({m.is_solved()}, {objective(m, name)}) vs ({m3.is_solved()}, {objective(m3, name)})", rep); continue
            except Exception as e:
                ctx.report(f"{name}: error scale 0 on the ignored elements made the model raise {e!r}", rep); continue
        # (4) optimum over exactly the admissible routes (constraints, starts/ends): MinPathCover vs exhaustive
        if name == "MinPathCover" and not node:
            lengths = None; frac = cov
            if "coverage_length" in info:
                lengths = {e: info["G"].edges[e].get("len", 1) for e in info["G"].edges()}; frac = info["coverage_length"]
            kmin = oracles.min_path_cover_bf(info["G"], ignore=info["ignore"], starts=info["starts"], ends=info["ends"],
                                             cons=info["cons"], coverage=frac, lengths=lengths)
            ctx.count("E2_optimum_with_features", "cases")
            if kmin is not None and kmin != len(routes):
                ctx.report(f"MinPathCover returned {len(routes)} paths; the minimum over the admissible routes satisfying the constraints is {kmin}", rep); continue

    # (5) constraints that a solution does not satisfy by accident: sub-sequences of arbitrary routes of the
    #     graph, given to the cover models (always satisfiable for k large enough)
    for i in range(ctx.budget(260, 4000)):
        rng = ctx.rng("advcons", i)
        cyclic = i % 2 == 1
        if cyclic:
            G = gen.rand_cyclic(rng, nmax=5)
            routes0 = [w for w in (gen.rand_walk(rng, G, maxlen=8) for _ in range(3)) if w]
        else:
            G = gen.rand_dag(rng, nmax=6)
            routes0 = gen.all_st_paths(G)
        if not routes0 or G.number_of_edges() > 10:
            continue
        cons = [c for c in gen2.rand_constraints(rng, [rng.choice(routes0) for _ in range(3)], maxn=3, contiguous=False) if c]
        if not cons:
            continue
        mixed = False
        if cyclic and rng.random() < 0.5:
            # a constraint mixing edges of two different walks: it may be impossible to put them on ONE walk; then the
            # model must not claim to be solved with a solution that does not contain it
            w1, w2 = rng.choice(routes0), rng.choice(routes0)
            e1_, e2_ = list(zip(w1, w1[1:])), list(zip(w2, w2[1:]))
            if e1_ and e2_:
                cons.append([rng.choice(e1_), rng.choice(e2_)] + ([rng.choice(e1_)] if rng.random() < 0.5 else [])); mixed = True
        cov = rng.choice([1.0, 1.0, 0.5])
        rep = {"edges": [list(e) for e in G.edges()], "constraints": cons, "coverage": cov, "cyclic": cyclic}
        try:
            if cyclic:
                m = fp.MinPathCoverCycles(G, subset_constraints=cons, subset_constraints_coverage=cov, solver_options={"threads": zoo.THREADS})
            else:
                m = fp.MinPathCover(G, subpath_constraints=cons, subpath_constraints_coverage=cov, solver_options={"threads": zoo.THREADS})
            m.solve()
        except Exception as e:
            ctx.report(f"cover model with constraints raised {e!r}", rep); continue
        ctx.case(["advcons", rep], nontrivial=True); ctx.count("E2_adversarial_constraints", "cases")
        if not m.is_solved():
            if not mixed:
                ctx.report("minimum cover with satisfiable constraints not solved", rep)
            continue
        routes = m.get_solution()["walks" if cyclic else "paths"]
        rep["solution"] = routes
        why = props.constraint_covered(cons, routes, coverage=cov, as_set=cyclic)
        if why:
            ctx.report(("MinPathCoverCycles: " if cyclic else "MinPathCover: ") + why, rep); continue
        if not cyclic:
            kmin = oracles.min_path_cover_bf(G, cons=cons, coverage=cov)
            if kmin is not None and kmin != len(routes):
                ctx.report(f"MinPathCover returned {len(routes)} paths; minimum satisfying the constraints is {kmin}", rep)

    # (6) flow decomposition with the greedy shortcut: constraints from ARBITRARY routes with relaxed coverage; the
    #     greedy acceptance test and the MILP must agree on what "covered to the fraction" means
    for i in range(ctx.budget(500, 8000)):
        rng = ctx.rng("advfd", i)
        G, paths, ws, is_int = gen2.rand_flow_dag(rng, nmax=rng.choice([5, 6, 7]), npaths=(3, 4))
        allp = gen.all_st_paths(G)
        cons = []
        for _ in range(rng.randint(1, 2)):
            p_ = rng.choice(allp); es = list(zip(p_, p_[1:]))
            if len(es) >= 2:
                n_ = min(len(es), rng.choice([3, 3, 3, 2]))
                a_ = rng.randrange(0, len(es) - n_ + 1); cons.append(es[a_:a_ + n_])
        if not cons:
            continue
        cov = rng.choice([0.5, 0.5, 0.75, 1.0])
        rep = {"edges": [[u, v, d] for u, v, d in G.edges(data=True)], "constraints": cons, "coverage": cov}
        res = {}
        for greedy in (True, False):
            try:
                m = fp.MinFlowDecomp(G, flow_attr="flow", weight_type=int if is_int else float, subpath_constraints=cons,
                                     subpath_constraints_coverage=cov, optimization_options={"optimize_with_greedy": greedy},
                                     solver_options={"threads": zoo.THREADS})
                m.solve()
            except Exception as e:
                ctx.report(f"MinFlowDecomp raised {e!r}", rep); res = None; break
            if not m.is_solved():
                ctx.report("MinFlowDecomp not solved (constraints are realisable by zero-weight paths)", rep); res = None; break
            sol = m.get_solution()
            why = props.constraint_covered(cons, sol["paths"], coverage=cov)
            if why:
                ctx.report(f"MinFlowDecomp (greedy={greedy}): {why} (coverage {cov})", dict(rep, solution=sol["paths"])); res = None; break
            res[greedy] = len(sol["paths"])
        ctx.case(["advfd", rep], nontrivial=True); ctx.count("E2_greedy_vs_milp_constraints", "cases")
        if res and res[True] != res[False]:
            ctx.report(f"MinFlowDecomp: {res[True]} paths with the greedy shortcut, {res[False]} without", rep)
