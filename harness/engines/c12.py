"""C12 — SolverWrapper helpers and bookkeeping.
E1: rows/columns each helper hands to HiGHS == Blocks.v rows (structural, exact rationals).
E4: random histories of add_variables / set_objective / queue_* / optimize: bounds, costs,
    integrality, offset and sense read back from HiGHS after each optimize == Wrapper.trace.
E2: semantic probes through HiGHS: for fixed admissible factor values the min and the max of the
    product / y variable must both equal the intended value (the property evaluated on the implementation)."""
import math
from fractions import Fraction as F
import common, lpdump
import gencheck12

LEVEL = "proof"
EXPLANATION = ("Props/C12.v: exactness theorems for the generated rows of the three helpers (with bridge lemmas from row lists to "
               "the semantic relations, auxiliary variables existentially quantified) and the wrapper state machine "
               "(queued bounds, objective replacement, value read-back) by induction over arbitrary op sequences. "
               "Tie: E1 structural equality of the helper rows, E4 op histories, E2 min/max probes through HiGHS.")
ASSUMPTIONS = ["HiGHS solves the tiny probe LPs correctly (status Optimal => optimum within 1e-6)",
               "helper arguments are dyadic rationals so that float arithmetic in the implementation is exact"]
TRUSTED = ["models: coq/theories/Blocks.v, Wrapper.v; proofs BlocksProofs.v, WrapperProofs.v; LP read-back harness/lpdump.py"]

XB, XC, XP, XX, XY = (100, 0), (101, 0), (102, 0), (103, 0), (104, 0)
DY = [F(0), F(1), F(2), F(3), F(5), F(7), F(8), F(1, 2), F(5, 2), F(9, 4), F(12), F(100)]


def new_solver(**kw):
    from flowpaths.utils.solverwrapper import SolverWrapper
    lpdump.install()
    lpdump.reset()
    return SolverWrapper(**kw)


def colkey_factory(s, base, prod_of):
    """base: {col index: key}; prod_of: {helper name: key of the product (resp. y) variable}."""
    reg = lpdump.registry_for(s)
    def key(c):
        if c in base:
            return base[c]
        p, i = reg[c]
        for pre, fam in (("binary_", 12), ("comp_", 13), ("z_", 14)):
            if p.startswith(pre) and p[len(pre):] in prod_of:
                pk = prod_of[p[len(pre):]]
                return (fam,) + tuple(pk) + (i,)
        raise KeyError((p, i))
    return key


def q(x):
    return common.qtok(x)


# ------------------------------------------------------------------ E1 helpers
def e1_mcc(ctx, rng, i):
    lb = rng.choice([F(0), F(0), F(-2), F(-1, 2), F(1)])
    ub = lb + rng.choice(DY)
    s = new_solver()
    b = s.add_variables([0], "b", lb=0, ub=1, var_type="integer")[0]
    c = s.add_variables([0], "c", lb=float(lb), ub=float(ub), var_type="continuous")[0]
    p = s.add_variables([0], "p", lb=float(min(lb, 0)), ub=float(max(ub, 0)), var_type="continuous")[0]
    s.add_binary_continuous_product_constraint(b, c, p, lb=float(lb), ub=float(ub), name="P")
    impl = lpdump.dump_impl(s, colkey_factory(s, {b.index: XB, c.index: XC, p.index: XP}, {}))
    req = "mcc " + common.toks(lpdump.vtok(XB), lpdump.vtok(XC), lpdump.vtok(XP), q(lb), q(ub))
    return ("mcc", {"lb": str(lb), "ub": str(ub)}, impl, req, ("rows",))


def e1_intprod(ctx, rng, i):
    lb = rng.choice([F(0), F(0), F(0), F(-3), F(-1, 2)])
    ub = rng.choice(DY + [F(15), F(16), F(31), F(33), F(1, 4)])
    xub = rng.choice([1, 3, 4, 7, 10])
    s = new_solver()
    x = s.add_variables([0], "x", lb=0, ub=xub, var_type="integer")[0]
    c = s.add_variables([0], "c", lb=float(lb), ub=float(ub), var_type="continuous")[0]
    p = s.add_variables([0], "p", lb=float(lb * xub), ub=float(ub * xub), var_type="continuous")[0]
    s.add_integer_continuous_product_constraint(x, c, p, lb=float(lb), ub=float(ub), name="P")
    base = {x.index: XX, c.index: XC, p.index: XP}
    impl = lpdump.dump_impl(s, colkey_factory(s, base, {"P": XP}))
    for k in base.values():
        impl["cols"].pop(k)
    req = "intprod " + common.toks(lpdump.vtok(XX), lpdump.vtok(XC), lpdump.vtok(XP), q(lb), q(ub))
    return ("intprod", {"lb": str(lb), "ub": str(ub)}, impl, req, ("cols", "rows"))


def rand_pieces(rng):
    n = rng.randint(1, 4)
    cuts = sorted(rng.sample(range(0, 24), 2 * n))
    scale = rng.choice([F(1), F(1), F(1, 2), F(5)])
    ranges = [(cuts[2 * j] * scale, cuts[2 * j + 1] * scale) for j in range(n)]
    if rng.random() < 0.2:                         # degenerate single-point range
        j = rng.randrange(n); ranges[j] = (ranges[j][0], ranges[j][0])
    consts = [rng.choice([F(0), F(1), F(3, 2), F(5), F(100), F(-4), F(1, 4), F(1000)]) for _ in range(n)]
    order = list(range(n)); rng.shuffle(order)
    return [ranges[j] for j in order], [consts[j] for j in order]


def e1_pwc(ctx, rng, i):
    ranges, consts = rand_pieces(rng)
    s = new_solver()
    x = s.add_variables([0], "x", lb=0, ub=200, var_type="continuous")[0]
    y = s.add_variables([0], "y", lb=-2000, ub=2000, var_type="continuous")[0]
    s.add_piecewise_constant_constraint(x, y, [(float(a), float(b)) for a, b in ranges], [float(c) for c in consts], "Y")
    base = {x.index: XX, y.index: XY}
    impl = lpdump.dump_impl(s, colkey_factory(s, base, {"Y": XY}))
    for k in base.values():
        impl["cols"].pop(k)
    req = "pwc " + common.toks(lpdump.vtok(XX), lpdump.vtok(XY), len(ranges), [q(a) + q(b) + q(c) for (a, b), c in zip(ranges, consts)])
    return ("pwc", {"ranges": [[str(a), str(b)] for a, b in ranges], "constants": [str(c) for c in consts]}, impl, req, ("cols", "rows"))


# ------------------------------------------------------------------ E2 probes (property on the implementation)
def solve_minmax(build, target):
    """build(s) adds everything and returns the variable to optimise; returns (status, min, max)."""
    res = []
    for sense in ("minimize", "maximize"):
        s = new_solver()
        v = build(s)
        s.set_objective(1 * v, sense=sense)
        s.optimize()
        st = s.get_model_status()
        res.append((st, s.get_objective_value() if st == "kOptimal" else None))
    return res


def probe_mcc(ctx, rng, i):
    lb = rng.choice([F(0), F(0), F(-2), F(1)]); ub = lb + rng.choice(DY)
    bv = rng.choice([0, 1]); cv = lb + (ub - lb) * rng.choice([F(0), F(1), F(1, 2), F(1, 4)])
    def build(s):
        b = s.add_variables([0], "b", lb=0, ub=1, var_type="integer")[0]
        c = s.add_variables([0], "c", lb=float(lb), ub=float(ub), var_type="continuous")[0]
        p = s.add_variables([0], "p", lb=-1e4, ub=1e4, var_type="continuous")[0]
        s.add_binary_continuous_product_constraint(b, c, p, lb=float(lb), ub=float(ub), name="P")
        s.add_constraint(b == bv); s.add_constraint(c == float(cv))
        return p
    want = bv * cv
    return ("mcc", {"lb": str(lb), "ub": str(ub), "b": bv, "c": str(cv)}, solve_minmax(build, want), want, None)


def probe_intprod(ctx, rng, i, forced=None):
    if forced:
        lb, ub, xv, cv = forced
    else:
        lb = rng.choice([F(0), F(0), F(-3)]); ub = rng.choice([F(1), F(2), F(3), F(5), F(7), F(8), F(5, 2), F(12)])
        n = max(0, math.ceil(math.log2(float(ub) + 1)))
        xv = rng.randint(0, 2 ** n - 1)            # inside the domain of exactness proved in C12_integer_product_exact
        cv = lb + (ub - lb) * rng.choice([F(0), F(1), F(1, 2), F(1, 4)])
    def build(s):
        x = s.add_variables([0], "x", lb=0, ub=1000, var_type="integer")[0]
        c = s.add_variables([0], "c", lb=float(lb), ub=float(ub), var_type="continuous")[0]
        p = s.add_variables([0], "p", lb=-1e6, ub=1e6, var_type="continuous")[0]
        s.add_integer_continuous_product_constraint(x, c, p, lb=float(lb), ub=float(ub), name="P")
        s.add_constraint(x == xv); s.add_constraint(c == float(cv))
        return p
    want = xv * cv
    return ("intprod", {"lb": str(lb), "ub": str(ub), "x": xv, "c": str(cv)}, solve_minmax(build, want), want, None)


def probe_pwc(ctx, rng, i, forced=None):
    if forced:
        ranges, consts, j, xv = forced
    else:
        ranges, consts = rand_pieces(rng)
        j = rng.randrange(len(ranges))
        a, b = ranges[j]
        xv = a + (b - a) * rng.choice([F(0), F(1), F(1, 2)])
    # x on a shared boundary of two ranges may legitimately take either constant: generator keeps ranges disjoint
    def build(s):
        x = s.add_variables([0], "x", lb=0, ub=1e4, var_type="continuous")[0]
        y = s.add_variables([0], "y", lb=-1e5, ub=1e5, var_type="continuous")[0]
        s.add_piecewise_constant_constraint(x, y, [(float(a), float(b)) for a, b in ranges], [float(c) for c in consts], "Y")
        s.add_constraint(x == float(xv))
        return y
    want = consts[j]
    return ("pwc", {"ranges": [[str(a), str(b)] for a, b in ranges], "constants": [str(c) for c in consts], "x": str(xv)},
            solve_minmax(build, want), want, None)


def judge_probe(res, want):
    (s1, lo), (s2, hi) = res
    if s1 != "kOptimal" or s2 != "kOptimal":
        return f"status {s1}/{s2}, expected value {want}"
    if abs(lo - float(want)) > 1e-6 or abs(hi - float(want)) > 1e-6:
        return f"min {lo} max {hi}, expected both {float(want)}"
    return None


# ------------------------------------------------------------------ E4 wrapper histories
def rand_history(rng):
    ops = []; ncols = 0
    for _ in range(rng.randint(3, 14)):
        r = rng.random()
        if ncols == 0 or r < 0.2:
            n = rng.randint(1, 3)
            bs = []
            for _ in range(n):
                lb = rng.choice([F(0), F(0), F(-2), F(1)]); ub = lb + rng.choice([F(0), F(1), F(3), F(5, 2), F(10)])
                bs.append((lb, ub))
            ops.append(("add", rng.random() < 0.5, bs)); ncols += n
        elif r < 0.4:
            ts = [(rng.randrange(ncols), rng.choice([F(1), F(-1), F(2), F(1, 2), F(3)])) for _ in range(rng.randint(0, 4))]
            ops.append(("obj", rng.random() < 0.3, rng.choice([F(0), F(0), F(5), F(-1, 2)]), ts))
        elif r < 0.58:
            ops.append(("fix", rng.randrange(ncols), rng.choice([F(0), F(1), F(2), F(3, 2)])))
        elif r < 0.78:
            ops.append(("lb", rng.randrange(ncols), rng.choice([F(0), F(1), F(2), F(1, 2)])))
        else:
            ops.append(("opt",))
    ops.append(("opt",))
    return ops


class HistoryRunner:
    """one SolverWrapper driven operation by operation (so that several of them can be interleaved)"""
    def __init__(self, **kw):
        self.s = new_solver(**kw); self.cols = []; self.obs = []

    def step(self, o):
        import highspy
        s = self.s; cols = self.cols
        if o[0] == "add":
            idx = list(range(len(cols), len(cols) + len(o[2])))
            vs = s.add_variables(idx, "v%d_" % len(cols), lb=[float(a) for a, _ in o[2]], ub=[float(b) for _, b in o[2]],
                                 var_type="integer" if o[1] else "continuous")
            cols += [vs[i] for i in idx]
        elif o[0] == "obj":
            expr = s.quicksum(float(c) * cols[i] for i, c in o[3])
            if o[2] != 0:
                expr = expr + float(o[2])        # otherwise the expression carries no constant term at all
            s.set_objective(expr, sense="maximize" if o[1] else "minimize")
        elif o[0] == "fix":
            s.queue_fix_variable(cols[o[1]], float(o[2]))
        elif o[0] == "lb":
            s.queue_set_var_lower_bound(cols[o[1]], float(o[2]))
        else:
            s.optimize()
            lp = s.solver.getLp()
            integ = list(lp.integrality_)
            self.obs.append(([(F(lp.col_lower_[c.index]), F(lp.col_upper_[c.index]), F(lp.col_cost_[c.index]),
                               bool(integ) and integ[c.index] == highspy.HighsVarType.kInteger) for c in cols],
                             F(lp.offset_), lp.sense_ == highspy.ObjSense.kMaximize,
                             (len(s._pending_fix_vars), len(s._pending_lb_vars))))


# solver options under which the wrapper takes its OTHER optimize route (finite time limit + the extra signal-based timeout): the
# bookkeeping of queued bounds and objectives must be the same on both routes
TIMEOUT_KW = {"time_limit": 600, "use_also_custom_timeout": True}


def run_history_impl(ops, kw=None):
    r = HistoryRunner(**(kw or {}))
    for o in ops:
        r.step(o)
    return r.obs


def run_interleaved(h1, h2, rng):
    """two wrappers alive at the same time, their operations interleaved: each must behave as if it were alone"""
    def kw():
        d = dict(TIMEOUT_KW) if rng.random() < 0.3 else {}
        if rng.random() < 0.3:
            d["optimization_sense"] = rng.choice(["maximize", "minimize"])
        return d
    r1 = HistoryRunner(**kw()); r2 = HistoryRunner(**kw())
    i = j = 0; order = []
    while i < len(h1) or j < len(h2):
        first = (j >= len(h2)) or (i < len(h1) and rng.random() < 0.5)
        if first:
            r1.step(h1[i]); i += 1; order.append(1)
        else:
            r2.step(h2[j]); j += 1; order.append(2)
    return r1.obs, r2.obs, order


def history_request(ops):
    t = []
    for o in ops:
        if o[0] == "add":
            t.append([0, o[1], len(o[2]), [q(a) + q(b) for a, b in o[2]]])
        elif o[0] == "obj":
            t.append([1, o[1], q(o[2]), len(o[3]), [[i] + q(c) for i, c in o[3]]])
        elif o[0] == "fix":
            t.append([2, o[1], q(o[2])])
        elif o[0] == "lb":
            t.append([3, o[1], q(o[2])])
        else:
            t.append([4])
    return "wrapper " + common.toks(len(ops), t)


def parse_obs(lines):
    res = []
    for l in lines:
        if not l.startswith("OBS"):
            continue
        head, body = l[4:].split("|")
        off, sense = head.split()
        cols = []
        for c in body.split(";"):
            c = c.split()
            if c:
                cols.append((lpdump._pq(c[0]), lpdump._pq(c[1]), lpdump._pq(c[2]), c[3] == "1"))
        res.append((cols, lpdump._pq(off), sense == "max"))
    return res


def spec_history(ops):
    """C12 stated directly: expected column state after each optimize, computed from the property text
    (last fix => lb=ub=v, then last raise => lb=v keeping ub; objective = last set_objective)."""
    cols = []; pend_fix = []; pend_lb = []; off = F(0); mx = False; out = []
    for o in ops:
        if o[0] == "add":
            cols += [[a, b, F(0), o[1]] for a, b in o[2]]
        elif o[0] == "obj":
            for c in cols: c[2] = F(0)
            for i, c in o[3]: cols[i][2] += c
            off = o[2]; mx = o[1]
        elif o[0] == "fix": pend_fix.append((o[1], o[2]))
        elif o[0] == "lb": pend_lb.append((o[1], o[2]))
        else:
            for i, v in pend_fix: cols[i][0] = v; cols[i][1] = v
            for i, v in pend_lb: cols[i][0] = v
            pend_fix = []; pend_lb = []
            out.append(([tuple(c) for c in cols], off, mx))
    return out


# ------------------------------------------------------------------ driver
def run(ctx):
    ctx.rule = ("E1: one helper call with random dyadic bounds/ranges/constants (incl. ub=0, non powers of two, negative lb, "
                "degenerate ranges); E4: random op histories (3-15 ops, repeated/unsorted queue requests, objective replaced "
                "several times); E2: min/max probes with fixed admissible factors. Non-trivial: helper emits >= 4 rows / history "
                "has a queued request or objective change before an optimize. Distinct by canonical arguments.")
    n1 = ctx.budget(300, 6000); n4 = ctx.budget(200, 6000); n2 = ctx.budget(90, 1500)
    # ---- E1
    cases = []
    for i in range(n1):
        rng = ctx.rng("e1", i)
        f = [e1_mcc, e1_intprod, e1_pwc][i % 3]
        cases.append(f(ctx, rng, i))
    outs = ctx.model.run([c[3] for c in cases], multiline=True)
    for (kind, args, impl, req, what), out in zip(cases, outs):
        model = lpdump.parse_model(out)
        d = lpdump.diff(impl, model, what=what)
        ctx.case([kind, args], nontrivial=len(impl["rows"]) >= 4, sample={"helper": kind, "args": args, "rows": len(impl["rows"])})
        ctx.dist("e1:" + kind); ctx.count("E1_helper_rows", "cases"); ctx.count("E1_helper_rows", "rows_compared", len(impl["rows"]))
        if d:
            ctx.count("E1_helper_rows", "disagreements")
            ctx.report(f"E1 correspondence broken: rows of {kind} helper differ from Blocks.v: " + "; ".join(d[:3]),
                       {"helper": kind, "args": args, "diff": d, "request": req}, concrete=False)
        else:
            ctx.count("E1_helper_rows", "agreements")
    # ---- E2 probes (the property evaluated on the implementation)
    probes = []
    for i in range(n2):
        rng = ctx.rng("e2", i)
        probes.append([probe_mcc, probe_intprod, probe_pwc][i % 3](ctx, rng, i))
    # witnesses of recorded findings, replayed on every run
    probes.append(("pwc", {"witness": "pwc_M_old_refuted: ranges [0,1],[2,3], constants 0,100, x=0"},
                   probe_pwc(ctx, None, 0, forced=([(F(0), F(1)), (F(2), F(3))], [F(0), F(100)], 0, F(0)))[2], F(0), None))
    probes.append(("intprod", {"witness": "intprod_domain_refuted: ub=0, x=1, c=0"},
                   probe_intprod(ctx, None, 0, forced=(F(0), F(0), 1, F(0)))[2], F(0), "intprod_bits_from_continuous_ub"))
    probes.append(("intprod", {"witness": "ub=3 (2 bits), x=6, c=1/2"},
                   probe_intprod(ctx, None, 0, forced=(F(0), F(3), 6, F(1, 2)))[2], F(3), "intprod_bits_from_continuous_ub"))
    for kind, args, res, want, key in probes:
        ctx.case(["probe", kind, args], nontrivial=True)
        ctx.dist("e2:" + kind); ctx.count("E2_minmax_probe", "cases")
        bad = judge_probe(res, want)
        if bad:
            ctx.report(f"{kind} helper does not admit exactly the intended product/value: {bad}",
                       {"helper": kind, "args": args, "observed": str(res), "expected": str(want)}, key=key, concrete=True)
        else:
            ctx.count("E2_minmax_probe", "ok")
    # ---- E4 histories
    hs = [rand_history(ctx.rng("e4", i)) for i in range(n4)]
    # a fixed corpus of histories that exercised past defects
    hs.append([("add", True, [(F(0), F(5)), (F(0), F(6)), (F(0), F(7))]), ("lb", 2, F(1)), ("lb", 0, F(2)), ("opt",)])
    hs.append([("add", True, [(F(0), F(5)), (F(0), F(6))]), ("lb", 1, F(1)), ("lb", 1, F(2)), ("fix", 0, F(3)), ("fix", 0, F(1)), ("opt",)])
    hs.append([("add", False, [(F(0), F(5))]), ("obj", False, F(0), [(0, F(2))]), ("obj", True, F(1), []), ("opt",)])
    hs.append([("add", False, [(F(0), F(5))]), ("obj", False, F(5), [(0, F(2))]), ("obj", False, F(0), [(0, F(1))]), ("opt",)])
    outs = ctx.model.run([history_request(h) for h in hs], multiline=True)
    for h, out in zip(hs, outs):
        try:
            kw = dict(TIMEOUT_KW) if rng.random() < 0.35 else {}
            # the documented constructor keyword optimization_sense is a default only: the objective that counts is the LAST
            # set_objective, also when its sense equals the constructor's
            r = rng.random()
            if r < 0.45:
                kw["optimization_sense"] = "maximize" if r < 0.3 else "minimize"
            impl = run_history_impl(h, kw or None)
        except Exception as e:
            ctx.report("wrapper history raised " + repr(e), {"history": str(h)}, concrete=True); continue
        model = parse_obs(out)
        spec = spec_history(h)
        nontriv = any(o[0] in ("fix", "lb", "obj") for o in h)
        ctx.case(["hist", str(h)], nontrivial=nontriv, sample={"history": [str(o) for o in h][:8]})
        ctx.count("E4_wrapper_histories", "cases"); ctx.dist("e4:len%d" % (5 * (len(h) // 5)))
        got = [(c, o, m) for (c, o, m, _) in impl]
        if any(qs != (0, 0) for (_, _, _, qs) in impl):
            ctx.report("queues not empty after optimize", {"history": str(h)}, concrete=True); continue
        if got != spec:
            ctx.report("after optimize the columns do not carry exactly the requested bounds / the last objective",
                       {"history": str(h), "observed": str(got), "expected": str(spec)}, concrete=True); continue
        if got != model:
            ctx.count("E4_wrapper_histories", "disagreements")
            ctx.report("E4 correspondence broken: wrapper state differs from Wrapper.trace",
                       {"history": str(h), "observed": str(got), "model": str(model)}, concrete=False)
        else:
            ctx.count("E4_wrapper_histories", "agreements")
    # ---- E4b: two wrappers alive at once (a model that was built -- with queued bound updates -- but not yet solved must not
    #      influence another one): interleaved histories, each compared with the property-level expectation for it alone
    for i in range(ctx.budget(80, 1500)):
        rng = ctx.rng("e4b", i)
        h1, h2 = rand_history(rng), rand_history(rng)
        if rng.random() < 0.5:
            h2 = [o for o in h2 if o[0] != "opt"]       # built and queued, never optimised
        try:
            o1, o2, order = run_interleaved(h1, h2, rng)
        except Exception as e:
            ctx.report("interleaved wrapper histories raised " + repr(e), {"h1": str(h1), "h2": str(h2)}, concrete=True); continue
        ctx.case(["hist2", str(h1), str(h2), str(order)], nontrivial=True); ctx.count("E4_interleaved_wrappers", "cases")
        for name, h, obs in (("first", h1, o1), ("second", h2, o2)):
            got = [(c, o, m) for (c, o, m, _) in obs]
            if got != spec_history(h):
                ctx.report(f"two wrappers interleaved: the {name} one does not carry exactly its own requested bounds / objective after optimize",
                           {"h1": str(h1), "h2": str(h2), "order": str(order), "observed": str(got), "expected": str(spec_history(h))}, concrete=True)
                break
        else:
            ctx.count("E4_interleaved_wrappers", "ok")
    # ---- get_values: asked variables only
    from flowpaths.utils.solverwrapper import SolverWrapper
    for i in range(ctx.budget(60, 600)):
        rng = ctx.rng("gv", i)
        s = new_solver()
        n = rng.randint(2, 7)
        if rng.random() < 0.5:              # another family first: the asked block does not start at column 0
            s.add_variables(list(range(rng.randint(1, 3))), "other", lb=0, ub=1, var_type="continuous")
        vs = s.add_variables(list(range(n)), "g", lb=0, ub=[float(j + 1) for j in range(n)], var_type="integer")
        s.set_objective(s.quicksum(1.0 * vs[j] for j in range(n)), sense="maximize")
        s.optimize()
        ask = rng.sample(range(n), rng.randint(1, n))
        if i % 2 == 1 and n >= 4:
            # a caller-built dict over a whole stretch of consecutive columns whose ends are in place and whose middle is not
            a_ = rng.randrange(0, n - 3); b_ = rng.randrange(a_ + 3, n); mid = list(range(a_ + 1, b_)); rng.shuffle(mid)
            ask = [a_] + mid + [b_]
        got = s.get_values({("k", j): vs[j] for j in ask})
        ctx.case(["gv", n, ask], nontrivial=True); ctx.count("E4_get_values", "cases")
        if set(got) != {("k", j) for j in ask} or any(abs(got[("k", j)] - (j + 1)) > 1e-6 for j in ask):
            ctx.report("get_values returned other variables/values than asked", {"n": n, "asked": ask, "got": str(got)}, concrete=True)
    gencheck12.run_generated_rows(ctx)      # generated-model tie of the three helpers (coq/gen_proofs)
