"""C20 — graph files are parsed faithfully, malformed files rejected.

Three things happen for every generated case:
  (P) the property is evaluated directly on the implementation's output: a well-formed description
      rendered to a file must come back (graphutils.read_graphs / read_graph) as exactly the described
      graphs (edges, weights, id, constraints, n, m, width against an independent brute-force
      antichain computation); a file with one of the four named corruptions must raise ValueError;
  (E3) the extracted Coq model (Parser.read_graphs / read_graph) is run on the same lines and its
      result (Ok graphs / Error / Unmodelled) must equal the implementation's;
  (S) the string layer of the model (strip/lstrip/split, is_ws, int()/float() classification) is
      compared with Python's str methods, int() and float() on random strings.
"""
import os, re, shutil, tempfile
from fractions import Fraction
import common

LEVEL = "proof"
EXPLANATION = (
    "Theorems of Props/C20.v are about Parser.read_graph / Parser.read_graphs (Gallina transcription of "
    "graphutils.read_graph / read_graphs over lists of code-point strings). Proved for ALL inputs: the round trip "
    "(every well-formed description, any layout: blocks, header count, '#S' lines interleaved and duplicated, blank/"
    "comment lines, white-space of any Python-isspace kind, zero-vertex blocks, repeated edges, last line without newline) "
    "and the rejection theorems (malformed edge line, non-numeric weight, non-numeric / missing vertex count, constraint "
    "edge absent, also in blocks that declare 0 vertices; inside any multi-block file). The result record is the complete "
    "attribute set (id, constraints, and unless the count is 0: nodes, edges with flow, n, m, w); the count written in the file is "
    "only compared with 0 and stored nowhere; the format has no width field. The stored width is modelled by its specified value "
    "(Parser.width = size of a largest antichain of condensation items, proved in C20_stored_width_is_max_antichain), not by a "
    "transcription of stDiGraph.get_width (networkx condensation + network simplex = external engine): that route is tied per "
    "instance, model width == implementation width == the harness' own brute-force antichain. Only sampled: that tie, and the "
    "value of int()/float() outside the grammar [+-]?digits[.digits]? (model answers Unmodelled); file decoding / readlines().")
ASSUMPTIONS = [
    "lines handed to the model are exactly what f.readlines() returned (the harness writes UTF-8 files without '\\r' and compares on the same list of lines)",
    "float(token) is the correctly rounded double of the decimal the model returns (compared as float(Fraction(mantissa, 10**scale)) == weight)",
    "graph width is outside the model; it is checked per generated instance against a brute-force maximum antichain of inter-SCC edges and non-trivial SCCs",
    "graph width: the model returns the value get_width is specified to return (largest antichain, exhaustive search); the code's min-flow route is tied per instance (E3) and against the harness' own brute force",
]
TRUSTED = ["model: coq/theories/Parser.v; proofs ParserProofs1-5.v; driver coq/driver/h_parser.ml (code-point lists in, integers out)"]


# ----------------------------------------------------------------------------- implementation side
def _gu():
    from flowpaths.utils import graphutils
    return graphutils


def impl_graph(G):
    g = {"id": G.graph.get("id"), "cons": [[list(p) for p in c] for c in G.graph.get("constraints", [])]}
    # "and nothing else": the complete attribute set of the returned object
    g["keys"] = sorted(G.graph)
    g["extra_attrs"] = sorted({k for _, d in G.nodes(data=True) for k in d} | {"edge:" + k for _, _, d in G.edges(data=True) for k in d if k != "flow"})
    if "n" in G.graph or G.number_of_edges() or G.number_of_nodes():
        g["info"] = {"nodes": list(G.nodes()), "edges": sorted([u, v, d.get("flow")] for u, v, d in G.edges(data=True)),
                     "n": G.graph.get("n"), "m": G.graph.get("m"), "w": G.graph.get("w")}
    else:
        g["info"] = None
        if any(k in G.graph for k in ("n", "m", "w")):
            g["info"] = {"unexpected_keys": sorted(G.graph)}
    return g


def classify_msg(msg):
    for pat, kind in (("missing vertex-count", "MissingCount"), ("invalid literal for int", "BadCount"), ("Exceeds the limit", "BadCount"),
                      ("Invalid edge format", "BadEdge"), ("could not convert string to float", "BadWeight"),
                      ("Constraint edge", "MissingConstraintEdge"), ("cannot have subpath constraints", "ZeroHasConstraints"),
                      ("cannot list edges", "ZeroHasEdges"), ("at least one source", "NoSource"), ("at least one sink", "NoSink")):
        if pat in msg:
            return kind
    return "?"


def run_impl(fn, arg):
    """('OK', graphs) | (exception type name, message kind)"""
    try:
        r = fn(arg)
    except Exception as e:
        return (type(e).__name__, classify_msg(str(e)))
    if not isinstance(r, list):
        r = [r]
    return ("OK", [impl_graph(G) for G in r])


# ----------------------------------------------------------------------------- model side
def enc_str(s):
    return [len(s)] + [ord(c) for c in s]


def enc_lines(lines):
    return [len(lines)] + [enc_str(l) for l in lines]


class Tok:
    def __init__(self, line):
        self.t = line.split(); self.i = 0
    def nxt(self):
        x = self.t[self.i]; self.i += 1; return x
    def int(self):
        return int(self.nxt())
    def str(self):
        return "".join(chr(self.int()) for _ in range(self.int()))


def dec_graph(tk):
    g = {"id": tk.str() if tk.int() else None}
    g["cons"] = [[[tk.str(), tk.str()] for _ in range(tk.int())] for _ in range(tk.int())]
    if tk.int():
        nodes = [tk.str() for _ in range(tk.int())]
        edges = []
        for _ in range(tk.int()):
            u = tk.str(); v = tk.str(); neg = tk.int(); mant = tk.int(); scale = tk.int()
            edges.append([u, v, Fraction(-mant if neg else mant, 10 ** scale)])
        g["info"] = {"nodes": nodes, "edges": sorted(edges), "n": tk.int(), "m": tk.int(), "w": tk.int()}
    else:
        g["info"] = None
    return g


def dec_model(out, multi):
    """('OK', graphs) | ('ValueError', kind) | ('UNMODELLED',) | ('OUTOFFUEL',)"""
    tk = Tok(out); h = tk.nxt()
    if h == "OK":
        n = tk.int() if multi else 1
        gs = [dec_graph(tk) for _ in range(n)]
        assert tk.i == len(tk.t), "trailing tokens in model output"
        return ("OK", gs)
    if h == "ERR":
        return ("ValueError", tk.nxt())
    return (h,)


def same_graph(mg, ig, with_width=None):
    """model (or spec) graph vs implementation graph; weights: model Fractions vs impl floats."""
    if mg["id"] is None and with_width == "model-vs-spec":
        if ig["id"] is not None:
            return "id: expected none, got %r" % (ig["id"],)
    elif mg["id"] is None:
        if not (isinstance(ig["id"], str) and ig["id"].isdigit()):
            return "id: expected str(id(..)), got %r" % (ig["id"],)
    elif mg["id"] != ig["id"]:
        return "id %r != %r" % (mg["id"], ig["id"])
    want_keys = ["constraints", "id"] if mg["info"] is None else ["constraints", "id", "m", "n", "w"]
    if "keys" in ig and (ig["keys"] != want_keys or ig["extra_attrs"]):
        return "attribute set: graph keys %r (expected %r), other attributes %r" % (ig["keys"], want_keys, ig["extra_attrs"])
    if mg["cons"] != ig["cons"]:
        return "constraints %r != %r" % (mg["cons"], ig["cons"])
    if (mg["info"] is None) != (ig["info"] is None):
        return "zero-vertex early return differs"
    if mg["info"] is None:
        return None
    a, b = mg["info"], ig["info"]
    if "unexpected_keys" in b:
        return "unexpected keys on an empty graph"
    if a["nodes"] != b["nodes"]:
        return "node order %r != %r" % (a["nodes"], b["nodes"])
    if [(u, v) for u, v, _ in a["edges"]] != [(u, v) for u, v, _ in b["edges"]]:
        return "edge sets differ"
    for (u, v, x), (_, _, y) in zip(a["edges"], b["edges"]):
        if not isinstance(y, float) or float(x) != y:
            return "weight of (%s,%s): %r vs %r" % (u, v, x, y)
    if a["n"] != b["n"] or a["m"] != b["m"]:
        return "n/m %r/%r vs %r/%r" % (a["n"], a["m"], b["n"], b["m"])
    if "w" in a and a["w"] != b["w"]:
        return "width %r vs %r" % (a["w"], b["w"])
    return None


# ----------------------------------------------------------------------------- independent width
def brute_width(edges):
    """Maximum number of pairwise incomparable items, items = edges between different strongly connected
    components (each one separately) and every component that contains an edge; A before B if the end of A
    reaches the start of B.  (= minimum number of source-to-sink walks of the condensation covering all edges.)"""
    nodes = sorted({x for e in edges for x in e})
    reach = {u: {u} for u in nodes}
    changed = True
    while changed:
        changed = False
        for u, v in edges:
            for a in nodes:
                if u in reach[a] and not reach[v] <= reach[a]:
                    reach[a] |= reach[v]; changed = True
    scc = lambda u, v: v in reach[u] and u in reach[v]
    items = []
    seen_c = []
    for u, v in edges:
        if scc(u, v):
            if not any(scc(u, r) for r in seen_c):
                seen_c.append(u); items.append((u, u))
        else:
            items.append((u, v))
    comp = lambda a, b: a[0] in reach[b[1]] or b[0] in reach[a[1]]
    best = 0
    def rec(i, chosen):
        nonlocal best
        if len(chosen) + (len(items) - i) <= best:
            return
        if i == len(items):
            best = max(best, len(chosen)); return
        if all(not comp(items[i], c) for c in chosen):
            rec(i + 1, chosen + [items[i]])
        rec(i + 1, chosen)
    rec(0, [])
    return best


# ----------------------------------------------------------------------------- descriptions
NAMES = ["a", "b", "c", "d", "e", "s", "t", "o", "v1", "v2", "n10", "x_y", "7", "-3", "1.5", "u#", "é", "ß2", "S", "node", "A", "0",
         "٣", "k", "src"]
NAMES_DIGITS = ["1", "11", "12", "2", "21", "112", "121", "3", "13", "31", "111", "22"]
WS1 = [" ", " ", " ", "\t", "  ", " \t", "\x0c", "\x1c", "\x1f", "\x0b", "\x85", "\xa0", "\u2003", "\u3000", "\u2028"]   # never \n or \r inside a line
LEAD = ["", "", "", " ", "\t", "  ", "\x0c ", "\u2003"]
TRAIL = ["\n", "\n", "\n", " \n", "\t\n", "  \n", "\x0c\n"]
HTEXT = ["graph number = 1 name = foo", "g1", "", "x", "Sample", "#weird", "S", "id  with   gaps", "über graph", "7", "S a b", "gr#1 #S x"]
BLANK = ["\n", "\n", " \n", "\t\n", "\x0c\n", "  \n", "\x1c\n"]


def gen_weight(rng):
    sign = rng.choice(["", "", "", "+", "-"])
    ip = rng.choice(["0", "1", "2", "3", "5", "10", "007", "12", "100", "4096", "00"])
    fp = rng.choice([None, None, "5", "25", "125", "0", "50", "75", "1", "3", "10", "0625", "333"])
    tok = sign + ip + ("" if fp is None else "." + fp)
    val = Fraction(int(ip + (fp or "")), 10 ** len(fp or ""))
    return tok, (-val if sign == "-" else val)


def gen_graph(rng):
    """Random digraph (self-loops, cycles, several components) with at least one source and one sink."""
    k = rng.randint(1, 6)
    # one block in five draws its names from digit strings whose concatenations coincide ("1"+"12" = "11"+"2"):
    # distinct '#S' lines must stay distinct constraints however the implementation keys them
    nodes = rng.sample(NAMES_DIGITS if rng.random() < 0.2 else NAMES, k)
    p = rng.choice([0.2, 0.35, 0.5]) if nodes[0] not in NAMES_DIGITS else 0.6
    edges = [(u, v) for u in nodes for v in nodes if rng.random() < (p if u != v else p / 2)]
    if not edges:
        edges = [(nodes[0], nodes[-1])] if k > 1 else [(nodes[0], "zz")]
    used = []
    for e in edges:
        for x in e:
            if x not in used:
                used.append(x)
    if all(any(v == x for _, v in edges) for x in used):
        edges.append(("SRC0", rng.choice(used)))
    if all(any(u == x for u, _ in edges) for x in used + ["SRC0"] if any(x in e for e in edges)):
        edges.append((rng.choice(used), "SNK0"))
    rng.shuffle(edges)
    return edges


def rand_walks(rng, edges):
    succ = {}
    for u, v in edges:
        succ.setdefault(u, []).append(v)
    walks = []
    dig = edges[0][0] in NAMES_DIGITS
    for _ in range(rng.choice([0, 0, 1, 2, 3]) if not dig else rng.choice([3, 4, 5])):
        u = rng.choice(edges)[0]; w = [u]
        for _ in range(rng.choice([0, 1, 1, 2, 3])):
            if w[-1] not in succ:
                break
            w.append(rng.choice(succ[w[-1]]))
        walks.append(w)
    if walks and rng.random() < 0.4:
        walks.append(list(rng.choice(walks)))          # duplicate '#S' line
    return walks


def cells(rng, toks, last_trail):
    return [(t, rng.choice(WS1) if i + 1 < len(toks) else last_trail) for i, t in enumerate(toks)]


def gen_block(rng, comments_in_body, zero=False):
    """A well-formed block description.  Lines are (role, text); spec is what the property promises."""
    lines = []
    edges = [] if zero else gen_graph(rng)
    walks = [] if zero else rand_walks(rng, edges)
    if zero and rng.random() < 0.3:
        walks = [[rng.choice(NAMES)]]                   # a one-node '#S' line yields no constraint
    hdrs = [rng.choice(HTEXT) for _ in range(rng.choice([0, 1, 1, 1, 2, 3]))]
    if not hdrs and not walks:
        hdrs = [rng.choice(HTEXT)]
    items = [("hdr", h) for h in hdrs] + [("cons", w) for w in walks]
    if rng.random() < 0.5:
        rng.shuffle(items)
    ids = []; cons_toks = []
    for kind, x in items:
        lead = rng.choice(LEAD)
        if kind == "hdr":
            k = rng.choice([0, 0, 0, 1, 2])
            gap = rng.choice(["", " ", " ", " ", "\t", "  "])
            if gap == "" and (x.startswith("#") or (k == 0 and x.startswith("S"))):
                gap = " "
            lines.append(("hdr", lead + "#" + "#" * k + gap + x + rng.choice(TRAIL)))
            ids.append(x)
        else:
            gap = rng.choice(["", " ", " ", " ", "\t", "  "])
            lines.append(("cons", lead + "#S" + gap + "".join(t + g for t, g in cells(rng, x, rng.choice(TRAIL)))))
            cons_toks.append(x)
    if rng.random() < 0.15:
        lines.append(("cons", rng.choice(LEAD) + "#S" + rng.choice(TRAIL)))       # '#S' without nodes: ignored
    for _ in range(rng.choice([0, 0, 0, 1, 2])):
        lines.append(("blank", rng.choice(BLANK)))
    # vertex-count line (only n == 0 matters to the code)
    if zero:
        ctok = rng.choice(["0", "0", "00", "+0", "-0"])
    else:
        nn = len({x for e in edges for x in e})
        ctok = rng.choice([str(nn), str(nn), str(nn + rng.randint(1, 9)), "+%d" % nn, "00%d" % nn, "-2", "1", "123456789012345678901234567890"])
    lines.append(("count", rng.choice(LEAD) + ctok + rng.choice(TRAIL)))
    # body
    listed = []
    for (u, v) in edges:
        listed.append((u, v) + gen_weight(rng))
    for _ in range(rng.choice([0, 0, 1, 2]) if edges else 0):          # repeated edges: the later line wins
        u, v = rng.choice(edges)
        listed.insert(rng.randint(0, len(listed)), (u, v) + gen_weight(rng))
    for (u, v, tok, val) in listed:
        while rng.random() < 0.15:
            lines.append(("junk", rng.choice(BLANK) if not comments_in_body or rng.random() < 0.5
                          else rng.choice(LEAD) + rng.choice(["# comment\n", "#S a b\n", "#\n", "## x y z w\n"])))
        lines.append(("edge", rng.choice(LEAD) + "".join(t + g for t, g in cells(rng, [u, v, tok], rng.choice(TRAIL))), (u, v, tok)))
    for _ in range(rng.choice([0, 0, 1, 2])):
        lines.append(("junk", rng.choice(BLANK)))
    # what the property promises
    seen = []; cons = []
    for w in cons_toks:
        if w not in seen:
            seen.append(w)
            if len(w) >= 2:
                cons.append([[a, b] for a, b in zip(w, w[1:])])
    spec = {"id": ids[0] if ids else None, "cons": cons, "info": None}
    if not zero:
        nodes = []; emap = {}
        for (u, v, tok, val) in listed:
            for x in (u, v):
                if x not in nodes:
                    nodes.append(x)
            emap[(u, v)] = val
        spec["rep"] = len(emap) < len(listed)
        spec["info"] = {"nodes": nodes, "edges": sorted([u, v, val] for (u, v), val in emap.items()), "n": len(nodes), "m": len(emap),
                        "w": brute_width(list(emap))}
    return lines, spec


def gen_file(rng):
    pre = [("pre", rng.choice(["\n", "junk before the first header\n", "1 2 3\n", " \n", "3\n"])) for _ in range(rng.choice([0, 0, 0, 1, 2]))]
    nb = rng.choice([1, 1, 2, 2, 3, 4])
    blocks = [gen_block(rng, False, zero=rng.random() < 0.18) for _ in range(nb)]
    lines = [(None,) + l for l in pre]
    for bi, (bl, _) in enumerate(blocks):
        lines += [(bi,) + l for l in bl]
    specs = [s for _, s in blocks]
    if rng.random() < 0.3 and lines[-1][2].endswith("\n"):
        lines[-1] = lines[-1][:2] + (lines[-1][2][:-1],) + lines[-1][3:]       # last line without newline
    return lines, specs


# ----------------------------------------------------------------------------- fixed corpus (runs first)
def _spec(id_, cons, listed):
    if listed is None:
        return {"id": id_, "cons": cons, "info": None}
    nodes = []; emap = {}
    for u, v, x in listed:
        for y in (u, v):
            if y not in nodes:
                nodes.append(y)
        emap[(u, v)] = Fraction(x)
    return {"id": id_, "cons": cons, "rep": len(emap) < len(listed),
            "info": {"nodes": nodes, "edges": sorted([u, v, x] for (u, v), x in emap.items()), "n": len(nodes), "m": len(emap), "w": brute_width(list(emap))}}


_PATH = [("a", "b", 1), ("b", "c", 1), ("c", "d", 1)]
_STAR = [("a", "b", 1), ("a", "c", 1), ("a", "d", 1)]
_SAT = [("s", "a", 1), ("a", "t", 2)]
CORPUS_OK = [
    # layouts of the seeded changes of round 4 and earlier (each was caught by the random stream; kept as fixed cases)
    ("S-line-before-first-header", ["#S s a t\n", "# first header\n", "# second header\n", "3\n", "s a 1\n", "a t 2\n"],
     [_spec("first header", [[["s", "a"], ["a", "t"]]], _SAT)]),
    ("S-line-before-first-header:2nd-block", ["# g0\n", "2\n", "x y 1\n", "  #S s a\n", "#S a t\n", "## the id  \n", "3\n", "s a 1\n", "a t 2\n"],
     [_spec("g0", [], [("x", "y", 1)]), _spec("the id", [[["s", "a"]], [["a", "t"]]], _SAT)]),
    ("blank-lines-before-count:2", ["# g\n", "\n", "\n", "2\n", "a b 1.5\n"], [_spec("g", [], [("a", "b", "1.5")])]),
    ("blank-lines-before-count:3-mixed", ["# g\n", "#S a b\n", "\n", "  \n", "\t\n", " 2\n", "a b 1.5\n"], [_spec("g", [[["a", "b"]]], [("a", "b", "1.5")])]),
    ("blank-lines-before-count:2nd-block", ["# g0\n", "0\n", "\n", "# g1\n", "\n", "\x0c\n", "\n", "7\n", "a b 2\n"],
     [_spec("g0", [], None), _spec("g1", [], [("a", "b", 2)])]),
    ("S-lines-same-concatenation", ["# g\n", "#S 1 12 3\n", "#S 11 2 3\n", "#S 1 12 3\n", "5\n", "1 12 1\n", "12 3 1\n", "11 2 1\n", "2 3 1\n"],
     [_spec("g", [[["1", "12"], ["12", "3"]], [["11", "2"], ["2", "3"]]], [("1", "12", 1), ("12", "3", 1), ("11", "2", 1), ("2", "3", 1)])]),
    ("same-header-and-counts-different-width", ["# sample\n", "4\n"] + ["%s %s %d\n" % e for e in _PATH] + ["# sample\n", "4\n"] + ["%s %s %d\n" % e for e in _STAR],
     [_spec("sample", [], _PATH), _spec("sample", [], _STAR)]),
    ("declared-count-differs-from-node-count", ["# g\n", "99\n", "a b 1\n", "a b 3\n"], [_spec("g", [], [("a", "b", 1), ("a", "b", 3)])]),
]
CORPUS_RAISE = [
    ("edge-line-extra-numeric-field", ["# g\n", "2\n", "a b 4 9\n"]),
    ("edge-line-two-edges-on-one-line", ["# g\n", "3\n", "a b 4 a c 1\n"]),
    ("constraint-with-unknown-tail", ["# g\n", "#S yy z\n", "2\n", "a b 1\n"]),
    ("constraint-with-unknown-head", ["# g\n", "#S a zz\n", "2\n", "a b 1\n"]),
    ("one-blank-then-garbage-count", ["# g\n", "\n", "\n", "two\n", "a b 1\n"]),
    ("no-source", ["# g\n", "2\n", "s o 1\n", "o s 2\n"]),          # accepted before /repo 59945c9 (one-letter names of 'source_<id>')
    ("no-sink", ["# g\n", "3\n", "a b 1\n", "b c 1\n", "c b 1\n"]),
]


# ----------------------------------------------------------------------------- corruptions
BAD_WEIGHT = ["abc", "1.2.3", "1,5", "--1", "x1", "1e", "0x10", "1_", "_1", "1__0", ".", "+", "-", "e5", "1.5f", "NaNx", "1e+", "in_f", "w=3", "1.5.", ".5x"]
BAD_COUNT = ["abc", "3.0", "1e3", "3 4", "n=5", "0x3", "1_", "--1", "+", "five", "3,", "0.0", "a b 1.0", "inf"]


def corruptions(rng, lines, specs):
    """Yield (kind, must_raise, in_zero_block, new_lines).  must_raise: the property's rejection clause applies."""
    out = []
    idx = lambda role: [i for i, l in enumerate(lines) if l[1] == role and l[0] is not None]
    zero = lambda i: specs[lines[i][0]]["info"] is None
    def repl(i, text):
        new = [l[2] for l in lines]
        nl = "\n" if lines[i][2].endswith("\n") else ""
        new[i] = text + nl
        return new
    edges_i = idx("edge")
    # 1 malformed edge line
    for i in rng.sample(edges_i, min(2, len(edges_i))):
        u, v, tok = lines[i][3]
        bad = rng.choice([f"{u} {v}", f"{u}", f"{u} {v} {tok} extra", f"{u}{v} {tok}", f"{u} {v} {tok} 1", f"{u}\t{v}"])
        out.append(("malformed-edge", True, zero(i), repl(i, bad)))
    # 2 non-numeric weight
    for i in rng.sample(edges_i, min(2, len(edges_i))):
        u, v, tok = lines[i][3]
        out.append(("bad-weight", True, zero(i), repl(i, f"{u} {v} {rng.choice(BAD_WEIGHT)}")))
    # 3 non-numeric vertex count / count line lost
    counts = idx("count")
    for i in rng.sample(counts, min(2, len(counts))):
        out.append(("bad-count", True, False, repl(i, rng.choice(BAD_COUNT))))
    if counts and rng.random() < 0.5:
        i = rng.choice(counts)
        nxt = [j for j in range(i + 1, len(lines)) if lines[j][0] == lines[i][0] and lines[j][1] == "edge"]
        # blanking the count line: the first edge line is then read as the count (ValueError); with no edge line the count is missing
        out.append(("count-blanked", True, False, repl(i, "")))
    # 4 constraint edge absent
    hsec = [i for i, l in enumerate(lines) if l[0] is not None and l[1] in ("hdr", "cons", "blank")]
    for i in rng.sample(hsec, min(2, len(hsec))):
        b = lines[i][0]
        if lines[i][1] == "blank" and not any(l[0] == b and l[1] in ("hdr", "cons") for l in lines[i + 1:]) and False:
            continue
        have = set()
        if specs[b]["info"]:
            have = {(u, v) for u, v, _ in specs[b]["info"]["edges"]}
        for _ in range(20):
            x, y = rng.choice(NAMES), rng.choice(NAMES)
            if (x, y) not in have:
                break
        else:
            continue
        first_in_block = (i == min(j for j, l in enumerate(lines) if l[0] == b))
        if lines[i][1] == "blank":
            # a blank line in the header part sits after the last '#' line: turning it into '#S' keeps it in the header loop
            # only if no non-header line precedes it inside the block
            pass
        out.append(("constraint-edge-absent:new#S", True, specs[b]["info"] is None, repl(i, f"#S {x} {y}")))
    for b, sp in enumerate(specs):
        if sp["info"] and sp["cons"] and rng.random() < 0.7:
            u, v = rng.choice(rng.choice(sp["cons"]))
            occ = [i for i in edges_i if lines[i][0] == b and lines[i][3][:2] == (u, v)]
            if len(occ) == 1:
                i = occ[0]
                out.append(("constraint-edge-absent:edge-line-blanked", True, False, repl(i, "")))
                out.append(("constraint-edge-absent:endpoint-renamed", True, False, repl(i, f"{u} {v}_x {lines[i][3][2]}")))
    # 5 truncated line (may stay valid)
    for i in rng.sample(range(len(lines)), min(3, len(lines))):
        t = lines[i][2]
        if len(t) > 1:
            cut = rng.randint(0, len(t) - 1)
            new = [l[2] for l in lines]; new[i] = t[:cut] + rng.choice(["", "\n"])
            if i + 1 < len(lines) and not new[i].endswith("\n"):
                new[i] += "\n"
            must = (lines[i][1] == "edge" and new[i].strip() != "" and not new[i].lstrip().startswith("#") and len(new[i].split()) != 3)
            out.append(("truncated", True if must else None, False if must else None, new))
    # 6 other single-line edits: correspondence only
    for _ in range(3):
        i = rng.randrange(len(lines)); new = [l[2] for l in lines]
        k = rng.choice(["delete", "duplicate", "unhash", "hdr->S", "S->hdr", "count0", "swap", "comment", "weight-exotic", "count-exotic"])
        if k == "delete":
            del new[i]
        elif k == "duplicate":
            new.insert(i, new[i] if new[i].endswith("\n") else new[i] + "\n")
        elif k == "unhash":
            new[i] = new[i].replace("#", "", 1)
        elif k == "hdr->S":
            new[i] = new[i].replace("#", "#S", 1)
        elif k == "S->hdr":
            new[i] = new[i].replace("#S", "# S", 1)
        elif k == "count0" and counts:
            j = rng.choice(counts); new[j] = "0\n"
        elif k == "swap" and i + 1 < len(new):
            new[i], new[i + 1] = new[i + 1], new[i]
            if not new[i].endswith("\n"):
                new[i] += "\n"
        elif k == "comment":
            new.insert(i, rng.choice(["# late comment\n", " #S p q\n", "#\n"]))
        elif k == "weight-exotic" and edges_i:
            j = rng.choice(edges_i); u, v, tok = lines[j][3]
            new[j] = f"{u} {v} {rng.choice(['1e3', 'inf', 'nan', '1_0', '.5', '5.', '-Infinity', '1E-2', '٣'])}\n"
        elif k == "count-exotic" and counts:
            j = rng.choice(counts); new[j] = rng.choice(["1_0\n", "٣\n", "+1_2\n"])
        out.append(("other:" + k, None, None, new))
    return out


# ----------------------------------------------------------------------------- independent "must raise" rule for truncations
SIMPLE_NUM = re.compile(r"[+-]?[0-9]+(\.[0-9]+)?\Z")


# ----------------------------------------------------------------------------- string layer
ALPH_F = list("0123456789") * 3 + list("+-._eE") * 2 + list("infatyINFATY") + list("x ,#")
ALPH_S = [" ", "\t", "\n", "\x0b", "\x0c", "\r", "\x1c", "\x1d", "\x1e", "\x1f", "\x85", "\xa0", "\u1680", "\u2000", "\u200a", "\u200b", "\u2028",
          "\u2029", "\u202f", "\u205f", "\u3000", "\ufeff", "\x00", "\x1b", "\x7f", "\x84", "#", "#", "S", "a", "b", "1", ".", "\xe9", "\U0001f600"]


def py_float(tok):
    if any(ord(c) >= 128 for c in tok):
        return "UNM"
    try:
        x = float(tok)
    except ValueError:
        return "BAD"
    return ("OK", x) if SIMPLE_NUM.match(tok) else "UNM"


def py_int(tok):
    if any(ord(c) >= 128 for c in tok) or len(tok) > 4000:
        return "UNM"
    try:
        x = int(tok)
    except ValueError:
        return "BAD"
    return ("OK", x) if re.match(r"[+-]?[0-9]+\Z", tok) else "UNM"


def string_layer(ctx):
    n = ctx.budget(4000, 60000)
    reqs = ["wslist"]; meta = [("ws", None)]
    for i in range(n):
        rng = ctx.rng("strings", i)
        r = rng.random()
        if r < 0.35:
            tok = "".join(rng.choice(ALPH_F) for _ in range(rng.randint(1, 7))).strip()
            if not tok or any(c.isspace() for c in tok):
                tok = tok.replace(" ", "") or "1"
            reqs.append("pfloat " + common.toks(enc_str(tok))); meta.append(("pfloat", tok))
        elif r < 0.55:
            tok = "".join(rng.choice(list("0123456789") * 3 + list("+-_. x")) for _ in range(rng.randint(0, 6)))
            reqs.append("pint " + common.toks(enc_str(tok.strip()))); meta.append(("pint", tok.strip()))
        else:
            s = "".join(rng.choice(ALPH_S) for _ in range(rng.randint(0, 9)))
            reqs.append("strops " + common.toks(enc_str(s))); meta.append(("strops", s))
    outs = ctx.model.run(reqs)
    for req, out, (kind, x) in zip(reqs, outs, meta):
        ctx.count("S_string_layer", "cases")
        if kind == "ws":
            got = [int(t) for t in out.split()]
            want = [c for c in range(0x110000) if chr(c).isspace()]
            ok = got == want
        elif kind == "pfloat":
            p = py_float(x); t = out.split()
            if p in ("UNM", "BAD"):
                ok = out == p
            else:
                ok = t[0] == "OK" and float(Fraction(-int(t[2]) if t[1] == "1" else int(t[2]), 10 ** int(t[3]))) == p[1]
            ctx.dist("pfloat:" + (p if isinstance(p, str) else "OK"))
        elif kind == "pint":
            p = py_int(x); t = out.split()
            ok = (out == p) if p in ("UNM", "BAD") else (t[0] == "OK" and int(t[1]) == p[1])
            ctx.dist("pint:" + (p if isinstance(p, str) else "OK"))
        else:
            tk = Tok(out)
            got = (tk.str(), tk.str(), [tk.str() for _ in range(tk.int())], tk.int(), tk.int())
            want = (x.lstrip(), x.strip(), x.split(), int(x.lstrip().startswith("#")), int(x.strip() == ""))
            ok = got == want
        if ok:
            ctx.count("S_string_layer", "agreements")
        else:
            ctx.count("S_string_layer", "disagreements")
            ctx.report(f"string layer of the model differs from Python ({kind} on {x!r}): model {out!r}",
                       {"kind": "string", "op": kind, "input": x, "model": out}, concrete=False)


# ----------------------------------------------------------------------------- main
class Files:
    def __init__(self):
        base = os.path.join(common.ROOT, "work")
        os.makedirs(base, exist_ok=True)
        self.dir = tempfile.mkdtemp(prefix="c20_", dir=base)
        self.path = os.path.join(self.dir, "graphs.txt")
    def write(self, lines):
        with open(self.path, "w", encoding="utf-8", newline="") as f:
            f.write("".join(lines))
        return self.path
    def close(self):
        shutil.rmtree(self.dir, ignore_errors=True)


def check_spec(specs, res, mode=None):
    """The well-formed half of the property on the implementation's result; None if it holds."""
    if res[0] != "OK":
        return "well-formed input rejected with %s (%s)" % res
    if len(res[1]) != len(specs):
        return "%d graphs returned for %d blocks" % (len(res[1]), len(specs))
    for k, (s, g) in enumerate(zip(specs, res[1])):
        d = same_graph(s, g, mode)
        if d:
            return "block %d: %s" % (k, d)
    return None


def compare_model(mres, ires):
    """E3; None if equal, 'skip' if the model does not predict."""
    if mres[0] in ("UNMODELLED",):
        return "skip"
    if mres[0] == "OUTOFFUEL":
        return "model ran out of fuel"
    if mres[0] == "ValueError":
        if ires[0] == "OK":
            return "model predicts ValueError(%s), implementation returned graphs" % mres[1]
        if ires[0] != "ValueError":
            return "model predicts ValueError(%s), implementation raised %s" % (mres[1], ires[0])
        return None
    if ires[0] != "OK":
        return "model returns graphs, implementation raised %s (%s)" % ires
    if len(mres[1]) != len(ires[1]):
        return "model %d graphs, implementation %d" % (len(mres[1]), len(ires[1]))
    for k, (a, b) in enumerate(zip(mres[1], ires[1])):
        d = same_graph(a, b)
        if d:
            return "block %d: %s" % (k, d)
    return None


def run(ctx):
    ctx.rule = ("case = one file (1-4 blocks, <= 6 named nodes per block incl. Unicode/one-letter/numeric names; random header / '#S' "
                "layouts, Python-isspace separators, repeated edges, duplicate '#S' lines, zero-vertex blocks, preamble, last line "
                "without newline) read through read_graphs, or one block with comment lines between edges read through read_graph, "
                "or a single-line corruption of such a file (malformed edge line, non-numeric weight, non-numeric/blanked count, "
                "constraint edge absent, truncation, delete/duplicate/swap/un-hash/#S<->header/exotic numbers); non-trivial = "
                "file has >= 2 blocks or a constraint or a repeated edge or is corrupted; distinct by the exact list of lines")
    gu = _gu()
    files = Files()
    try:
        string_layer(ctx)
        n_files = ctx.budget(650, 9000); n_single = ctx.budget(450, 6000)
        cases = []      # (stream, i, kind, fn_name, lines, specs or None, must_raise, in_zero)
        for name, lines, specs in CORPUS_OK:
            cases.append(("corpus", 0, "well-formed", "read_graphs", lines, specs, None, None))
            if len(specs) == 1:
                cases.append(("corpus", 0, "well-formed", "read_graph", lines, specs, None, None))
        for name, lines in CORPUS_RAISE:
            cases.append(("corpus", 0, "corpus:" + name, "read_graphs", lines, None, True, False))
            cases.append(("corpus", 0, "corpus:" + name, "read_graph", lines, None, True, False))
        for i in range(n_files):
            rng = ctx.rng("files", i)
            lines, specs = gen_file(rng)
            cases.append(("files", i, "well-formed", "read_graphs", [l[2] for l in lines], specs, None, None))
            for kind, must, inzero, new in corruptions(rng, lines, specs):
                cases.append(("files", i, kind, "read_graphs", new, None, must, inzero))
        for i in range(n_single):
            rng = ctx.rng("single", i)
            bl, spec = gen_block(rng, True, zero=rng.random() < 0.15)
            lines = [(0,) + l for l in bl]
            cases.append(("single", i, "well-formed", "read_graph", [l[2] for l in lines], [spec], None, None))
            cs = corruptions(rng, lines, [spec])
            for kind, must, inzero, new in rng.sample(cs, min(6, len(cs))):
                cases.append(("single", i, kind, "read_graph", new, None, must, inzero))
        # zero-vertex blocks with a constraint / edge lines (accepted before fc0735f): regression cases, always run
        for w in (["#S a b\n", "0\n"], ["# g\n", "0\n", "a b\n"], ["# g\n", "0\n", "a b notanumber\n"], ["# g\n", "0\n", "\n", "a b 1.0\n"],
                  ["# g\n", "#S a\n", "#S a b\n", " 00 \n"], ["# g\n", "2\n", "a b 1\n", "# h\n", "-0\n", "a b\n", "# k\n", "1\n", "x y 2\n"]):
            cases.append(("regress", 0, "zero-block-corrupt", "read_graphs", w, None, True, True))
            cases.append(("regress", 0, "zero-block-corrupt", "read_graph", [l for l in w if l not in ("# h\n", "# k\n")][:4], None, True, True))
        reqs = [("readgraphs " if c[3] == "read_graphs" else "readgraph ") + common.toks(enc_lines(c[4])) for c in cases]
        outs = ctx.model.run(reqs)
        for (stream, i, kind, fn, lines, specs, must, inzero), out in zip(cases, outs):
            multi = fn == "read_graphs"
            if multi:
                ires = run_impl(gu.read_graphs, files.write(lines))
            else:
                ires = run_impl(gu.read_graph, list(lines))
            mres = dec_model(out, multi)
            nontriv = kind != "well-formed" or len(specs) > 1 or any(s["cons"] or s.get("rep") for s in specs)
            ctx.case(lines, nontrivial=nontriv,
                     sample={"fn": fn, "kind": kind, "lines": lines, "impl": ires if ires[0] != "OK" else "OK: %d graph(s)" % len(ires[1]), "model": out[:200]})
            ctx.dist(f"{fn}:{kind.split(':')[0]}")
            ctx.dist("impl:" + (ires[0] if ires[0] != "OK" else "OK"))
            replay = {"kind": "file", "fn": fn, "corruption": kind, "lines": lines, "impl": repr(ires)[:1500], "model": out[:1500],
                      "stream": stream, "case": i}
            failed = False
            # ---- (P) the property on the implementation's output
            if specs is not None:
                ctx.count("P_property_on_impl_output", "well-formed cases")
                d = check_spec(specs, ires)
                if d:
                    failed = True
                    ctx.report(f"{fn} on a well-formed file: {d}", dict(replay, specs=repr(specs)[:1500]), concrete=True)
            elif must:
                ctx.count("P_property_on_impl_output", "must-raise cases")
                if ires[0] != "ValueError":
                    failed = True
                    what = (f"{fn} accepted a corrupt file ({kind})" if ires[0] == "OK" else f"{fn} raised {ires[0]} instead of ValueError ({kind})")
                    ctx.report(what, replay, concrete=True)
            # ---- (E3) model vs implementation
            d = compare_model(mres, ires)
            if d == "skip":
                ctx.count("E3_parser", "unmodelled (skipped)")
            elif d is None:
                ctx.count("E3_parser", "agreements")
                if mres[0] == "ValueError":
                    ctx.count("E3_parser", "error kind agrees" if mres[1] == ires[1] else "error kind differs (message wording)")
            else:
                ctx.count("E3_parser", "disagreements")
                if not failed:
                    ctx.report(f"E3 correspondence broken ({fn}, {kind}): {d}", replay, concrete=False)
            # the model itself must satisfy what the theorems say on these instances (guards the harness' reading of the theorems)
            if specs is not None and mres[0] == "OK":
                nowidth = specs      # the model stores the width too: compared with the brute-force value of the description
                asimpl = [dict(g, info=None if g["info"] is None else dict(g["info"], edges=[[u, v, float(x)] for u, v, x in g["info"]["edges"]]))
                          for g in mres[1]]
                if any(g["info"] and any(Fraction(x) != y for (_, _, x), (_, _, y) in zip(s["info"]["edges"], g["info"]["edges"]))
                       for s, g in zip(specs, mres[1]) if s["info"]) or check_spec(nowidth, ("OK", asimpl), "model-vs-spec"):
                    ctx.report("model result differs from the description's denotation on a well-formed file (theorem/model mismatch)", replay, concrete=False)
            elif specs is not None and mres[0] != "UNMODELLED":
                ctx.report("model rejects a well-formed file (theorem/model mismatch): " + out[:100], replay, concrete=False)
    finally:
        files.close()


def replay(ctx, body):
    gu = _gu()
    if body.get("kind") == "string":
        print("string-layer disagreement; input:", repr(body["input"]), "model:", body["model"])
        return True
    files = Files()
    try:
        lines = body["lines"]
        ires = run_impl(gu.read_graphs, files.write(lines)) if body["fn"] == "read_graphs" else run_impl(gu.read_graph, list(lines))
    finally:
        files.close()
    print("implementation now:", repr(ires)[:1000])
    out = ctx.model.run([("readgraphs " if body["fn"] == "read_graphs" else "readgraph ") + common.toks(enc_lines(lines))])[0]
    mres = dec_model(out, body["fn"] == "read_graphs")
    print("model:", out[:300])
    if "specs" in body:
        return ires[0] != "OK" or compare_model(mres, ires) not in (None, "skip")
    return compare_model(mres, ires) not in (None, "skip") or (mres[0] == "ValueError" and ires[0] != "ValueError")
