"""C13 — E4 fault injection.  SolverWrapper.optimize / get_model_status are wrapped from outside; for
every class and generated input the natural sequence of solver invocations is recorded, then every
position p of it is re-run with each inconclusive status (kTimeLimit, kInterrupt, kUnknown,
kSolutionLimit, custom time-out flag) injected at p.  Each run is compared with the extracted Coq
machine (Search.v) fed the very outcome sequence the run produced, and the property itself is
evaluated on the implementation's observable behaviour."""
import copy, sys, types
from fractions import Fraction
import networkx as nx
import common, gen

LEVEL = "proof"
EXPLANATION = (
    "Theorems of Props/C13.v are about Search.v: the status function (did_timeout => kTimeLimit), the solved-flag machine of the "
    "k-models (solved_only_optimal, data_only_when_solved, data_only_after_optimal, getters_raise_before_solved) and one faithful "
    "loop model per search class (search_sound / search_inconclusive for MinPathCover, MinPathCoverCycles and the main loops of "
    "MinFlowDecomp, MinFlowDecompCycles, MinGenSet; npo_sound). The MinGenSet loop of the pinned tree skipped every non-optimal status "
    "(mgs_refuted, mfd_refuted_skipped_lowerbound: kept as documentation of the switch-on model; repaired in /repo 03febc7). "
    "(The exit(0) of MinFlowDecomp on an unsolved MinGenSet model, mfd_refuted_exit, was repaired "
    "in /repo 78680dc; the exclusive upper end of the k-ranges in 67a34b1: all three switches are off in the faithful model.) Inconclusive statuses in the guessed-weights model are not required to stop the search: "
    "the theorem proved instead is that a Solved k stays certified (mfd_search_sound). Tie: E4, exhaustive over positions x injected "
    "statuses per input; the property is also evaluated directly on every run of the implementation. Repeated calls: after every "
    "run that an injected inconclusive status ended unsolved, solve() is called again on the SAME object without injection and must give "
    "the natural answer; the model of that call is fd_resolve (state = cached lower bound + kept guessed-weights model; theorems "
    "failed_run_leaves_no_trace, resolve_is_fresh_run); MinPathCover[Cycles] and MinGenSet loops are stateless functions of the status "
    "sequence (their cached lower bound needs no solver) and the second call is compared with the same machine.")
ASSUMPTIONS = [
    "only the logic that consumes the solver status is covered: real SIGALRM delivery, HiGHS' own time-limit handling and the Gurobi branch are not modelled or exercised",
    "statuses are injected after the real solve has run (the solver holds a genuine solution when the inconclusive status is reported)",
    "the custom-timeout route (_run_with_timeout) is taken with a far-away alarm (1e6 s): the SIGALRM handler itself never runs, its effect (did_timeout = True) is injected",
    "elapsed-time exits (MinFlowDecompCycles, NumPathsOptimization) are triggered by replacing the solve_time_elapsed property from outside",
    "parameters of the loop models that are not solver statuses (lower bound without MinGenSet, |E|, greedy applicability per k, number of paths of the guessed-weights solution, objective values) are read from the implementation",
    "the subgraph-scanning lower bound of MinFlowDecomp is exercised on chains of diamonds with 22-43 nodes (one or two windows) whose minimum is known in closed form; parameters of the nested window searches are read from the nested objects the run created",
]
TRUSTED = ["model: coq/theories/Search.v; proofs SearchProofs1.v, SearchProofs2.v"]

SO = {"threads": 1}
# the two routes of SolverWrapper.optimize(): direct, and through _run_with_timeout (finite time_limit AND
# use_also_custom_timeout: SIGALRM armed, far away so that it never fires by accident); SO is switched in place
SO_ROUTES = {False: {"threads": 1}, True: {"threads": 1, "time_limit": 1000000, "use_also_custom_timeout": True}}


def set_route(alarm):
    SO.clear(); SO.update(SO_ROUTES[bool(alarm)])


def alarm_route():
    return bool(SO.get("use_also_custom_timeout"))
INCONCLUSIVE = ["kTimeLimit", "kInterrupt", "kUnknown", "kSolutionLimit", "custom"]
TOK = {"kOptimal": 0, "kInfeasible": 1, "kTimeLimit": 2}
K_MGS = "mgs_skips_inconclusive"
K_EXIT = "mfd_exit_on_mgs_unsolved"
# switches of the faithful model: on while the finding is "open" in known_findings.json, off once it is "fixed"
SWITCH = {K_MGS: 1, K_EXIT: 1}
# DESIGN §6 #1 (exclusive upper end of range(lb, |E|)) was repaired in /repo commit 67a34b1: the switch of the model is off
UPPER_EXCL = 0


# ------------------------------------------------------------------------------------------ tap
class Tap:
    """Wraps SolverWrapper.optimize / get_model_status and the solve_time_elapsed properties."""

    def __init__(self):
        import flowpaths as fp
        from flowpaths.utils.solverwrapper import SolverWrapper as SW
        self.SW = SW; self.fp = fp
        self.log = []; self.inject = {}; self.over_after = None; self.clock_over = False
        self.mismatch = []           # get_model_status disagreed with status_of(native, flag)
        self._orig_opt = SW.optimize; self._orig_st = SW.get_model_status
        tap = self

        def optimize(sw):
            idx = len(tap.log)
            sw.solver.__dict__.pop("getModelStatus", None)
            tap._orig_opt(sw)
            inj = tap.inject.get(idx)
            if inj == "custom":
                sw.did_timeout = True                      # what _timeout_handler does
            elif inj is not None:
                sw.solver.getModelStatus = (lambda name: (lambda: types.SimpleNamespace(name=name)))(inj)
            sw._c13_idx = idx; sw._c13_run = tap.run_id
            tap.log.append({"native": sw.solver.getModelStatus().name, "custom": bool(sw.did_timeout),
                            "tag": tap._owner_tag(), "reported": None, "run": tap.run_id})
            if tap.over_after is not None and len(tap.log) >= tap.over_after:
                tap.clock_over = True

        def get_model_status(sw, raw=False):
            r = tap._orig_st(sw, raw)
            idx = getattr(sw, "_c13_idx", None)
            if idx is not None and idx < len(tap.log) and getattr(sw, "_c13_run", None) == tap.run_id:
                e = tap.log[idx]
                want = "kTimeLimit" if e["custom"] else e["native"]
                if e["reported"] is None:
                    e["reported"] = r
                if r != want:
                    tap.mismatch.append((idx, r, want))
            return r

        SW.optimize = optimize; SW.get_model_status = get_model_status
        self.run_id = 0
        self.mfd_instances = []; self.record_mfd = False
        self._orig_mfd_init = fp.MinFlowDecomp.__init__

        def mfd_init(obj, *a, **kw):
            if tap.record_mfd:
                tap.mfd_instances.append(obj)
            return tap._orig_mfd_init(obj, *a, **kw)
        fp.MinFlowDecomp.__init__ = mfd_init
        self._props = {}
        for cls in (fp.MinFlowDecompCycles, fp.NumPathsOptimization):
            self._props[cls] = cls.__dict__["solve_time_elapsed"]
            orig = self._props[cls]
            cls.solve_time_elapsed = property((lambda o: (lambda s: 1e18 if tap.clock_over else o.fget(s)))(orig))

    def _owner_tag(self):
        f = sys._getframe(2); tag = None; mfds = []
        while f is not None:
            s = f.f_locals.get("self")
            if s is not None and not isinstance(s, self.SW):
                if tag is None:
                    if isinstance(s, self.fp.MinGenSet):
                        tag = "mgs"
                    elif getattr(s, "solution_weights_superset", None) is not None:
                        tag = "gw"
                    else:
                        oo = getattr(s, "optimization_options", None)
                        tag = "gw" if isinstance(oo, dict) and oo.get("given_weights") is not None else "main"
                if isinstance(s, self.fp.MinFlowDecomp) and not any(s is x for x in mfds):
                    mfds.append(s)
            f = f.f_back
        if len(mfds) >= 2:
            return "win"          # made by a nested MinFlowDecomp of the subgraph-scanning lower bound
        return tag or "main"

    def reset(self, inject=None, over_after=None):
        self.run_id += 1
        self.mfd_instances = []
        self.log = []; self.inject = dict(inject or {}); self.over_after = over_after; self.clock_over = False
        self.mismatch = []

    def close(self):
        self.SW.optimize = self._orig_opt; self.SW.get_model_status = self._orig_st
        self.fp.MinFlowDecomp.__init__ = self._orig_mfd_init
        for cls, p in self._props.items():
            cls.solve_time_elapsed = p


def reported(e):
    return "kTimeLimit" if e["custom"] else e["native"]


def raw_toks(log):
    return [len(log)] + [[TOK.get(e["native"], 3), 1 if e["custom"] else 0] for e in log]


def conclusive(name):
    return name in ("kOptimal", "kInfeasible")


# ------------------------------------------------------------------------------------------ inputs
def flow_dag(rng, nmax=6):
    G = gen.rand_dag(rng, nmax)
    ps = gen.all_st_paths(G)
    flow = {e: 0 for e in G.edges()}
    for _ in range(rng.randint(1, 4)):
        p = rng.choice(ps); w = rng.choice([1, 2, 3, 4, 5, 6, 7, 9])
        for e in gen.pairs(p):
            flow[e] += w
    return [[u, v, flow[(u, v)]] for (u, v) in G.edges() if flow[(u, v)] > 0]


def flow_cyclic(rng):
    while True:
        G = gen.rand_cyclic(rng, nmax=rng.choice([2, 3, 4]))
        if G.number_of_nodes() > 6 or G.number_of_edges() > 9:
            continue
        flow = {e: 0 for e in G.edges()}
        ok = True
        for _ in range(rng.randint(1, 3)):
            w = gen.rand_walk(rng, G, maxlen=10)
            if w is None:
                ok = False; break
            x = rng.choice([1, 2, 3, 4])
            for e in gen.pairs(w):
                flow[e] += x
        if not ok:
            continue
        es = [[u, v, flow[(u, v)]] for (u, v) in G.edges() if flow[(u, v)] > 0]
        if es:
            return es


def diamond_chain(rng, two_windows=False):
    """Chain of single edges and diamonds carrying flow 4 (splits 1|3 and 2|2), at least 22 nodes so that the
    subgraph-scanning lower bound of MinFlowDecomp has a window.  Minimum number of paths in closed form:
    1 without diamonds, 2 with one kind of split, 3 with both kinds (1|3 and 2|2 need weights {1,1,2})."""
    target = rng.randint(41, 43) if two_windows else rng.randint(22, 27)
    nd = rng.choice([1, 2, 2, 3]); kinds = [rng.choice(["13", "22"]) for _ in range(nd)]
    if rng.random() < 0.5 and nd >= 2:
        kinds[0], kinds[1] = "13", "22"
    n_edges_blocks = max(0, target - 1 - 3 * nd)
    blocks = kinds + ["e"] * n_edges_blocks
    head = blocks[:]; rng.shuffle(head)
    if rng.random() < 0.6:          # diamonds early, so that they fall into the first window
        head = kinds + ["e"] * n_edges_blocks
        front = head[:8]; rng.shuffle(front); head = front + head[8:]
    edges = []; cur = "a000"; c = 0
    for b in head:
        c += 1
        if b == "e":
            nxt = "a%03d" % c; edges.append([cur, nxt, 4]); cur = nxt
        else:
            x, y, nxt = "x%03d" % c, "y%03d" % c, "a%03d" % c
            f1, f2 = (1, 3) if b == "13" else (2, 2)
            if rng.random() < 0.5:
                f1, f2 = f2, f1
            edges += [[cur, x, f1], [x, nxt, f1], [cur, y, f2], [y, nxt, f2]]; cur = nxt
    return edges, len(set(kinds)) + 1


# instances on which the decomposition found with the guessed weights (edge flow values) is LARGER than the minimum
GW_DAG_ROUTES = [["s", "a", "d", "f", "t"], ["s", "a", "c", "e", "t"], ["s", "b", "d", "e", "t"], ["s", "b", "d", "f", "t"]]
GW_CYC_ROUTES = [["s", "a", "c", "e", "t"], ["s", "b", "c", "f", "a", "c", "f", "t"], ["s", "a", "d", "f", "a", "c", "f", "t"]]


def superpose(rng, routes, weights):
    names = sorted({v for r in routes for v in r}); new = ["q%d" % i for i in range(len(names))]; rng.shuffle(new)
    ren = dict(zip(names, new)); fl = {}
    for r, w in zip(routes, weights):
        for e in zip(r, r[1:]):
            fl[e] = fl.get(e, 0) + w
    es = [[ren[u], ren[v], f] for (u, v), f in fl.items()]; rng.shuffle(es)
    return es


def gw_gap_instance(fp, tap, rng, cyc):
    """Flow whose true decomposition needs a weight that is no edge value but a sum of edge values: the guessed-weights
    model is feasible only with more routes than the minimum.  Checked on the implementation (natural run)."""
    tap.reset()
    for _ in range(12):
        if cyc:
            b = rng.choice([5, 6, 7]); edges = superpose(rng, GW_CYC_ROUTES, [3 * b + 2, b, 1])
            m = fp.MinFlowDecompCycles(graph_of(edges), flow_attr="flow", weight_type=int,
                                       optimization_options={"optimize_with_guessed_weights": True}, solver_options=dict(SO))
        else:
            a, b, c = rng.sample(range(1, 12), 3); edges = superpose(rng, GW_DAG_ROUTES, [a, b, c, a + 2 * b + c])
            m = fp.MinFlowDecomp(graph_of(edges), flow_attr="flow", weight_type=int,
                                 optimization_options={"optimize_with_guessed_weights": True}, solver_options=dict(SO))
        if not m.solve():
            continue
        gwm = getattr(m, "_given_weights_model", None)
        if gwm is None or not gwm.is_solved():
            continue
        g = len(gwm.get_solution(remove_empty_walks=True)["walks"]) if cyc else len(gwm.get_solution(remove_empty_paths=True)["paths"])
        if g > m.get_objective_value():
            return edges
    return None


def graph_of(edges, perturb=None):
    G = nx.DiGraph()
    for i, (u, v, f) in enumerate(edges):
        G.add_edge(u, v, flow=f + (perturb[i] if perturb else 0))
    return G


def mgs_input(rng):
    g = [rng.randint(1, 6) for _ in range(rng.randint(1, 3))]
    sums = set()
    for mask in range(1, 2 ** len(g)):
        sums.add(sum(x for i, x in enumerate(g) if mask >> i & 1))
    sums = sorted(sums)
    nums = rng.sample(sums, rng.randint(1, min(5, len(sums))))
    inp = {"numbers": nums, "total": sum(g), "lowerbound": rng.choice([1, 1, 1, 2]),
           "remove_complement_values": rng.random() < 0.7, "max_multiplicity": rng.choice([1, 1, 2]),
           "partition_constraints": None}
    if inp["max_multiplicity"] == 1 and len(g) >= 2 and rng.random() < 0.5:
        cut = rng.randint(1, len(g) - 1)            # a number partition of the total (extends the k-range since 883b781)
        inp["partition_constraints"] = [[sum(g[:cut]), sum(g[cut:])]]
        if len(g) == 3 and rng.random() < 0.5:
            inp["partition_constraints"].append([g[0], g[1], g[2]])
    return inp


# ------------------------------------------------------------------------------------------ observation
def getters(m, count_solution):
    """is_solved / get_solution / get_objective_value mapped to a small enum."""
    out = {}
    try:
        out["is_solved"] = "T" if m.is_solved() else "F"
    except Exception as e:
        out["is_solved"] = "R:" + type(e).__name__
    try:
        s = m.get_solution()
        out["get_solution"] = "N" if s is None else "D"
        out["k_solution"] = count_solution(s) if s is not None else None
    except Exception as e:
        out["get_solution"] = "R"
    if hasattr(m, "get_objective_value"):
        try:
            v = m.get_objective_value()
            out["get_objective_value"] = "D"; out["objective"] = v
        except Exception:
            out["get_objective_value"] = "R"
    return out


class Spec:
    """One (class, input, options) combination: how to build it, how to ask the model."""
    def __init__(self, cls, inp, opts, build, request, count, chosen, p2=True, state=None, request2=None):
        self.cls = cls; self.inp = inp; self.opts = opts; self.build = build; self.request = request
        self.count = count; self.chosen = chosen; self.p2 = p2
        self.known_min = None          # closed-form minimum of the instance, where the generator knows it
        self.exhaust = True
        self.state = state or (lambda m: None)                      # what a later solve() on the same object starts from
        self.request2 = request2 or (lambda obs, st: request(obs))  # model request for that later call


def observe(tap, spec, inject, over_after=None, again=None):
    """again = an earlier observation: solve() is called once more on the SAME object."""
    tap.reset(inject, over_after)
    if again is None:
        m = spec.build(); state = None
        pre = getters(m, spec.count)
    else:
        m = again["m"]; state = spec.state(m); pre = None
    tap.mfd_instances = []; tap.record_mfd = True
    try:
        r = m.solve(); outcome = "S" if r else "N"
        if r not in (True, False):
            outcome = "?" + repr(r)
    except SystemExit:
        outcome = "X"
    except ZeroDivisionError:
        outcome = "C"
    except Exception as e:                       # nothing else may escape solve()
        outcome = "E:" + type(e).__name__
    tap.record_mfd = False
    log = tap.log; mism = list(tap.mismatch); nested = list(tap.mfd_instances)
    tap.inject = {}; tap.over_after = None         # no injection while reading results
    post = getters(m, spec.count)
    obs = {"outcome": outcome, "pre": pre, "post": post, "used": len(log), "log": log, "mismatch": mism,
           "aux": sum(1 for e in log if e["tag"] in ("mgs", "gw", "win")), "k": None, "m": m, "chosen_status": None,
           "nested": nested,
           "inject": dict(inject), "over_after": over_after}
    if outcome == "S":
        obs["k"] = post.get("k_solution")
        try:
            ch = spec.chosen(m)
            idx = getattr(getattr(ch, "solver", None), "_c13_idx", None)
            run = [e for e in log]
            if idx is not None and idx < len(run):
                obs["chosen_status"] = reported(run[idx])
            obs["chosen_solved"] = bool(ch.is_solved()) if ch is not m else True
        except Exception as e:
            obs["chosen_solved"] = "R:" + repr(e)
    try:
        obs["lbk"] = m.get_lowerbound_k() if hasattr(m, "get_lowerbound_k") and spec.cls != "NumPathsOptimization" else None
    except BaseException:
        obs["lbk"] = None
    if len(tap.log) != len(log):              # reading the cached lower bound must not call the solver
        obs["lbk"] = "solver-called"
    obs["req"] = spec.request(obs) if again is None else spec.request2(obs, state)   # run-dependent parameters are read now
    return obs


def parse_res(line):
    p = line.split()
    if not p or p[0] != "RES":
        return {"outcome": "ERR:" + line}
    if p[1] == "S":
        return {"outcome": "S", "k": int(p[2]), "used": int(p[3]), "aux": int(p[4]), "lbk": int(p[5])}
    return {"outcome": p[1], "k": None, "used": int(p[2]), "aux": int(p[3]), "lbk": int(p[4])}


# ------------------------------------------------------------------------------------------ specs
def spec_mfd(fp, edges, opts):
    def build():
        return fp.MinFlowDecomp(graph_of(edges), flow_attr="flow", weight_type=int,
                                optimization_options=copy.deepcopy(opts), solver_options=dict(SO))
    G = graph_of(edges)
    o0 = {k: v for k, v in opts.items() if k not in ("use_min_gen_set_lowerbound", "use_subgraph_scanning_lowerbound")}
    lb0 = fp.MinFlowDecomp(graph_of(edges), flow_attr="flow", weight_type=int, optimization_options=o0,
                           solver_options=dict(SO)).get_lowerbound_k()
    ne = G.number_of_edges(); nw = len({f for _, _, f in edges})
    scanning = bool(opts.get("use_subgraph_scanning_lowerbound"))
    greedy_cache = {}

    def greedy_list(H, oo):
        if not oo.get("optimize_with_greedy", True):
            return [False] * (H.number_of_edges() + 2)
        key = tuple((u, v, d.get("flow")) for u, v, d in H.edges(data=True))
        if key not in greedy_cache:
            out = []
            for k in range(H.number_of_edges() + 2):
                try:
                    out.append(bool(fp.kFlowDecomp(H, flow_attr="flow", k=k, weight_type=int,
                                                   optimization_options=copy.deepcopy(oo), solver_options=dict(SO)).is_solved()))
                except ValueError:
                    out.append(False)
            greedy_cache[key] = out
        return greedy_cache[key]

    def window_params(W):
        """parameters of one nested MinFlowDecomp of the scanning lower bound, read from the object the run created"""
        oo = dict(W.optimization_options)
        oo0 = {k: v for k, v in oo.items() if k not in ("use_min_gen_set_lowerbound", "use_subgraph_scanning_lowerbound")}
        l0 = fp.MinFlowDecomp(W.G, flow_attr="flow", weight_type=int, optimization_options=oo0, solver_options=dict(SO)).get_lowerbound_k()
        gwm = getattr(W, "_given_weights_model", None); gw = 0
        if gwm is not None and gwm.is_solved():
            gw = len(gwm.get_solution(remove_empty_paths=True)["paths"])
        flows = {d["flow"] for _, _, d in W.G.edges(data=True) if "flow" in d}
        g = greedy_list(W.G, oo)
        return [l0, W.G.number_of_edges(), bool(oo.get("use_min_gen_set_lowerbound")), len(flows),
                bool(oo.get("optimize_with_guessed_weights")), gw, len(g), g]
    cuts = 0
    if opts.get("use_min_gen_set_lowerbound_partition_constraints"):
        probe = fp.MinFlowDecomp(graph_of(edges), flow_attr="flow", weight_type=int, optimization_options=dict(o0), solver_options=dict(SO))
        pcs = probe._get_partition_constraints_for_min_gen_set(
            min_constraint_len=fp.MinFlowDecomp.use_min_gen_set_lowerbound_partition_constraints_min_constraint_len,
            limit_num_constraints=fp.MinFlowDecomp.use_min_gen_set_lowerbound_partition_constraints_limit_num_constraints)
        cuts = sum(len(c) - 1 for c in pcs)
    gr = greedy_list(G, opts)

    def request(obs):
        m = obs["m"]; gwm = getattr(m, "_given_weights_model", None); gw = 0
        if gwm is not None and gwm.is_solved():
            gw = len(gwm.get_solution(remove_empty_paths=True)["paths"])
        head = common.toks(SWITCH[K_MGS], SWITCH[K_EXIT], UPPER_EXCL, lb0, ne, bool(opts.get("use_min_gen_set_lowerbound")), nw, cuts,
                           bool(opts.get("optimize_with_guessed_weights")), gw, len(gr), gr)
        if scanning:
            ws = [window_params(W) for W in obs["nested"] if W is not m]
            return "mfdscan " + head + " " + common.toks(len(ws), ws, raw_toks(obs["log"]))
        return "mfd " + head + " " + common.toks(raw_toks(obs["log"]))
    def state(m):
        gwm = getattr(m, "_given_weights_model", None)
        g0 = len(gwm.get_solution(remove_empty_paths=True)["paths"]) if gwm is not None and gwm.is_solved() else None
        return (m.get_lowerbound_k(), g0)

    def request2(obs, st):
        lb, g0 = st; m = obs["m"]; gwm = getattr(m, "_given_weights_model", None); gw = 0
        if gwm is not None and gwm.is_solved():
            gw = len(gwm.get_solution(remove_empty_paths=True)["paths"])
        return "fd2 " + common.toks(UPPER_EXCL, lb, ne, bool(opts.get("optimize_with_guessed_weights")), gw,
                                    g0 is not None, g0 or 0, len(gr), gr, 0, raw_toks(obs["log"]))
    return Spec("MinFlowDecomp", {"edges": edges}, opts, build, request,
                lambda s: len(s["paths"]), lambda m: m.fd_model, state=state, request2=request2)


def spec_mfdc(fp, edges, opts, timed):
    so = dict(SO)
    if timed:
        so["time_limit"] = 1e9

    def build():
        return fp.MinFlowDecompCycles(graph_of(edges), flow_attr="flow", weight_type=int,
                                      optimization_options=copy.deepcopy(opts), solver_options=dict(so))
    o0 = {k: v for k, v in opts.items() if k != "use_min_gen_set_lowerbound"}
    lb0 = fp.MinFlowDecompCycles(graph_of(edges), flow_attr="flow", weight_type=int, optimization_options=o0,
                                 solver_options=dict(so)).get_lowerbound_k()
    ne = graph_of(edges).number_of_edges(); nw = len({f for _, _, f in edges})

    def request(obs):
        m = obs["m"]; gwm = getattr(m, "_given_weights_model", None); gw = 0
        if gwm is not None and gwm.is_solved():
            gw = len(gwm.get_solution(remove_empty_walks=True)["walks"])
        oa = obs.get("over_after")
        ov = [oa is not None and n >= oa for n in range(obs["used"] + 2)]
        return "mfdc " + common.toks(SWITCH[K_MGS], UPPER_EXCL, lb0, ne, bool(opts.get("use_min_gen_set_lowerbound")), nw,
                                     bool(opts.get("optimize_with_guessed_weights")), gw, len(ov), ov, raw_toks(obs["log"]))
    def state(m):
        gwm = getattr(m, "_given_weights_model", None)
        g0 = len(gwm.get_solution(remove_empty_walks=True)["walks"]) if gwm is not None and gwm.is_solved() else None
        return (m.get_lowerbound_k(), g0)

    def request2(obs, st):
        lb, g0 = st; m = obs["m"]; gwm = getattr(m, "_given_weights_model", None); gw = 0
        if gwm is not None and gwm.is_solved():
            gw = len(gwm.get_solution(remove_empty_walks=True)["walks"])
        return "fd2 " + common.toks(UPPER_EXCL, lb, ne, bool(opts.get("optimize_with_guessed_weights")), gw,
                                    g0 is not None, g0 or 0, 0, 0, raw_toks(obs["log"]))
    return Spec("MinFlowDecompCycles", {"edges": edges, "timed": timed}, opts, build, request,
                lambda s: len(s["walks"]), lambda m: m.fd_model, state=state, request2=request2)


def spec_mpc(fp, edges, cyc):
    cls = fp.MinPathCoverCycles if cyc else fp.MinPathCover

    def build():
        return cls(graph_of(edges), solver_options=dict(SO))
    probe = cls(graph_of(edges), solver_options=dict(SO))
    lb = probe.get_lowerbound_k()
    ne = probe.G.number_of_edges()        # the exclusive upper end as the implementation computes it (MinPathCover: s-t augmented graph)

    def request(obs):
        return ("mpcc " if cyc else "mpc ") + common.toks(UPPER_EXCL, lb, ne, raw_toks(obs["log"]))
    return Spec(cls.__name__, {"edges": edges, "cyc": cyc}, {}, build, request,
                (lambda s: len(s["walks"])) if cyc else (lambda s: len(s["paths"])), lambda m: m.model)


def spec_mgs(fp, inp):
    def build():
        return fp.MinGenSet(numbers=list(inp["numbers"]), total=inp["total"], weight_type=int,
                            max_multiplicity=inp["max_multiplicity"], lowerbound=inp["lowerbound"],
                            partition_constraints=copy.deepcopy(inp.get("partition_constraints")),
                            remove_complement_values=inp["remove_complement_values"], solver_options=dict(SO))

    def request(obs):
        cuts = sum(len(c) - 1 for c in (inp.get("partition_constraints") or []))
        return "mgs " + common.toks(SWITCH[K_MGS], inp["lowerbound"], len(inp["numbers"]), cuts, raw_toks(obs["log"]))
    return Spec("MinGenSet", inp, {}, build, request, lambda s: len(s), lambda m: m)


NPO_TYPES = {"kFlowDecomp": {}, "kFlowDecomp-nogreedy": {"optimize_with_greedy": False},
             "kMinPathError": {}, "kLeastAbsErrors": {}}


def spec_npo(fp, edges, perturb, mtype, crit, extra, timed):
    cls = getattr(fp, mtype.split("-")[0])
    kwargs = {"G": graph_of(edges, perturb), "flow_attr": "flow", "weight_type": int,
              "optimization_options": dict(NPO_TYPES[mtype]), "solver_options": dict(SO)}
    made = []

    def factory(**kw):
        kw = dict(kw); kw["G"] = graph_of(edges, perturb); kw["optimization_options"] = dict(NPO_TYPES[mtype])
        kw["solver_options"] = dict(SO)
        m = cls(**kw); made.append(m); return m
    lb = cls(**dict(kwargs, k=1)).get_lowerbound_k()
    kstart = max(1, lb); kmax = kstart + extra
    ext = [False] * kstart
    for k in range(kstart, kmax + 1):
        ext.append(bool(cls(**dict(kwargs, G=graph_of(edges, perturb), optimization_options=dict(NPO_TYPES[mtype]), k=k)).is_solved()))
    ff = crit.get("stop_on_first_feasible"); da = crit.get("stop_on_delta_abs"); dr = crit.get("stop_on_delta_rel")

    def build():
        del made[:]
        return fp.NumPathsOptimization(model_type=factory, min_num_paths=1, max_num_paths=kmax,
                                       time_limit=(1e9 if timed else float("inf")), **crit, **kwargs)

    def request(obs):
        obj = [[0, 1]] * (kmax + 1)
        for mm in made:
            if mm.is_solved() and mm.k <= kmax:
                try:
                    obj[mm.k] = common.qtok(mm.get_objective_value())
                except Exception:
                    pass
        oa = obs.get("over_after")
        ov = [oa is not None and n >= oa for n in range(obs["used"] + 2)]
        optq = lambda x: [0, 0, 1] if x is None else [1] + common.qtok(x)
        return "npo " + common.toks(kstart, kmax, bool(ff), optq(da), optq(dr), len(ext), ext, len(obj), obj,
                                    len(ov), ov, raw_toks(obs["log"]))
    sp = Spec("NumPathsOptimization", {"edges": edges, "perturb": perturb, "mtype": mtype, "crit": crit, "extra": extra, "timed": timed},
              {}, build, request, lambda s: None, lambda m: m.model, p2=False)
    sp.made = made; sp.kstart = kstart
    return sp


def rebuild_spec(fp, cls, inp, opts):
    if cls == "MinFlowDecomp":
        sp = spec_mfd(fp, inp["edges"], opts)
        if inp.get("known_min") is not None:
            sp.known_min = inp["known_min"]; sp.exhaust = False
        return sp
    if cls == "MinFlowDecompCycles":
        return spec_mfdc(fp, inp["edges"], opts, inp.get("timed", False))
    if cls in ("MinPathCover", "MinPathCoverCycles"):
        return spec_mpc(fp, inp["edges"], inp["cyc"])
    if cls == "MinGenSet":
        return spec_mgs(fp, inp)
    if cls == "NumPathsOptimization":
        return spec_npo(fp, inp["edges"], inp["perturb"], inp["mtype"], inp["crit"], inp["extra"], inp["timed"])
    raise ValueError(cls)


# ------------------------------------------------------------------------------------------ property on the implementation
def property_failures(spec, obs, nat):
    """C13 evaluated directly on one run of the implementation.  Returns list of (what, position, phase)."""
    bad = []; log = obs["log"]; out = obs["outcome"]; post = obs["post"]; pre = obs["pre"]
    # getters before solve raise, is_solved() returns False (NumPathsOptimization too, since /repo c4fc05d)
    if pre is not None and (pre["is_solved"] != "F" or pre["get_solution"] != "R" or pre.get("get_objective_value", "R") != "R"):
        bad.append(("before solve(): is_solved/get_solution/get_objective_value gave " + repr(pre), None, "pre"))
    # solve() result, is_solved() and the getters agree
    if out == "S":
        if post["is_solved"] != "T" or post["get_solution"] != "D" or post.get("get_objective_value", "D") != "D":
            bad.append(("solve() returned True but is_solved/getters say " + repr({k: post[k] for k in post if k != "objective"}), None, "post"))
        if spec.known_min is not None and obs["k"] != spec.known_min:
            bad.append(("solve() returned True with %s paths, the minimum of this instance is %d" % (obs["k"], spec.known_min), None, "min"))
        if obs.get("chosen_status") is not None and obs["chosen_status"] != "kOptimal":
            bad.append(("solve() returned True but the returned model's last status was " + obs["chosen_status"], None, "post"))
        if obs.get("chosen_solved") is not True:
            bad.append(("solve() returned True with a sub-model that is not solved: " + repr(obs.get("chosen_solved")), None, "post"))
    elif out in ("N", "X", "C"):
        if post["is_solved"] == "T" or post["get_solution"] != "R" or post.get("get_objective_value", "R") != "R":
            bad.append(("not solved (%s) but is_solved/getters say %r" % (out, {k: post[k] for k in post if k != "objective"}), None, "post"))
        if out == "X":
            bad.append(("search left the interpreter with exit(0) instead of reporting not-solved", None, "exit"))
    else:
        bad.append(("solve() returned " + out, None, "post"))
    # the time budget ran out during the search: whatever is returned must not be a larger answer than the natural one
    if obs.get("over_after") is not None and out == "S" and nat is not None and nat["outcome"] == "S" \
            and obs["k"] is not None and nat["k"] is not None and obs["k"] > nat["k"]:
        bad.append(("the time budget ran out after invocation %d, yet solve() returned True with k=%s (natural answer %s)" % (
            obs["over_after"], obs["k"], nat["k"]), obs["over_after"] - 1, "clock"))
    # an inconclusive status anywhere must give not-solved (main loop); in auxiliary models the answer must stay the minimum
    if spec.p2:
        for i, e in enumerate(log):
            if conclusive(reported(e)):
                continue
            if out == "S":
                if e["tag"] == "main" or spec.cls == "MinGenSet":
                    bad.append(("invocation %d returned %s%s yet solve() returned True (k=%s)" % (
                        i, e["native"], " + custom time-out" if e["custom"] else "", obs["k"]), i, "main"))
                elif nat is not None and nat["outcome"] == "S" and obs["k"] is not None and obs["k"] < nat["k"]:
                    # the answer got SMALLER than the natural one: the auxiliary lower bound of the natural run
                    # over-estimated (a C04/C15 matter, e.g. MinGenSet with max_multiplicity > 1), not a C13 failure
                    obs["smaller_than_natural"] = True
                elif nat is None or nat["outcome"] != "S" or nat["k"] != obs["k"]:
                    bad.append(("auxiliary (%s) invocation %d returned %s%s and the search then returned k=%s, natural answer %s" % (
                        e["tag"], i, e["native"], " + custom time-out" if e["custom"] else "", obs["k"],
                        nat["k"] if nat else None), i, e["tag"]))
    return bad


def known_key(spec, obs, failure, agrees):
    """An observation is an instance of an open finding only if the faithful model reproduces the run."""
    if not agrees:
        return None
    what, pos, phase = failure
    if spec.cls == "MinGenSet" and phase == "main":
        return K_MGS
    if spec.cls in ("MinFlowDecomp", "MinFlowDecompCycles") and phase == "mgs":
        return K_MGS
    if spec.cls == "MinFlowDecomp" and phase == "exit" and any(e["tag"] == "mgs" for e in obs["log"]) \
            and not any(e["tag"] == "mgs" and reported(e) == "kOptimal" for e in obs["log"]):
        return K_EXIT
    return None


def compare(obs, mod, spec):
    diffs = []
    if mod["outcome"] != obs["outcome"]:
        diffs.append(("outcome", obs["outcome"], mod["outcome"]))
    if mod.get("used") != obs["used"]:
        diffs.append(("invocations", obs["used"], mod.get("used")))
    if obs["outcome"] == "S" and mod["outcome"] == "S":
        k = obs["k"] if spec.cls != "NumPathsOptimization" else getattr(obs["m"].model, "k", None)
        if k != mod["k"]:
            diffs.append(("k", k, mod["k"]))
    if spec.cls in ("MinFlowDecomp", "MinFlowDecompCycles") and mod.get("aux") != obs["aux"] and obs["outcome"] != "V":
        diffs.append(("aux", obs["aux"], mod.get("aux")))
    if spec.cls in ("MinFlowDecomp", "MinFlowDecompCycles", "MinPathCover", "MinPathCoverCycles") and obs["outcome"] in ("S", "N") \
            and obs.get("lbk") != mod.get("lbk"):
        diffs.append(("lowerbound_k after the run", obs.get("lbk"), mod.get("lbk")))
    if obs["mismatch"]:
        diffs.append(("get_model_status", obs["mismatch"][:3], "did_timeout => kTimeLimit else native"))
    return diffs


# ------------------------------------------------------------------------------------------ runs of one spec
def injection_plans(nat_log, spec, extend, timed):
    """natural prefix: every position x every inconclusive status; extension: force the last positions
    infeasible so that deeper positions of the range are reached; elapsed-time exits."""
    L = len(nat_log); plans = []
    for p in range(L):
        for s in INCONCLUSIVE:
            plans.append(({p: s}, None))
    if L and spec.cls != "NumPathsOptimization" and spec.exhaust:
        # exhaust the range: every k from the last natural position on is reported infeasible (pins the upper end)
        plans.append(({q: "kInfeasible" for q in range(L - 1, L + 14)}, None))
    if L and nat_log[-1]["tag"] == "main":
        for p in range(L, L + extend):
            F = {q: "kInfeasible" for q in range(L - 1, p)}
            plans.append((dict(F), None))
            for s in INCONCLUSIVE:
                d = dict(F); d[p] = s; plans.append((d, None))
    if timed:      # clock runs out after invocation n of the main loop
        naux = sum(1 for e in nat_log if e["tag"] in ("mgs", "gw")) if spec.cls != "NumPathsOptimization" else 0
        for n in range(naux + 1, L + 1):
            plans.append(({}, n))
    return plans


def run_spec(ctx, tap, spec, extend=2, timed=False, label=""):
    spec.inp = dict(spec.inp, alarm_route=alarm_route())
    ctx.dist("%s:%s" % (spec.cls, "alarm-route" if alarm_route() else "direct-route"))
    runs = []
    nat = observe(tap, spec, {})
    runs.append(nat)
    again = []
    for inj, oa in injection_plans(nat["log"], spec, extend, timed):
        o = observe(tap, spec, inj, oa)
        runs.append(o)
        # solve() once more on the SAME object, without injection, after a run that an inconclusive status ended unsolved
        if spec.p2 and o["outcome"] == "N" and oa is None and \
                any(not conclusive(reported(e)) for e in o["log"]) and not any(v == "kInfeasible" for v in inj.values()):
            o2 = observe(tap, spec, {}, None, again=o)
            o2["inject"] = {"first_call": {str(k): v for k, v in inj.items()}}; o2["second_call"] = True
            again.append(o2)
    runs += again
    reqs = [o["req"] for o in runs]
    mods = [parse_res(l) for l in ctx.model.run(reqs)]
    eng = "E4_" + spec.cls
    any_concrete = False; disagreements = []
    for o, mod, req in zip(runs, mods, reqs):
        diffs = compare(o, mod, spec)
        agrees = not diffs
        seq = [[e["tag"], e["native"], e["custom"]] for e in o["log"]]
        second = bool(o.get("second_call"))
        canon = [spec.cls, spec.inp, spec.opts, sorted(o["inject"].items(), key=str), o["over_after"], second]
        consumed_inj = second or any(p < o["used"] and s != "kInfeasible" for p, s in o["inject"].items())
        ctx.case(canon, nontrivial=bool(consumed_inj or o["over_after"]),
                 sample={"class": spec.cls, "input": spec.inp, "options": spec.opts, "inject": {str(k): v for k, v in o["inject"].items()},
                         "statuses": seq, "impl": [o["outcome"], o["k"], o["used"]], "model": mod})
        ctx.count(eng, "runs"); ctx.count(eng, "agreements" if agrees else "disagreements")
        if second:
            ctx.count(eng, "second_solve_calls")
        ctx.dist("%s:invocations=%d" % (spec.cls, o["used"]))
        replay = {"class": spec.cls, "input": spec.inp, "options": spec.opts, "inject": {str(k): v for k, v in o["inject"].items()},
                  "over_after": o["over_after"], "second_call": second, "statuses": seq, "impl": {"outcome": o["outcome"], "k": o["k"], "invocations": o["used"],
                  "pre": o["pre"], "post": {k: v for k, v in o["post"].items() if k != "objective"}}, "model": mod, "request": req}
        fails = property_failures(spec, o, nat if o is not nat else None)
        if second:      # the failed first call must leave no trace: the natural answer is required
            if nat["outcome"] == "S" and o["outcome"] == "S" and o["k"] is not None and o["k"] < nat["k"]:
                o["smaller_than_natural"] = True
            elif (o["outcome"], o["k"]) != (nat["outcome"], nat["k"]):
                fails.append(("second solve() on the same object after an inconclusive first run (%s) gave %s k=%s, natural answer %s k=%s" % (
                    o["inject"]["first_call"], o["outcome"], o["k"], nat["outcome"], nat["k"]), None, "second"))
        ctx.count(eng, "property_evaluations")
        if o.get("smaller_than_natural"):
            ctx.count(eng, "aux_bound_overestimated_in_natural_run(C04/C15)")
        for f in fails:
            key = known_key(spec, o, f, agrees)
            if key is None:
                any_concrete = True
            ctx.report("%s: %s" % (spec.cls, f[0]), dict(replay, position=f[1], phase=f[2]), key=key, concrete=True)
        if not agrees:
            disagreements.append((diffs, replay))
    if disagreements and not any_concrete:
        diffs, replay = disagreements[0]
        ctx.report("E4 correspondence broken: %s differs from Search.v on the same outcome sequence: %s (%d of %d runs of this input)" % (
            spec.cls, diffs, len(disagreements), len(runs)), replay, concrete=False)
    return nat


# ------------------------------------------------------------------------------------------ k-model machine
KMODELS = [  # name, cyclic?, needs flow?, obj_fills_cache
    ("kFlowDecomp", False, True, True), ("kFlowDecompCycles", True, True, True),
    ("kPathCover", False, False, False), ("kPathCoverCycles", True, False, False),
    ("kLeastAbsErrors", False, True, True), ("kMinPathError", False, True, True),
    ("kLeastAbsErrorsCycles", True, True, True), ("kMinPathErrorCycles", True, True, True)]


def build_kmodel(fp, name, edges, k, opts):
    G = graph_of(edges)
    cls = getattr(fp, name)
    if name in ("kPathCover", "kPathCoverCycles"):
        return cls(G, k=k, optimization_options=dict(opts), solver_options=dict(SO))
    return cls(G, flow_attr="flow", k=k, weight_type=int, optimization_options=dict(opts), solver_options=dict(SO))


def run_kmodel_case(ctx, tap, fp, name, objfill, edges, k, opts, ops, case_id):
    """ops: list of ("solve", inject|None) | "get_solution" | "get_objective_value" | "is_solved"."""
    tap.reset({})
    try:
        m = build_kmodel(fp, name, edges, k, opts)
    except ValueError:
        return
    ext = bool(m.is_solved())
    outs = []; toks = []; nsolve = 0
    for op in ops:
        if isinstance(op, str) and op.startswith("modify"):
            # the model is changed through the public SolverWrapper API between two solves (not an op of the machine)
            outs.append("-")
            if not ext:
                v = next(iter(m.edge_vars.values()))
                if op == "modify_infeasible":
                    m.solver.add_constraint(v >= 10 ** 6, name="c13_make_infeasible")
                elif op == "modify_objective":
                    m.solver.set_objective(m.solver.quicksum([1 * v]), sense="minimize")
                else:
                    m.solver.add_constraint(v >= 0, name="c13_redundant")
            continue
        if isinstance(op, tuple):
            if op[1] is not None:
                tap.inject = {len(tap.log): op[1]}
            before = len(tap.log)
            r = m.solve()
            tap.inject = {}
            outs.append("T" if r is True else ("F" if r is False else "?"))
            if len(tap.log) > before:
                e = tap.log[-1]; toks.append([0, TOK.get(e["native"], 3), 1 if e["custom"] else 0])
            else:
                toks.append([0, 0, 0])
            nsolve += 1
        elif op == "is_solved":
            outs.append("T" if m.is_solved() else "F"); toks.append([3])
        else:
            try:
                v = getattr(m, op)()
                outs.append("D" if v is not None else "N")
            except Exception:
                outs.append("R")
            toks.append([1] if op == "get_solution" else [2])
    req = "kmodel " + common.toks(ext, objfill, len(toks), toks)
    log = [dict(e) for e in tap.log]; mism = list(tap.mismatch)
    return {"req": req, "outs": outs, "inv": len(log), "ext": ext, "log": log, "ops": ops, "mismatch": mism,
            "replay": {"kmodel": name, "edges": edges, "k": k, "options": opts, "alarm_route": alarm_route(),
                       "ops": [list(o) if isinstance(o, tuple) else o for o in ops], "impl_outputs": outs,
                       "statuses": [[e["native"], e["custom"]] for e in log]}}


def kmodel_property(rec):
    """C13 on one history of a k-model: is_solved after solve iff last status optimal; getters raise until an
    optimal solve; get_objective_value only when solved."""
    bad = []; solved = rec["ext"]; had_opt = rec["ext"]; li = 0
    for op, out in zip(rec["ops"], rec["outs"]):
        if out == "-":
            continue
        if isinstance(op, tuple):
            if rec["ext"]:
                want = True
            else:
                e = rec["log"][li] if li < len(rec["log"]) else None; li += 1
                want = e is not None and reported(e) == "kOptimal"
            if (out == "T") != want:
                bad.append("solve() returned %s with status %s" % (out, "external" if rec["ext"] else (reported(e) if e else "no-invocation")))
            solved = want; had_opt = had_opt or want
        elif op == "is_solved":
            if (out == "T") != solved:
                bad.append("is_solved() = %s but the last solve %s" % (out, "was optimal" if solved else "was not optimal / never ran"))
        elif op == "get_objective_value":
            if (out == "D") != solved:
                bad.append("get_objective_value gave %s while solved=%s" % (out, solved))
        elif op == "get_solution":
            if out != "R" and not had_opt:
                bad.append("get_solution returned data before any optimal solve")
            if out == "R" and solved:
                bad.append("get_solution raised on a solved model")
    return bad


def run_kmodels(ctx, tap, fp, n_inputs):
    recs = []
    for i in range(n_inputs):
        rng = ctx.rng("kmodel", i)
        name, cyc, needflow, objfill = KMODELS[i % len(KMODELS)]
        edges = flow_cyclic(rng) if cyc else flow_dag(rng)
        opts = {}
        if name == "kFlowDecomp" and rng.random() < 0.6:
            opts = {"optimize_with_greedy": False}
        k = rng.choice([1, 1, 2, 3])
        for h in range(3):
            set_route((i + h) % 2 == 1)
            ops = ["get_solution", "get_objective_value", "is_solved"]
            for _ in range(rng.randint(1, 3)):
                if len(ops) > 3 and rng.random() < 0.6:
                    ops.append(rng.choice(["modify_redundant", "modify_redundant", "modify_objective", "modify_infeasible"]))
                ops.append(("solve", rng.choice([None, None] + INCONCLUSIVE)))
                tail = ["get_solution", "get_objective_value", "is_solved"]
                rng.shuffle(tail)
                ops += tail[:rng.randint(1, 3)]
            if h == 0:      # getters must raise before the first solve, whatever it returns later
                ops = ["get_solution", "get_objective_value", "is_solved", ("solve", rng.choice(INCONCLUSIVE)),
                       "is_solved", "get_objective_value", "get_solution", ("solve", None), "get_solution", "is_solved",
                       "modify_redundant", ("solve", rng.choice(INCONCLUSIVE)), "is_solved", "get_objective_value", "get_solution",
                       "modify_infeasible", ("solve", None), "is_solved", "get_objective_value"]
            try:
                rec = run_kmodel_case(ctx, tap, fp, name, objfill, edges, k, opts, ops, (i, h))
            except Exception as e:
                ctx.report("k-model history crashed: %s %r" % (name, e), {"kmodel": name, "edges": edges, "k": k, "ops": repr(ops)}, concrete=False)
                continue
            if rec is not None:
                rec["name"] = name; recs.append(rec)
    outs = ctx.model.run([r["req"] for r in recs])
    for rec, out in zip(recs, outs):
        p = out.split()
        mod_outs = p[2:] if p and p[0] == "OK" else None; mod_inv = int(p[1]) if mod_outs is not None else None
        agree = (mod_outs == [o for o in rec["outs"] if o != "-"] and mod_inv == rec["inv"] and not rec["mismatch"])
        inj = any(isinstance(o, tuple) and o[1] for o in rec["ops"])
        ctx.case([rec["name"], rec["replay"]["edges"], rec["replay"]["k"], rec["replay"]["options"], rec["replay"]["ops"], rec["replay"]["alarm_route"]],
                 nontrivial=inj, sample=dict(rec["replay"], model=out))
        ctx.count("E4_kmodel", "histories"); ctx.count("E4_kmodel", "agreements" if agree else "disagreements")
        ctx.dist("kmodel:" + rec["name"] + (":external" if rec["ext"] else "") + (":alarm-route" if rec["replay"]["alarm_route"] else ""))
        if rec["mismatch"]:
            ctx.report("%s: get_model_status() reported %s after a run whose outcome was %s" % ((rec["name"],) + tuple(rec["mismatch"][0][1:])),
                       dict(rec["replay"], model=out), concrete=True)
        bad = kmodel_property(rec)
        for b in bad:
            ctx.report("%s: %s" % (rec["name"], b), dict(rec["replay"], model=out), concrete=True)
        if not agree and not bad:
            ctx.report("E4 correspondence broken: %s solved-flag history differs from Search.kruns: impl %s / %d invocations, model %s" % (
                rec["name"], rec["outs"], rec["inv"], out), dict(rec["replay"], model=out), concrete=False)


# ------------------------------------------------------------------------------------------ SolverWrapper directly
def run_wrapper_history(tap, steps):
    """One SolverWrapper object: optimize, change the model (row / bound / objective), optimize again ...
    steps: ("opt", inject|None) | "row_redundant" | "row_tight" | "row_infeasible" | "objective" | "queue_lb" | "queue_fix"."""
    tap.reset({})
    sw = tap.SW(**dict(SO))
    x = sw.add_variables([0, 1, 2], name_prefix="x", lb=0, ub=5, var_type="integer")
    sw.add_constraint(x[0] + x[1] + x[2] >= 2, name="base")
    sw.set_objective(x[0] + 2 * x[1] + 3 * x[2], sense="minimize")
    reported_seq = []; unstable = []
    for st in steps:
        if isinstance(st, tuple):
            if st[1] is not None:
                tap.inject = {len(tap.log): st[1]}
            sw.optimize(); tap.inject = {}
            rs = [sw.get_model_status() for _ in range(3)]
            reported_seq.append(rs[0])
            if len(set(rs)) != 1:
                unstable.append(rs)
        elif st == "row_redundant":
            sw.add_constraint(x[0] >= 0, name="r")
        elif st == "row_tight":
            sw.add_constraint(x[1] + x[2] >= 1, name="t")
        elif st == "row_infeasible":
            sw.add_constraint(x[0] + x[1] + x[2] >= 100, name="i")
        elif st == "objective":
            sw.set_objective(3 * x[0] + x[1] + x[2], sense="minimize")
        elif st == "queue_lb":
            sw.queue_set_var_lower_bound(x[2], 1)
        elif st == "queue_fix":
            sw.queue_fix_variable(x[0], 0)
    return {"log": [dict(e) for e in tap.log], "reported": reported_seq, "unstable": unstable, "mismatch": list(tap.mismatch)}


def run_wrappers(ctx, tap, n):
    recs = []
    for i in range(n):
        rng = ctx.rng("wrapper", i)
        set_route(i % 2 == 1)
        steps = [("opt", rng.choice([None] + INCONCLUSIVE))]
        for _ in range(rng.randint(1, 4)):
            steps.append(rng.choice(["row_redundant", "row_tight", "row_infeasible", "objective", "queue_lb", "queue_fix"]))
            steps.append(("opt", rng.choice([None, None] + INCONCLUSIVE)))
        if i < 2:        # optimal, then a change that makes the model infeasible / a time limit on the changed model
            steps = [("opt", None), "row_infeasible" if i == 0 else "row_tight", ("opt", None if i == 0 else "kTimeLimit"), "objective", ("opt", None)]
        if not alarm_route():      # on the direct route no alarm is armed: the flag cannot be set there
            steps = [(st[0], "kTimeLimit" if st[1] == "custom" else st[1]) if isinstance(st, tuple) else st for st in steps]
        rec = run_wrapper_history(tap, steps)
        rec["steps"] = steps; rec["alarm"] = alarm_route()
        rec["req"] = "swrapper " + common.toks(rec["alarm"], len(rec["log"]), [[TOK.get(e["native"], 3), 1 if e["custom"] else 0] for e in rec["log"]])
        recs.append(rec)
    outs = ctx.model.run([r["req"] for r in recs])
    for rec, out in zip(recs, outs):
        want = [reported(e) for e in rec["log"]]                       # status of the LAST run, at each point of the history
        mod = out.split()[1:] if out.startswith("OK") else None
        impl_tok = [str(TOK.get(r, 3)) for r in rec["reported"]]
        replay = {"wrapper_steps": [list(s) if isinstance(s, tuple) else s for s in rec["steps"]], "alarm_route": rec["alarm"],
                  "runs": [[e["native"], e["custom"]] for e in rec["log"]], "reported": rec["reported"], "model": out}
        ctx.case(["wrapper", replay["wrapper_steps"], rec["alarm"]], nontrivial=len(rec["log"]) >= 2, sample=replay)
        ctx.count("E4_SolverWrapper", "histories"); ctx.dist("wrapper:" + ("alarm-route" if rec["alarm"] else "direct-route"))
        if rec["reported"] != want or rec["unstable"]:
            ctx.count("E4_SolverWrapper", "disagreements")
            ctx.report("SolverWrapper: get_model_status() after the runs of one history reported %s, the runs ended %s (%s route)" % (
                rec["reported"], want, "custom-timeout" if rec["alarm"] else "direct"), replay, concrete=True)
        elif mod != impl_tok:
            ctx.count("E4_SolverWrapper", "disagreements")
            ctx.report("E4 correspondence broken: SolverWrapper status history %s differs from Search.sw_runs %s" % (impl_tok, mod), replay, concrete=False)
        else:
            ctx.count("E4_SolverWrapper", "agreements")


# ------------------------------------------------------------------------------------------ run
MFD_OPTS = [{}, {"optimize_with_greedy": False},
            {"optimize_with_greedy": False, "use_min_gen_set_lowerbound": True},
            {"optimize_with_greedy": False, "optimize_with_guessed_weights": True},
            {"optimize_with_greedy": False, "optimize_with_guessed_weights": True, "use_min_gen_set_lowerbound": True},
            {"use_min_gen_set_lowerbound": True},
            {"optimize_with_greedy": False, "use_min_gen_set_lowerbound": True, "use_min_gen_set_lowerbound_partition_constraints": True}]
MFDC_OPTS = [{}, {"use_min_gen_set_lowerbound": True}, {"optimize_with_guessed_weights": True},
             {"optimize_with_guessed_weights": True, "use_min_gen_set_lowerbound": True}]
NPO_CRIT = [{"stop_on_first_feasible": True}, {"stop_on_delta_abs": 0.5}, {"stop_on_delta_abs": 2},
            {"stop_on_delta_rel": 0.26}, {"stop_on_delta_abs": 0.5, "stop_on_delta_rel": 0.26}]


def run(ctx):
    import flowpaths as fp
    ctx.rule = ("case = one run of solve() of (class, input, options) with a status injected at one invocation position "
                "(every position of the natural invocation sequence x {kTimeLimit, kInterrupt, kUnknown, kSolutionLimit, custom time-out}, "
                "plus positions deeper in the k-range reached by forcing kInfeasible, plus elapsed-time exits, plus a second solve() on the same object), "
                "or one op history of a k-model (solve / getters / model changes through the wrapper API between re-solves), or one history of a bare "
                "SolverWrapper (optimize, add row / bound / change objective, optimize again); every class on both routes of optimize() "
                "(direct, and finite time_limit + use_also_custom_timeout); "
                "inputs: flow DAGs <= 6 nodes, cyclic flow graphs <= 6 nodes, number lists <= 5 numbers; "
                "non-trivial = the injected status was actually consumed; distinct by (class, input, options, injection)")
    for key in SWITCH:
        SWITCH[key] = 1 if ctx.open_finding(key) else 0
    ctx.notes.append({"faithful_model_switches": dict(SWITCH)})
    tap = Tap()
    try:
        n = ctx.budget(16, 200)
        run_kmodels(ctx, tap, fp, ctx.budget(48, 800))
        run_wrappers(ctx, tap, ctx.budget(40, 600))
        for i in range(n):
            rng = ctx.rng("mgs", i)
            set_route(i % 2 == 1)
            run_spec(ctx, tap, spec_mgs(fp, mgs_input(rng)), extend=0)
        for i in range(n):
            rng = ctx.rng("mfd", i)
            edges = flow_dag(rng)
            for j, opts in enumerate([MFD_OPTS[0]] + rng.sample(MFD_OPTS[1:], 3)):
                set_route((i + j) % 2 == 1)
                run_spec(ctx, tap, spec_mfd(fp, edges, opts), extend=2)
        # MinFlowDecomp with the subgraph-scanning lower bound (nested searches over windows of 20 nodes)
        for i in range(max(2, n // 5)):
            rng = ctx.rng("mfdscan", i)
            edges, kmin = diamond_chain(rng, two_windows=(i == 1))
            base = {"use_subgraph_scanning_lowerbound": True, "optimize_with_greedy": False}
            variants = [base, dict(base, use_min_gen_set_lowerbound=True), dict(base, optimize_with_guessed_weights=True),
                        {"use_subgraph_scanning_lowerbound": True}]
            for j, opts in enumerate([base] + rng.sample(variants[1:], 1)):
                set_route((i + j) % 2 == 1)
                sp = spec_mfd(fp, edges, opts); sp.known_min = kmin; sp.exhaust = False
                sp.inp = {"edges": edges, "known_min": kmin}
                run_spec(ctx, tap, sp, extend=0)
        # guessed-weights route on instances whose guessed-weights optimum exceeds the minimum (DAG and cyclic, with clock)
        for i in range(max(3, n // 5)):
            rng = ctx.rng("mfdgw", i); set_route(i % 2 == 1)
            edges = gw_gap_instance(fp, tap, rng, False)
            if edges is None:
                continue
            gopts = [{"optimize_with_guessed_weights": True}, {"optimize_with_guessed_weights": True, "optimize_with_greedy": False},
                     {"optimize_with_guessed_weights": True, "optimize_with_greedy": False, "use_min_gen_set_lowerbound": True}]
            run_spec(ctx, tap, spec_mfd(fp, edges, gopts[i % 3]), extend=1)
        for i in range(min(6, max(1, n // 16))):     # the cyclic family has 3 weight vectors x 2 option sets: more adds nothing
            rng = ctx.rng("mfdcgw", i); set_route((i + ctx.seed) % 2 == 1)
            edges = gw_gap_instance(fp, tap, rng, True)
            if edges is None:
                continue
            gopts = [{"optimize_with_guessed_weights": True}, {"optimize_with_guessed_weights": True, "use_min_gen_set_lowerbound": True}]
            sp = spec_mfdc(fp, edges, gopts[(i + ctx.seed // 2) % 2], timed=True); sp.exhaust = False
            run_spec(ctx, tap, sp, extend=0, timed=True)
        for i in range(max(1, n // 2)):
            rng = ctx.rng("mfdc", i)
            edges = flow_cyclic(rng)
            for j, opts in enumerate(rng.sample(MFDC_OPTS, 2)):
                set_route((i + j) % 2 == 1)
                run_spec(ctx, tap, spec_mfdc(fp, edges, opts, timed=True), extend=1, timed=True)
        for i in range(n):
            rng = ctx.rng("mpc", i)
            set_route(i % 2 == 1)
            run_spec(ctx, tap, spec_mpc(fp, [[u, v, 1] for u, v in gen.rand_dag(rng, 6).edges()], False), extend=2)
            rng = ctx.rng("mpcc", i)
            set_route(i % 2 == 0)
            run_spec(ctx, tap, spec_mpc(fp, [[u, v, 1] for u, v, _ in flow_cyclic(rng)], True), extend=2)
        for i in range(n):
            rng = ctx.rng("npo", i)
            set_route(i % 2 == 1)
            edges = flow_dag(rng)
            mtype = rng.choice(sorted(NPO_TYPES))
            perturb = [rng.choice([0, 0, 0, 1, 2, -1]) if f > 1 else 0 for _, _, f in edges] if mtype.startswith(("kMin", "kLeast")) else None
            crit = NPO_CRIT[0] if mtype.startswith("kFlow") else rng.choice(NPO_CRIT)
            try:
                sp = spec_npo(fp, edges, perturb, mtype, crit, rng.choice([2, 3]), timed=True)
            except ValueError:
                continue
            run_spec(ctx, tap, sp, extend=0, timed=True)
    finally:
        set_route(False)
        tap.close()
    import gencheck13; gencheck13.run_generated_c13(ctx)   # generated-model tie: the search loops regenerated from source (coq/gen_proofs/Search*Spec.v)


def replay(ctx, body):
    import flowpaths as fp
    for key in SWITCH:
        SWITCH[key] = 1 if ctx.open_finding(key) else 0
    tap = Tap()
    try:
        if "wrapper_steps" in body:
            set_route(body.get("alarm_route", False))
            steps = [tuple(x) if isinstance(x, list) else x for x in body["wrapper_steps"]]
            rec = run_wrapper_history(tap, steps)
            want = [reported(e) for e in rec["log"]]
            print("reported now:", rec["reported"], "runs ended:", want)
            return rec["reported"] != want or bool(rec["unstable"])
        if "kmodel" in body:
            set_route(body.get("alarm_route", False))
            name = body["kmodel"]; objfill = dict((k[0], k[3]) for k in KMODELS)[name]
            ops = [tuple(o) if isinstance(o, list) else o for o in body["ops"]]
            rec = run_kmodel_case(ctx, tap, fp, name, objfill, body["edges"], body["k"], body["options"], ops, 0)
            bad = kmodel_property(rec)
            print("impl outputs now:", rec["outs"], "property failures:", bad, "status mismatches:", rec["mismatch"])
            return bool(bad) or bool(rec["mismatch"]) or rec["outs"] != body.get("impl_outputs")
        set_route(body["input"].get("alarm_route", False))
        spec = rebuild_spec(fp, body["class"], body["input"], body["options"])
        nat = observe(tap, spec, {})
        if body.get("second_call"):
            inj = {int(k): v for k, v in body["inject"]["first_call"].items()}
            o1 = observe(tap, spec, inj, None)
            o = observe(tap, spec, {}, None, again=o1)
            fails = property_failures(spec, o, nat)
            if (o["outcome"], o["k"]) != (nat["outcome"], nat["k"]) and not (o["outcome"] == "S" == nat["outcome"] and o["k"] < nat["k"]):
                fails.append(("second solve() gave %s k=%s, natural answer %s k=%s" % (o["outcome"], o["k"], nat["outcome"], nat["k"]), None, "second"))
        else:
            inj = {int(k): v for k, v in body["inject"].items()}
            o = observe(tap, spec, inj, body.get("over_after"))
            fails = property_failures(spec, o, nat if inj or body.get("over_after") else None)
        print("impl now:", o["outcome"], "k =", o["k"], "invocations =", o["used"],
              "statuses =", [[e["tag"], e["native"], e["custom"]] for e in o["log"]])
        print("property failures:", [f[0] for f in fails])
        return bool(fails)
    finally:
        tap.close()
