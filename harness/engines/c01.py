"""C01 — returned paths/walks are real source-to-sink routes of the caller's graph.
E3a: Aug.aug_edges == the s-t graph stDAG / stDiGraph build (as edge sets, incl. source/sink edge lists).
E3b: PathEnc.solution_path == get_solution_paths on crafted 0/1 assignments (DAG decoder).
E1 : LP of kPathCover == PathEnc.encode_kpc (the path rows every DAG class inherits).
E2 : the property evaluated on get_solution() of every exported model class (edge and node mode)."""
import collections
import networkx as nx
import common, gen, gen2, zoo, props, lpdump, e1, vcheck
import gencheck01, gencheck_enc

LEVEL = "proof"
EXPLANATION = ("Props/C01.v: (i) Aug: the augmented graph attaches the synthetic source exactly to in-degree-0 nodes and additional "
               "starts (dually the sink), adds nothing else, and every s-t walk of it stripped of s,t is a route of the caller's graph "
               "with the required start/end; (ii) DAG: for every assignment satisfying the generated path rows each layer decodes "
               "(first successor with value 1, no fuel exhaustion) to ONE simple route using exactly the value-1 edges; "
               "(iii) cyclic: C14's reconstruction theorem. Tie: E3a/E3b/E1 per run; E2 evaluates the property on every class's output.")
ASSUMPTIONS = ["solver specification (status optimal => rows satisfied within tolerance), DESIGN §4",
               "networkx iteration orders are taken from the implementation and passed to the model"]
TRUSTED = ["models: coq/theories/Aug.v, PathEnc.v (solution_path, path rows), Euler.v; proofs AugProofs.v, RouteProofs.v, PathEncProofs.v, DagDecode.v"]


# ---------------------------------------------------------------- E3a augmentation
def e3_aug(ctx, n):
    import flowpaths as fp
    reqs = []; meta = []
    for i in range(n):
        rng = ctx.rng("aug", i)
        cyc = rng.random() < 0.5
        G = gen.rand_cyclic(rng, nmax=6) if cyc else gen.rand_dag(rng, nmax=6)
        if rng.random() < 0.2:
            G.add_node("iso")                      # isolated node: both a source and a sink
        nodes = list(G.nodes())
        S = [v for v in nodes if rng.random() < 0.25] if rng.random() < 0.5 else []
        T = [v for v in nodes if rng.random() < 0.25] if rng.random() < 0.5 else []
        try:
            st = (fp.stDiGraph if cyc else fp.stDAG)(G, additional_starts=S, additional_ends=T)
        except Exception as e:
            ctx.report("constructing the s-t graph raised " + repr(e), {"edges": list(G.edges()), "starts": S, "ends": T}); continue
        ids = {v: j for j, v in enumerate(nodes)}
        s, t = len(nodes), len(nodes) + 1
        reqs.append("aug " + common.toks(len(nodes), [ids[v] for v in nodes], G.number_of_edges(), [[ids[u], ids[v]] for u, v in G.edges()],
                                         len(S), [ids[v] for v in S], len(T), [ids[v] for v in T], s, t))
        meta.append((G, S, T, st, ids, s, t))
    outs = ctx.model.run(reqs)
    for (G, S, T, st, ids, s, t), out in zip(meta, outs):
        xs = [int(x) for x in out.split()]
        model_edges = set(zip(xs[0::2], xs[1::2]))
        ids2 = dict(ids); ids2[st.source] = s; ids2[st.sink] = t
        impl_edges = set((ids2[u], ids2[v]) for u, v in st.edges())
        canon = [sorted(impl_edges), sorted(ids[v] for v in S), sorted(ids[v] for v in T)]
        ctx.case(["aug", canon], nontrivial=len(S) + len(T) > 0 or G.number_of_edges() > 2)
        ctx.count("E3a_augmentation", "cases")
        rep = {"edges": list(G.edges()), "nodes": list(G.nodes()), "starts": S, "ends": T, "impl_edges": sorted(map(list, st.edges()))}
        # the property clause evaluated directly
        bad = None
        for v in G.nodes():
            want_s = G.in_degree(v) == 0 or v in S; want_t = G.out_degree(v) == 0 or v in T
            if st.has_edge(st.source, v) != want_s: bad = f"source edge to {v!r}: {st.has_edge(st.source, v)}, expected {want_s}"
            if st.has_edge(v, st.sink) != want_t: bad = f"sink edge from {v!r}: {st.has_edge(v, st.sink)}, expected {want_t}"
        if set(st.source_edges) != {(st.source, v) for v in st.successors(st.source)} or set(st.sink_edges) != {(u, st.sink) for u in st.predecessors(st.sink)}:
            bad = "source_edges / sink_edges do not list the synthetic edges"
        if bad:
            ctx.report("s-t augmentation is not the documented one: " + bad, rep); continue
        if impl_edges != model_edges:
            ctx.count("E3a_augmentation", "disagreements")
            ctx.report("E3 correspondence broken: stDAG/stDiGraph edge set differs from Aug.aug_edges", rep, concrete=False)
        else:
            ctx.count("E3a_augmentation", "agreements")


# ---------------------------------------------------------------- E3b decoder
def _stub_dag():
    from flowpaths.abstractpathmodeldag import AbstractPathModelDAG as P
    class Stub(P):
        def get_solution(self): pass
        def get_lowerbound_k(self): return 1
        def is_valid_solution(self): return True
        def get_objective_value(self): return None
    return Stub


def e3_decode(ctx, n):
    import flowpaths as fp
    Stub = _stub_dag()
    reqs = []; meta = []
    for i in range(n):
        rng = ctx.rng("dec", i)
        G = gen.rand_dag(rng, nmax=7)
        st = fp.stDAG(G)
        paths = gen.all_st_paths(G)
        k = rng.randint(1, 3)
        m = object.__new__(Stub); m.G = st; m.k = k; m.external_solution_paths = None
        sol = {}
        chosen = []
        for layer in range(k):
            if rng.random() < 0.12:
                p = None; ones = set()               # empty layer (allow_empty_paths)
            else:
                p = [st.source] + rng.choice(paths) + [st.sink]; ones = set(zip(p, p[1:]))
            chosen.append(p)
            for (u, v) in st.edges():
                sol[(str(u), str(v), layer)] = 1 if (u, v) in ones else 0
        m.edge_vars_sol = sol
        got = m.get_solution_paths()
        ids = {v: j for j, v in enumerate(st.nodes())}
        for layer in range(k):
            es = [[ids[u], ids[v], sol[(str(u), str(v), layer)]] for u, v in st.edges()]
            reqs.append("dpath " + common.toks(len(es), es, ids[st.source], ids[st.sink], st.number_of_nodes() + 1))
            meta.append((st, ids, chosen[layer], got[layer]))
    outs = ctx.model.run(reqs)
    for (st, ids, p, got), out in zip(meta, outs):
        names = list(st.nodes())
        mp = [names[int(x)] for x in out.split()[1:]] if out.startswith("OK") else None
        ctx.case(["dec", sorted(map(list, st.edges())), p], nontrivial=p is not None and len(p) > 3)
        ctx.count("E3b_decoder", "cases")
        want = [] if p is None else p[1:-1]
        rep = {"edges": sorted(map(list, st.edges())), "ones": p, "impl": got, "model": mp}
        if got != want:
            ctx.report("get_solution_paths does not return the path whose edges have value 1", rep); continue
        if mp != got:
            ctx.count("E3b_decoder", "disagreements")
            ctx.report("E3 correspondence broken: get_solution_paths differs from PathEnc.solution_path", rep, concrete=False)
        else:
            ctx.count("E3b_decoder", "agreements")


# ---------------------------------------------------------------- E1 kPathCover
def e1_kpc(ctx, n):
    import flowpaths as fp
    lpdump.install()
    for i in range(n):
        rng = ctx.rng("kpc", i)
        info = zoo.make(rng, "kPathCover", node=False)
        lpdump.reset()
        try:
            m = zoo.construct(info, {"optimize_with_safe_paths": rng.random() < 0.5})
        except ValueError:
            continue
        ids = e1.ids_of(m.G)
        impl = lpdump.dump_impl(m.solver, e1.colkey_dag(m, ids))
        req = "kpc " + common.toks(e1.path_inst_tokens(m, ids), e1.edge_list_tokens(m.edges_to_ignore, ids))
        d = e1.compare(ctx, "E1_kPathCover_LP", "kpc", m, impl, req, None)
        ctx.case(["kpc", zoo.describe(info)], nontrivial=len(impl["rows"]) > 4)
        if d:
            ctx.report("E1 correspondence broken: LP of kPathCover differs from PathEnc.encode_kpc: " + "; ".join(d[:3]),
                       {"instance": zoo.describe(info), "diff": d}, concrete=False)


# ---------------------------------------------------------------- E2 all classes
def check_solution(ctx, info, m, sol):
    name = info["class"]; G = info["G"]; rk = zoo.routes_key(name)
    rep = {"instance": zoo.describe(info), "solution": {k: v for k, v in sol.items() if not k.startswith("_")}}
    if rk not in sol:
        ctx.report(f"solution has no '{rk}' entry", rep); return
    routes = sol[rk]
    for r in routes:
        why = props.valid_route(G, r, starts=info["starts"], ends=info["ends"], simple=not name.endswith("Cycles"))
        # decided by the verified checker Checkers.valid_route_b (the Python evaluation is only cross-checked)
        VB.route(G, r, info["starts"], info["ends"], not name.endswith("Cycles"), why is None,
                 f"{name}: returned route {r} is not a valid source-to-sink route of the caller's graph: {why}", rep)
        if why:
            return
    for wk in ("weights", "slacks"):
        if wk in sol:
            if len(sol[wk]) != len(routes):
                ctx.report(f"{name}: {len(sol[wk])} {wk} for {len(routes)} routes", rep); return
            if any(w < -1e-9 for w in sol[wk]):
                ctx.report(f"{name}: negative value in {wk}", rep); return
    if "weights" not in sol and name not in zoo.COVER:
        ctx.report(f"{name}: solution has no weights", rep); return
    k = info["kwargs"].get("k")
    if k is not None:
        dropped = info["node"] and any(G.degree(v) == 0 for v in G.nodes()) and len(routes) < k
        if dropped:     # open finding: a route consisting of a single node is dropped in node mode
            ctx.report(f"{name}: a single-node route and its weight are dropped in node mode", rep,
                       key="node_mode_single_node_route_dropped"); return
        if len(routes) > k:
            ctx.report(f"{name}: {len(routes)} routes returned for k = {k}", rep); return
        if len(routes) != k and not info["starts"] and not info["ends"]:
            ctx.report(f"{name}: {len(routes)} routes returned for k = {k} although empty routes are not allowed", rep); return


def e2_all(ctx, n):
    for i in range(n):
        rng = ctx.rng("zoo", i)
        name = zoo.ALL[i % len(zoo.ALL)]
        node = rng.random() < 0.3
        info = zoo.make(rng, name, node=node)
        try:
            m = zoo.construct(info)
            m.solve()
        except ValueError as e:
            ctx.dist("ValueError:" + name); continue
        except Exception as e:
            ctx.report(f"{name} raised {e!r}", {"instance": zoo.describe(info)}); continue
        ctx.case(["zoo", zoo.describe(info)], nontrivial=info["G"].number_of_edges() >= 2,
                 sample={"class": name, "node_mode": node, "edges": [list(e) for e in info["G"].edges()]})
        ctx.dist(f"{name}:{'node' if node else 'edge'}")
        if m.is_solved():
            ctx.count("E2_valid_routes", "solved")
            check_solution(ctx, info, m, m.get_solution())
        else:
            ctx.count("E2_valid_routes", "unsolved")


def e2_inner_ends(ctx, n):
    """flows / node sets built from routes that START or END at an INNER node, declared as additional starts / ends: the routes of
    every answer must then really use the declared nodes (a decomposition exists only with them), in edge and in node mode, for every
    class that takes the arguments -- the general zoo stream draws starts/ends in 30 % of 30 % of its cases only, and never needs them"""
    import networkx as nx
    names = sorted(zoo.HAS_STARTS)
    for i in range(n):
        rng = ctx.rng("inner", i)
        name = names[i % len(names)]; cyc = name.endswith("Cycles"); node = (i // len(names)) % 2 == 1
        G0 = gen.rand_cyclic(rng, nmax=6) if cyc else gen.rand_dag(rng, nmax=6)
        allp = None if cyc else gen.all_st_paths(G0)
        routes = []
        for _ in range(rng.randint(1, 3)):
            r = gen.rand_walk(rng, G0, maxlen=9) if cyc else rng.choice(allp)
            if r: routes.append(list(r))
        if not routes:
            continue
        starts, ends = [], []
        for j, r in enumerate(routes):
            if len(r) >= 3 and rng.random() < 0.75:
                if rng.random() < 0.5:
                    a = rng.randint(1, len(r) - 2); routes[j] = r = r[a:]; starts.append(r[0])
                if len(r) >= 3 and rng.random() < 0.6:
                    b = rng.randint(2, len(r) - 1); routes[j] = r = r[:b]; ends.append(r[-1])
        if not starts and not ends:
            continue
        ws = [rng.randint(1, 4) for _ in routes]
        G = nx.DiGraph(); G.graph["id"] = f"inner{i}"
        es = list(G0.edges()); rng.shuffle(es); G.add_edges_from(es)
        kw = {"additional_starts": sorted(set(starts)), "additional_ends": sorted(set(ends)), "solver_options": {"threads": zoo.THREADS}}
        if name in zoo.COVER:
            if node: kw["cover_type"] = "node"
        else:
            kw["flow_attr"] = "flow"; kw["weight_type"] = int
            if node:
                kw["flow_attr_origin"] = "node"
                for v in G.nodes(): G.nodes[v]["flow"] = 0
                for r, w in zip(routes, ws):
                    for v in r: G.nodes[v]["flow"] += w
            else:
                for e in G.edges(): G.edges[e]["flow"] = 0
                for r, w in zip(routes, ws):
                    for e in gen.pairs(r): G.edges[e]["flow"] += w
        if name in zoo.K_MODELS:
            kw["k"] = len(routes) + rng.choice([0, 1])
        info = {"class": name, "G": G, "kwargs": kw, "routes": routes, "weights": ws, "node": node, "starts": kw["additional_starts"],
                "ends": kw["additional_ends"], "ignore": [], "cons": [], "is_int": True}
        try:
            m = zoo.construct(info); m.solve()
        except ValueError:
            ctx.dist("inner ValueError:" + name); continue
        except Exception as e:
            ctx.report(f"{name} raised {e!r}", {"instance": zoo.describe(info)}); continue
        ctx.case(["inner", zoo.describe(info)], nontrivial=True, sample={"class": name, "node_mode": node, "starts": starts, "ends": ends})
        ctx.dist(f"inner {name}:{'node' if node else 'edge'}")
        if m.is_solved():
            ctx.count("E2_valid_routes", "inner_ends_solved")
            check_solution(ctx, info, m, m.get_solution())
        else:
            ctx.count("E2_valid_routes", "inner_ends_unsolved")


def e2_greedy_bound(ctx, n):
    """a k-model never returns more than k routes, also when the greedy shortcut finds more than k paths"""
    import flowpaths as fp
    for i in range(n):
        rng = ctx.rng("greedy", i)
        G, paths, ws, is_int = gen2.rand_flow_dag(rng, nmax=6, npaths=(2, 4))
        g = len(fp.stDAG(G).decompose_using_max_bottleneck("flow")[0])
        for k in sorted({max(1, g - 1), g}):
            extra = {}
            if rng.random() < 0.4:      # given weights: more candidate weights than k must still give at most k paths
                cand = sorted(set(ws)) + [ws[0] * 2, ws[0] * 3]
                extra = {"solution_weights_superset": [int(x) if is_int else float(x) for x in cand],
                         "optimization_options": {"optimize_with_greedy": False}}
            try:
                m = fp.kFlowDecomp(G, flow_attr="flow", k=k, weight_type=int if is_int else float, solver_options={"threads": zoo.THREADS}, **extra)
                m.solve()
            except Exception as e:
                ctx.report("kFlowDecomp raised " + repr(e), {"edges": [[u, v, d] for u, v, d in G.edges(data=True)], "k": k}); continue
            ctx.case(["greedy", sorted((u, v, d["flow"]) for u, v, d in G.edges(data=True)), k], nontrivial=g >= 2)
            ctx.count("E2_k_bound_with_greedy", "cases")
            if m.is_solved():
                sol = m.get_solution()
                nonempty = [p for p in sol["paths"] if p]
                if len(nonempty) > k or len(sol["paths"]) != len(sol["weights"]):
                    ctx.report(f"kFlowDecomp(k={k}) returned {len(sol['paths'])} paths / {len(sol['weights'])} weights",
                               {"edges": [[u, v, d] for u, v, d in G.edges(data=True)], "k": k, "solution": sol})


def e2_float_greedy(ctx, n):
    """kFlowDecomp with k ABOVE the number of paths needed, on exactly conserving flows whose float sums are inexact
    (trunk = 0.2 + 0.1): the greedy shortcut pads with zero-weight routes, and every returned route -- also a padded one --
    must be a source-to-sink path of the caller's graph"""
    import flowpaths as fp
    for i in range(n):
        rng = ctx.rng("floatgreedy", i)
        G, _ = gen.float_conserving_dag(rng)
        try:
            needed = len(fp.stDAG(G).decompose_using_max_bottleneck("flow")[0])
        except Exception as e:
            ctx.report("decompose_using_max_bottleneck raised " + repr(e), {"edges": [[u, v, d] for u, v, d in G.edges(data=True)]}); continue
        for k in (needed + 1, needed + 2):
            try:
                m = fp.kFlowDecomp(G, flow_attr="flow", k=k, weight_type=float, solver_options={"threads": zoo.THREADS}); m.solve()
            except Exception as e:
                ctx.report("kFlowDecomp raised " + repr(e), {"edges": [[u, v, d] for u, v, d in G.edges(data=True)], "k": k}); continue
            ctx.case(["floatgreedy", sorted((u, v, d["flow"]) for u, v, d in G.edges(data=True)), k], nontrivial=needed >= 2)
            ctx.count("E2_float_flows_k_above_needed", "cases")
            if not m.is_solved():
                continue
            sol = m.get_solution()
            for r, w in zip(sol["paths"], sol["weights"]):
                why = props.valid_route(G, r, simple=True)
                if why or w < 0:
                    ctx.report(f"kFlowDecomp(k={k}, {needed} paths suffice): returned route {r} (weight {w}) is not a source-to-sink path of the "
                               f"caller's graph: {why}", {"edges": [[u, v, d] for u, v, d in G.edges(data=True)], "k": k, "solution": sol})
                    break


VB = None


def run(ctx):
    global VB
    VB = vcheck.Batch(ctx)
    ctx.rule = ("E3a: random DAG/cyclic graphs with additional starts/ends; E3b: 0/1 layer assignments from random s-t paths of random "
                "DAGs (incl. empty layers); E1: kPathCover LPs; E2: every exported model class on random small instances (edge and "
                "node mode, ignore sets, constraints, additional starts/ends). Non-trivial: graph with >= 2 edges / path with >= 2 inner nodes.")
    e3_aug(ctx, ctx.budget(200, 5000))
    e3_decode(ctx, ctx.budget(200, 5000))
    e1_kpc(ctx, ctx.budget(60, 1500))
    e2_all(ctx, ctx.budget(240, 6000))
    e2_inner_ends(ctx, ctx.budget(110, 3000))
    e2_greedy_bound(ctx, ctx.budget(80, 2000))
    e2_float_greedy(ctx, ctx.budget(60, 1500))
    VB.flush()
    gencheck01.run_generated_c01(ctx); gencheck_enc.run_generated_kpc(ctx)      # generated-model tie: augmentation, DAG decoder, kPathCover encoder (coq/gen_proofs)
