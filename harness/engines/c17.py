"""C17 — substrate queries (reachability, antichain, bottleneck peeling) match the graph.

E3  exact-output correspondence of every public query method of stDiGraph / stDAG and of
    graphutils.max_bottleneck_path / stDAG.decompose_using_max_bottleneck with the extracted Gallina
    models (Reach.v, Peel.v); what networkx contributes (condensation mapping / edges, topological orders,
    adjacency orders) is read off the implementation's objects, handed to the model and validated there by
    the verified checkers cond_ok / dag_topo_ok / peel_inputs_ok.
E4  query histories (warm / cold caches, several graph objects interleaved, caller-side mutation of
    returned sets) against the cache machine Reach.qrun and against cold answers.
E2  compute_max_edge_antichain / get_width: verified antichain checker, weight = reported optimum,
    exhaustive maximum, and a cover of equal size (certificate_ok => optimum of the instance proved).
The property itself is evaluated on the implementation's output of every case by a plain graph search
written here (independent of the model), so a failure is a concrete input."""
import collections, itertools
import networkx as nx
import common, gen
import gencheck01

LEVEL = "proof"
EXPLANATION = (
    "Props/C17.v (25 theorems, closed): closure decides reachability; the models of nodes_reachable / nodes_reaching / "
    "is_scc_edge / compute_edge_max_reachable_value (through the condensation, pull and push DPs) equal the declarative "
    "reachability sets / maximum, premised only on the verified checker cond_ok of networkx' condensation outputs; the stDAG "
    "set DPs likewise (dag_topo_ok); cache machine: every answer of EVERY query sequence of the code as it is equals the cold "
    "answer, caller-side mutation attempts included (C17_cache_coherent_full_statement; returned sets are immutable since /repo "
    "a35dc8c; C17_cache_alias_refuted documents the old behaviour under the switch alias = true); antichain_ok decides pairwise "
    "unreachability and implies the antichain property for all walks, weighted weak duality, certificate_opt / "
    "certificate_ok_opt; max_bottleneck DP sound and complete (for either setting of the old-behaviour switch keyerr), greedy "
    "peeling of the code as it is terminates within #positive edges rounds on EVERY DAG (a graph without edges gives ([], [])) "
    "and explains the flow on every edge. Tie: E3/E4/E2 as described in the module docstring. Not modelled: networkx "
    "condensation / topological_sort / network_simplex (their outputs are validated per instance or certified).")
ASSUMPTIONS = [
    "networkx condensation / topological_sort outputs are taken from the implementation's objects and validated per instance by the verified checkers cond_ok / dag_topo_ok / peel_inputs_ok (a failing checker is reported)",
    "network_simplex is external: compute_max_edge_antichain is certified per sampled instance (antichain_ok + cover of equal size), not proved for all inputs",
    "edge weights are integers (incl. 0 and 2^40) or dyadic (k/8, compared with the model after scaling): Python's arithmetic is exact on them; inexact float flows (0.1, 0.2 + 0.1, ...) are only evaluated directly (tolerance 1e-9 * max flow), never compared with the integer model",
    "node names are interned to integers by position in list(G.nodes())",
]
TRUSTED = ["models: coq/theories/Reach.v, Peel.v, Cover.v; proofs ReachProofs1-4.v, PeelProofs1-3.v, CoverProofs.v",
           "driver coq/driver/h_substrate.ml (parsing/printing)",
           "the plain BFS / brute-force evaluators of the property in harness/engines/c17.py"]

BIG = 2 ** 40
# The five findings of the first round (mutable cache objects handed out by stDiGraph / stDAG, KeyError on a graph without
# edges, optimum >= 2^32, empty weight dict) are fixed in /repo (a35dc8c, 6d36e70, f6bbb4a, 5b604ee): they are ordinary
# cases now and a regression of any of them is a plain VIOLATION.


# ----------------------------------------------------------------------------- plain graph search
def bfs(adj, v):
    seen = {v}; st = [v]
    while st:
        x = st.pop()
        for y in adj.get(x, ()):
            if y not in seen:
                seen.add(y); st.append(y)
    return seen


def adjacency(edges):
    f = collections.defaultdict(list); b = collections.defaultdict(list)
    for u, v in edges:
        f[u].append(v); b[v].append(u)
    return f, b


def weights_for(rng, edges, style):
    w = {}
    for e in edges:
        r = rng.random()
        if style == "zero":
            w[e] = 0
        elif style == "big":
            w[e] = rng.choice([0, 1, BIG, BIG + rng.randint(1, 5), BIG - 1, rng.randint(1, 6)])
        else:
            w[e] = rng.choice([0, 0, 1, 2, 3, 4, 5, 6, 7, 9])
        if style != "zero" and r < 0.1:
            w.pop(e)                                   # edge without the attribute
    return w


def rand_graph(rng, cyclic):
    """DAG / cyclic digraph in which every node is on a source-to-sink walk / digraph with strongly connected parts that no
    source reaches or that reach no sink; node names mimic internally derived names in 40% of the cases."""
    if cyclic:
        G = gen.rand_digraph_free(rng, nmax=rng.choice([3, 4, 5])) if rng.random() < 0.45 else gen.rand_cyclic(rng, nmax=rng.choice([3, 5, 7]))
    else:
        G = gen.rand_dag(rng, nmax=rng.choice([3, 5, 6, 7]))
    return gen.mimic_names(rng, G, p=0.4)


def rand_dag_named(rng, nmax):
    return gen.mimic_names(rng, gen.rand_dag(rng, nmax=nmax), p=0.5)


def exc_kind(e):
    return type(e).__name__


# ----------------------------------------------------------------------------- E3 stDiGraph
def sdg_inputs(st, ids):
    V = [ids[v] for v in st.nodes()]
    E = [[ids[u], ids[v]] for u, v in st.edges()]
    C = st._condensation
    m = [[ids[v], c] for v, c in C.graph["mapping"].items()]
    ce = [[a, b] for a, b in C.edges()]
    topo = list(nx.topological_sort(C))
    return V, E, m, ce, topo


def tok_graph(V, E, m, ce, topo):
    return [len(V), V, len(E), E, len(m), m, len(ce), ce, len(topo), topo]


def parse_nodes(tok, names):
    if tok == "E":
        return "ValueError"
    body = tok[2:]
    return sorted({names[int(x)] for x in body.split(",")}) if body else []        # set semantics


def run_sdg(ctx, n):
    import flowpaths as fp
    reqs = []; meta = []
    for i in range(n):
        rng = ctx.rng("sdg", i)
        cyclic = rng.random() < 0.7
        G = rand_graph(rng, cyclic)
        style = rng.choice(["small", "small", "big", "zero"])
        w = weights_for(rng, list(G.edges()), style)
        for (u, v), x in w.items():
            G[u][v]["flow"] = x
        nodes = list(G.nodes())
        starts = [rng.choice(nodes)] if rng.random() < 0.2 else None
        ends = [rng.choice(nodes)] if rng.random() < 0.2 else None
        try:
            st = fp.stDiGraph(G, additional_starts=starts, additional_ends=ends)
        except ValueError:
            continue
        names = list(st.nodes()); ids = {v: j for j, v in enumerate(names)}
        V, E, m, ce, topo = sdg_inputs(st, ids)
        W = [[ids[u], ids[v], d["flow"]] for u, v, d in st.edges(data=True) if "flow" in d]
        xn = [len(names) + 3]
        non_edges = [(a, b) for a in names for b in names if not st.has_edge(a, b)]
        xp = [list(map(ids.get, rng.choice(non_edges)))] if non_edges else []
        xp_names = [(names[a], names[b]) for a, b in xp]
        reqs.append("sdg " + common.toks(tok_graph(V, E, m, ce, topo), len(W), W, len(xn), xn, len(xp), xp))
        # ---- implementation: first (cold) query per node / edge on this object
        impl = {"reach": {}, "reaching": {}, "scc": {}, "max": None, "xnode": None, "xpair": []}
        err = None
        try:
            for v in names:
                impl["reach"][v] = sorted(st.nodes_reachable(v))
                impl["reaching"][v] = sorted(st.nodes_reaching(v))
            for (u, v) in st.edges():
                impl["scc"][(u, v)] = st.is_scc_edge(u, v)
            impl["max"] = st.compute_edge_max_reachable_value("flow")
        except Exception as e:
            err = repr(e)
        try:
            st.nodes_reachable("no such node"); impl["xnode"] = "returned"
        except Exception as e:
            impl["xnode"] = exc_kind(e)
        try:
            st.nodes_reaching("no such node"); impl["xnode2"] = "returned"
        except Exception as e:
            impl["xnode2"] = exc_kind(e)
        for (a, b) in xp_names:
            try:
                st.is_scc_edge(a, b); impl["xpair"].append("returned")
            except Exception as e:
                impl["xpair"].append(exc_kind(e))
        meta.append((i, G, st, names, ids, impl, err, cyclic, style, xp_names))
    outs = ctx.model.run(reqs)
    for req, out, (i, G, st, names, ids, impl, err, cyclic, style, xp_names) in zip(reqs, outs, meta):
        edges = list(st.edges())
        replay = {"kind": "sdg", "edges": [[u, v, G[u][v].get("flow")] for u, v in G.edges()], "nodes": list(G.nodes()),
                  "starts": sorted(st.additional_starts), "ends": sorted(st.additional_ends), "model": out}
        nscc = st._condensation.number_of_nodes()
        ctx.case(["sdg", sorted([ids[u], ids[v], d.get("flow", -1)] for u, v, d in st.edges(data=True))],
                 nontrivial=len(edges) >= 4 and (nscc < len(names) or not cyclic),
                 sample={"kind": "stDiGraph", "edges": replay["edges"], "max": None if impl["max"] is None else sorted(map(str, impl["max"].items()))[:4]})
        ctx.dist(f"sdg:{'cyclic' if nscc < len(names) else 'acyclic'}:{style}")
        ctx.count("E3_stDiGraph", "cases")
        if err is not None:
            ctx.report("stDiGraph query raised " + err, replay, concrete=True); continue
        # ---- the property, directly on the implementation's output
        f, b = adjacency(edges)
        truth_r = {v: sorted(bfs(f, v)) for v in names}; truth_b = {v: sorted(bfs(b, v)) for v in names}
        bad = None
        for v in names:
            if impl["reach"][v] != truth_r[v]: bad = f"nodes_reachable({v}) = {impl['reach'][v]}, graph search gives {truth_r[v]}"
            if impl["reaching"][v] != truth_b[v]: bad = f"nodes_reaching({v}) = {impl['reaching'][v]}, graph search gives {truth_b[v]}"
        for (u, v) in edges:
            if impl["scc"][(u, v)] != (u in truth_r[v]): bad = f"is_scc_edge({u},{v}) = {impl['scc'][(u, v)]}, but {'v reaches u' if u in truth_r[v] else 'v does not reach u'}"
        wt = {(u, v): d.get("flow", 0) for u, v, d in st.edges(data=True)}
        truth_max = {}
        for (u, v) in edges:
            fr = set(truth_r[v]); bk = set(truth_b[u])
            cand = [wt[(u, v)]] + [wt[e] for e in edges if e[0] in fr] + [wt[e] for e in edges if e[1] in bk]
            truth_max[(u, v)] = max(cand)
            got = impl["max"].get((u, v))
            if got is None or got != truth_max[(u, v)] or set(impl["max"]) != set(edges):
                bad = f"compute_edge_max_reachable_value[({u},{v})] = {got}, maximum over the reachable edge set is {truth_max[(u, v)]}"
        if impl["xnode"] != "ValueError" or impl["xnode2"] != "ValueError" or any(x != "ValueError" for x in impl["xpair"]):
            bad = f"query about an absent node/edge: {impl['xnode']}, {impl['xnode2']}, {impl['xpair']} (ValueError expected)"
        if bad:
            ctx.report("stDiGraph substrate query does not match the graph: " + bad, replay, concrete=True); continue
        ctx.count("E2_property_on_impl_output", "stDiGraph")
        # ---- the model
        if not out.startswith("OK"):
            ctx.report("model error on stDiGraph case: " + out, replay, concrete=False); continue
        parts = [p.strip() for p in out[3:].split("|")]
        if parts[0] != "1":
            ctx.report("verified checker cond_ok rejects networkx' condensation (mapping / edges / topological order) of this graph", replay, concrete=False); continue
        mr = parts[1].split(); mb = parts[2].split(); ms = parts[3].split(); mm = parts[4].split()
        agree = True
        for j, v in enumerate(names):
            agree &= parse_nodes(mr[j], names) == impl["reach"][v] and parse_nodes(mb[j], names) == impl["reaching"][v]
        agree &= mr[len(names)] == "E" and mb[len(names)] == "E"
        for j, e in enumerate(edges):
            agree &= (ms[j] == "1") == impl["scc"][e] and int(mm[j]) == impl["max"][e]
        agree &= all(x == "E" for x in ms[len(edges):])
        if agree:
            ctx.count("E3_stDiGraph", "agreements")
        else:
            ctx.count("E3_stDiGraph", "disagreements")
            ctx.report(f"E3 correspondence broken: stDiGraph queries differ from the Reach.v model (case {i})", replay, concrete=False)


# ----------------------------------------------------------------------------- E3 stDAG dict properties
def run_dag_sets(ctx, n):
    import flowpaths as fp
    reqs = []; meta = []
    for i in range(n):
        rng = ctx.rng("dagsets", i)
        G = rand_dag_named(rng, rng.choice([3, 5, 6, 7]))
        nodes = list(G.nodes())
        starts = [rng.choice(nodes)] if rng.random() < 0.2 else None
        ends = [rng.choice(nodes)] if rng.random() < 0.2 else None
        st = fp.stDAG(G, additional_starts=starts, additional_ends=ends)
        names = list(st.nodes()); ids = {v: j for j, v in enumerate(names)}
        V = [ids[v] for v in names]; E = [[ids[u], ids[v]] for u, v in st.edges()]
        topo = [ids[v] for v in st.topological_order]
        reqs.append("dag " + common.toks(len(V), V, len(E), E, len(topo), topo))
        order = rng.sample(range(4), 4)                    # the four properties are evaluated in a random order
        props = ["reachable_nodes_from", "nodes_reaching", "reachable_edges_from", "reachable_edges_rev_from"]
        impl = {}
        for k in order:
            d = getattr(st, props[k])
            impl[props[k]] = {v: (sorted(d[v]) if k < 2 else sorted(map(tuple, d[v]))) for v in names}
        meta.append((i, G, st, names, ids, impl, starts, ends))
    outs = ctx.model.run(reqs)
    for out, (i, G, st, names, ids, impl, starts, ends) in zip(outs, meta):
        edges = list(st.edges())
        replay = {"kind": "dagsets", "edges": [list(e) for e in G.edges()], "nodes": list(G.nodes()), "starts": starts, "ends": ends, "model": out}
        ctx.case(["dagsets", sorted([ids[u], ids[v]] for u, v in edges)], nontrivial=len(edges) >= 5,
                 sample={"kind": "stDAG sets", "edges": replay["edges"]})
        ctx.dist(f"dagsets:edges<={4 * (len(edges) // 4 + 1)}")
        ctx.count("E3_stDAG_sets", "cases")
        f, b = adjacency(edges)
        bad = None
        for v in names:
            R = bfs(f, v); B = bfs(b, v)
            want = {"reachable_nodes_from": sorted(R), "nodes_reaching": sorted(B),
                    "reachable_edges_from": sorted(e for e in edges if e[0] in R),
                    "reachable_edges_rev_from": sorted(e for e in edges if e[1] in B)}
            for k, wv in want.items():
                if impl[k][v] != wv:
                    bad = f"{k}[{v}] = {impl[k][v]}, graph search gives {wv}"
        if bad:
            ctx.report("stDAG reachability property does not match the graph: " + bad, replay, concrete=True); continue
        ctx.count("E2_property_on_impl_output", "stDAG_sets")
        parts = [p.strip() for p in out[3:].split("|")] if out.startswith("OK") else None
        if parts is None or parts[0] != "1":
            ctx.report("verified checker dag_topo_ok rejects the implementation's topological_order / model error: " + out[:80], replay, concrete=False); continue
        agree = True
        for tok, v in zip(parts[1].split(), st.topological_order):
            a, bb, c, d = tok.split(";")
            pn = lambda s: sorted(names[int(x)] for x in s.split(",")) if s else []
            pe = lambda s: sorted(tuple(names[int(x)] for x in q.split(">")) for q in s.split(",")) if s else []
            agree &= pn(a) == impl["reachable_nodes_from"][v] and pn(bb) == impl["nodes_reaching"][v]
            agree &= pe(c) == impl["reachable_edges_from"][v] and pe(d) == impl["reachable_edges_rev_from"][v]
        if agree:
            ctx.count("E3_stDAG_sets", "agreements")
        else:
            ctx.count("E3_stDAG_sets", "disagreements")
            ctx.report(f"E3 correspondence broken: stDAG reachability dicts differ from the Reach.v DP model (case {i})", replay, concrete=False)


# ----------------------------------------------------------------------------- E4 histories
def run_histories(ctx, n, mutate):
    """Several stDiGraph objects, one interleaved op sequence.  mutate=False: plain query sequences (every answer
    must be the cold answer).  mutate=True: the caller also mutates sets it was handed."""
    import flowpaths as fp
    stream = "hist_mut" if mutate else "hist"
    reqs = []; meta = []
    for i in range(n):
        rng = ctx.rng(stream, i)
        objs = []
        for _ in range(rng.choice([1, 2, 3])):
            G = rand_graph(rng, rng.random() < 0.75)
            for e in G.edges():
                G.edges[e]["flow"] = rng.choice([0, 1, 2, 5, BIG])
            try:
                st = fp.stDiGraph(G)
            except ValueError:
                continue
            names = list(st.nodes())
            objs.append({"G": G, "st": st, "names": names, "ids": {v: j for j, v in enumerate(names)}, "qs": [], "impl": [],
                         "cold": [], "held": {}, "mutated": False})
        if not objs:
            continue
        nops = rng.randint(4, 14)
        for _ in range(nops):
            o = rng.choice(objs); st = o["st"]; names = o["names"]; ids = o["ids"]
            r = rng.random()
            hot = [k for k in o["held"]]
            if mutate and hot and r < 0.3:
                fwd, v = rng.choice(sorted(hot)); x = rng.choice(names); add = rng.random() < 0.6
                s = o["held"][(fwd, v)]
                try:
                    (s.add if add else s.discard)(x)       # must be impossible: the object handed out is immutable
                    did = "U"; o["mutated"] = True
                except (AttributeError, TypeError):
                    did = "R"; ctx.count("E4_histories", "mutation_refused")
                o["qs"].append([3, int(fwd), int(add), ids[v], ids[x]]); o["impl"].append(did); o["cold"].append("R")
                # ... and the very next answer for that node must still be the cold one
                got = sorted(st.nodes_reachable(v) if fwd else st.nodes_reaching(v))
                adj = adjacency(list(st.edges()))[0 if fwd else 1]
                o["qs"].append([0 if fwd else 1, ids[v]]); o["impl"].append(got); o["cold"].append(sorted(bfs(adj, v)))
            elif r < 0.55 or (r < 0.7 and hot):
                v = rng.choice(sorted(v for _, v in hot)) if (hot and rng.random() < 0.5) else rng.choice(names + ["absent"])
                fwd = rng.random() < 0.5
                try:
                    s = st.nodes_reachable(v) if fwd else st.nodes_reaching(v)
                    o["held"][(fwd, v)] = s
                    got = sorted(s)
                except ValueError:
                    got = "ValueError"
                adj = adjacency(list(st.edges()))[0 if fwd else 1]
                cold = sorted(bfs(adj, v)) if v in ids else "ValueError"
                o["qs"].append([0 if fwd else 1, ids.get(v, len(names) + 5)]); o["impl"].append(got); o["cold"].append(cold)
            elif r < 0.85:
                if rng.random() < 0.85:
                    u, v = rng.choice(list(st.edges()))
                else:
                    u, v = rng.choice(names), rng.choice(names)
                try:
                    got = st.is_scc_edge(u, v)
                except ValueError:
                    got = "ValueError"
                cold = (u in bfs(adjacency(list(st.edges()))[0], v)) if st.has_edge(u, v) else "ValueError"
                o["qs"].append([2, ids[u], ids[v]]); o["impl"].append(got); o["cold"].append(cold)
            else:
                # pure query interleaved: must equal a fresh object's answer
                got = st.compute_edge_max_reachable_value("flow")
                fresh = fp.stDiGraph(o["G"]).compute_edge_max_reachable_value("flow")
                st2 = fp.stDiGraph(o["G"]); fresh = st2.compute_edge_max_reachable_value("flow")
                strip = lambda d, g: sorted((("<S>" if a == g.source else a, "<T>" if b == g.sink else b), x) for (a, b), x in d.items())
                if strip(got, st) != strip(fresh, st2):
                    ctx.report("compute_edge_max_reachable_value differs between a used and a fresh stDiGraph object",
                               {"kind": "hist", "edges": [list(e) for e in o["G"].edges()]}, concrete=True)
                w1 = st.get_width(); w2 = fp.stDiGraph(o["G"]).get_width()
                if w1 != w2:
                    ctx.report(f"get_width() differs between a used ({w1}) and a fresh ({w2}) stDiGraph object",
                               {"kind": "hist", "edges": [list(e) for e in o["G"].edges()]}, concrete=True)
        for o in objs:
            if not o["qs"]:
                continue
            st = o["st"]; ids = o["ids"]
            V, E, m, ce, topo = sdg_inputs(st, ids)
            for alias in (0,):                                     # code_alias = false: the code as it is
                reqs.append("sdgq " + common.toks(tok_graph(V, E, m, ce, topo), alias, len(o["qs"]), o["qs"]))
                meta.append((i, o, alias))
    outs = ctx.model.run(reqs)
    res = {}
    for out, (i, o, alias) in zip(outs, meta):
        res.setdefault(id(o), {"i": i, "o": o})[alias] = out
    for r in res.values():
        o = r["o"]; names = o["names"]; i = r["i"]
        replay = {"kind": stream, "edges": [list(e) for e in o["G"].edges()], "nodes": list(o["G"].nodes()),
                  "ops": o["qs"], "impl": o["impl"], "cold": o["cold"], "model": r.get(0)}
        ctx.case([stream, sorted([o["ids"][u], o["ids"][v]] for u, v in o["st"].edges()), o["qs"]],
                 nontrivial=len(o["qs"]) >= 3,
                 sample={"kind": stream, "ops": o["qs"][:6], "answers": [str(a)[:40] for a in o["impl"][:6]]})
        ctx.dist(f"{stream}:ops<={5 * (len(o['qs']) // 5 + 1)}")
        ctx.count("E4_histories", "sequences")

        def parse(out):
            if out is None or not out.startswith("OK"):
                return None
            head, body = out[3:].split("|", 1)
            if head.strip() != "1":
                return None
            res_ = []
            for tok in body.split():
                if tok.startswith("N:"): res_.append(parse_nodes(tok, names))
                elif tok.startswith("B:"): res_.append(tok == "B:1")
                elif tok == "E": res_.append("ValueError")
                else: res_.append(tok)                                  # "R" refused / "U" mutated
            return res_
        m = parse(r.get(0))
        if m is None:
            ctx.report("model error / cond_ok rejected in a history case", replay, concrete=False); continue
        if m != o["cold"]:
            ctx.report("the cache-machine model (code_alias) disagrees with the plain graph search (model/harness mismatch)", replay, concrete=False); continue
        isq = [q[0] != 3 for q in o["qs"]]
        wrong = [j for j, (a, c) in enumerate(zip(o["impl"], o["cold"])) if isq[j] and a != c]
        if wrong:
            k = wrong[0]
            what = (f"query #{k} {o['qs'][k]} answered {o['impl'][k]} but the cold answer / graph search is {o['cold'][k]} "
                    f"(sequence of {len(o['qs'])} operations on one stDiGraph object"
                    + ("; the caller had mutated a set returned earlier)" if o["mutated"] else ")"))
            ctx.report("query history: an answer differs from the cold answer: " + what, replay, concrete=True)
        elif o["impl"] != o["cold"]:
            ctx.count("E4_histories", "disagreements")
            ctx.report("E4 correspondence broken: the caller could mutate a set returned by nodes_reachable / nodes_reaching (the model refuses); "
                       "no later answer changed in this sequence", replay, concrete=False)
        else:
            ctx.count("E4_histories", "agreements")


def run_dag_histories(ctx, n):
    """stDAG dict properties: random access order, repeated access, caller-side mutation of returned sets."""
    import flowpaths as fp
    props = ["reachable_nodes_from", "nodes_reaching", "reachable_edges_from", "reachable_edges_rev_from"]
    for i in range(n):
        rng = ctx.rng("daghist", i)
        G = rand_dag_named(rng, rng.choice([3, 5, 6]))
        st = fp.stDAG(G); names = list(st.nodes()); edges = list(st.edges())
        f, b = adjacency(edges)
        def cold(k, v):
            R = bfs(f, v) if k in (0, 2) else bfs(b, v)
            return sorted(R) if k < 2 else sorted(e for e in edges if (e[0] if k == 2 else e[1]) in R)
        mutate = rng.random() < 0.5
        touched = False; bad = None; ops = []
        for _ in range(rng.randint(3, 10)):
            k = rng.randrange(4); v = rng.choice(names)
            s = getattr(st, props[k])[v]
            got = sorted(s)
            ops.append([props[k], v])
            if got != cold(k, v) and bad is None:
                bad = f"{props[k]}[{v}] = {got}, cold answer / graph search {cold(k, v)} (operation #{len(ops)})"
            if mutate and rng.random() < 0.4:
                x = rng.choice(names) if k < 2 else rng.choice(edges)
                try:
                    if rng.random() < 0.25:
                        getattr(st, props[k])[v] = set()               # the dict itself
                    else:
                        (s.add if rng.random() < 0.6 else s.discard)(x)
                    touched = True
                except (AttributeError, TypeError):
                    ctx.count("E4_histories", "stDAG_mutation_refused")
                ops.append(["caller tries to mutate the returned set / dict", str(x)])
                got = sorted(getattr(st, props[k])[v])                 # the next answer must still be the cold one
                if got != cold(k, v) and bad is None:
                    bad = f"{props[k]}[{v}] = {got} after the caller mutated the returned object, cold answer / graph search {cold(k, v)}"
        ctx.case(["daghist", sorted(map(list, G.edges())), ops], nontrivial=len(ops) >= 4, sample=None)
        ctx.count("E4_histories", "stDAG_sequences")
        replay = {"kind": "daghist", "edges": [list(e) for e in G.edges()], "ops": ops}
        if bad:
            ctx.report("stDAG reachability answer differs from the cold answer: " + bad, replay, concrete=True)
        elif touched:
            ctx.report("the caller could mutate a set / the dict returned by a stDAG reachability property (no later answer changed in this sequence)",
                       replay, concrete=False)


# ----------------------------------------------------------------------------- E3 bottleneck path and peeling
def flow_graph(rng, conserving, pool=None):
    G = rand_dag_named(rng, rng.choice([3, 5, 6, 7]))
    big = rng.random() < 0.25 and pool is None
    if conserving:
        for e in G.edges(): G.edges[e]["flow"] = 0
        paths = gen.all_st_paths(G)
        for _ in range(rng.choice([0, 1, 2, 3, 4])):
            p = rng.choice(paths); w = rng.choice(pool or ([1, 2, 3, 4, 5, 6] + ([BIG, BIG + 1] if big else [])))
            for e in gen.pairs(p): G.edges[e]["flow"] += w
    else:
        for e in G.edges(): G.edges[e]["flow"] = rng.choice([0, 0] + (pool or ([1, 2, 3, 5, 7] + ([BIG] if big else []))))
    if rng.random() < 0.15:
        G.add_node("iso")
    return G


def scaled_flow_graph(rng, conserving):
    """The scale family: an integer instance multiplied by a tiny unit - 2^-40 or 2^-30 (floats: dyadic scaling keeps every
    sum, min and difference exact), Fraction(1, 10^12) (exact rationals) - and mixed magnitudes (routes of weight 1 or 2 next to
    routes of weight 2^-40, 3 * 2^-40).  Returns (G, kind, scale) with flow * scale an integer (what the model sees)."""
    from fractions import Fraction
    kind = rng.choice(["2^-40", "2^-40", "2^-30", "1/10^12", "mixed", "mixed"])
    if kind == "mixed":
        G = flow_graph(rng, conserving, pool=[1, 3, 2 ** 40, 2 * 2 ** 40]); unit = 2.0 ** -40; scale = 2 ** 40
    elif kind == "1/10^12":
        G = flow_graph(rng, conserving, pool=[1, 2, 3, 4, 5, 6]); unit = Fraction(1, 10 ** 12); scale = 10 ** 12
    else:
        k = 40 if kind == "2^-40" else 30
        G = flow_graph(rng, conserving, pool=[1, 2, 3, 4, 5, 6]); unit = 2.0 ** -k; scale = 2 ** k
    for e in G.edges(): G.edges[e]["flow"] = G.edges[e]["flow"] * unit
    return G, kind, scale


def structure(H, ids, flow_attr="flow", scale=1):
    W = [[ids[u], ids[v], int(d[flow_attr] * scale)] for u, v, d in H.edges(data=True)]
    P = [[ids[v], len(list(H.predecessors(v))), [ids[u] for u in H.predecessors(v)]] for v in H.nodes() if H.in_degree(v) > 0]
    S = [[ids[v], len(list(H.successors(v))), [ids[u] for u in H.successors(v)]] for v in H.nodes() if H.out_degree(v) > 0]
    topo = [ids[v] for v in nx.topological_sort(H)]
    return [len(W), W, len(P), P, len(S), S, len(topo), topo]


def best_bottleneck(H):
    best = 0
    for p in gen.all_st_paths(H):
        if len(p) >= 2:
            best = max(best, min(H.edges[e]["flow"] for e in gen.pairs(p)))
    return best


def run_bottleneck(ctx, n):
    from flowpaths.utils import graphutils
    reqs = []; meta = []
    for i in range(n):
        rng = ctx.rng("mbp", i)
        scale = 1; skind = "int"
        if rng.random() < 0.25:
            G, skind, scale = scaled_flow_graph(rng, conserving=rng.random() < 0.4)
        else:
            G = flow_graph(rng, conserving=rng.random() < 0.4)
        if rng.random() < 0.04:
            G = nx.DiGraph(); G.add_nodes_from(["a", "b"][:rng.choice([1, 2])])
        names = list(G.nodes()); ids = {v: j for j, v in enumerate(names)}
        reqs.append("mbp " + common.toks(structure(G, ids, scale=scale)))
        try:
            got = graphutils.max_bottleneck_path(G, "flow")
        except Exception as e:
            got = exc_kind(e)
        meta.append((i, G, names, ids, got, scale, skind))
    outs = ctx.model.run(reqs)
    for out, (i, G, names, ids, got, scale, skind) in zip(outs, meta):
        replay = {"kind": "mbp", "nodes": names, "edges": [[u, v, d["flow"]] for u, v, d in G.edges(data=True)], "impl": str(got), "model": out, "flow_kind": skind}
        ctx.case(["mbp", sorted([ids[u], ids[v], repr(d["flow"])] for u, v, d in G.edges(data=True))], nontrivial=G.number_of_edges() >= 4,
                 sample={"kind": "max_bottleneck_path", "edges": replay["edges"], "impl": str(got)})
        ctx.dist("mbp:" + ("noedges" if G.number_of_edges() == 0 else skind if skind != "int" else "big" if any(d["flow"] >= BIG for _, _, d in G.edges(data=True)) else "small"))
        ctx.count("E3_max_bottleneck_path", "cases")
        # ---- property on the implementation's output
        if G.number_of_edges() == 0:
            if got != (None, None):
                ctx.report(f"max_bottleneck_path on a graph without edges: {got} instead of (None, None)", replay, concrete=True); continue
            ctx.count("E2_property_on_impl_output", "max_bottleneck_path")
        else:
            best = best_bottleneck(G)
            ok = True
            if isinstance(got, str):
                ok = False
            elif got == (None, None):
                ok = best == 0
            else:
                bt, p = got
                ok = (len(p) >= 2 and all(G.has_edge(*e) for e in gen.pairs(p)) and G.in_degree(p[0]) == 0 and G.out_degree(p[-1]) == 0
                      and bt == min(G.edges[e]["flow"] for e in gen.pairs(p)) and bt == best and bt > 0)
            if not ok:
                ctx.report(f"max_bottleneck_path returned {got}; the best source-to-sink bottleneck is {best}", replay, concrete=True); continue
            ctx.count("E2_property_on_impl_output", "max_bottleneck_path")
        # ---- the model
        head, _, body = out.partition("|")
        body = body.strip()
        if not head.startswith("OK 1"):
            ctx.report("peel_inputs_ok rejects the structure read off networkx / model error: " + out[:80], replay, concrete=False); continue
        if body == "NOSINK": mod = "KeyError"
        elif body == "NOPATH": mod = (None, None)
        else:
            t = body.split(); mod = (int(t[1]), [names[int(x)] for x in t[2:]])
        if isinstance(got, tuple) and got[0] is not None:
            got = (got[0] * scale, got[1])                                  # exact: the unit is dyadic / rational
        if mod == got:
            ctx.count("E3_max_bottleneck_path", "agreements")
        else:
            ctx.count("E3_max_bottleneck_path", "disagreements")
            ctx.report(f"E3 correspondence broken: max_bottleneck_path returned {got}, model {mod} (case {i})", replay, concrete=False)


class _TooManyRounds(Exception):
    pass


def peeling_clause(G, before, got, conserving, exact):
    """C17's peeling clause evaluated DIRECTLY on the implementation's output, against the ORIGINAL graph G:
    every path runs along edges of G from a node without in-edges to a node without out-edges, one positive weight per
    path, at most #positive-edges paths, no edge explained beyond its flow and - for a conserving flow - every edge's
    flow equals the summed weights (exactly for ints / dyadic values, within 1e-9 * scale for general floats).
    Returns None or a description of the failure."""
    if isinstance(got, str):
        return "raised " + got
    paths, ws = got
    if len(paths) != len(ws):
        return f"{len(paths)} paths but {len(ws)} weights"
    npos = sum(1 for x in before.values() if x > 0)
    scale = max([1e-300] + [abs(x) for x in before.values()])
    tol = 0 if exact else 1e-9 * scale
    expl = collections.Counter()
    for p, w in zip(paths, ws):
        if len(p) < 2: return f"path {p} has no edge"
        for e in gen.pairs(p):
            if not G.has_edge(*e): return f"{e} in path {p} is not an edge of the graph"
            expl[e] += w
        if G.in_degree(p[0]) != 0: return f"path {p} starts at {p[0]}, which has incoming edges in the graph"
        if G.out_degree(p[-1]) != 0: return f"path {p} ends at {p[-1]}, which has outgoing edges in the graph"
        if not w > 0: return f"path {p} has weight {w}"
    if len(paths) > npos: return f"{len(paths)} paths for {npos} edges with positive flow"
    for e, x in before.items():
        if expl[e] > x + tol: return f"edge {e} with flow {x} is explained {expl[e]} times"
        if conserving and abs(expl[e] - x) > tol: return f"edge {e}: flow {x}, summed path weights {expl[e]}"
    if exact and not conserving:
        # completeness (C17_max_bottleneck_complete): the loop may stop only when no source-to-sink path with positive residual flow is left
        for p in gen.all_st_paths(G):
            if len(p) >= 2 and all(before[e] - expl[e] > 0 for e in gen.pairs(p)):
                return f"peeling stopped although the path {p} still has positive residual flow on every edge"
    return None


def run_peeling(ctx, n):
    import flowpaths as fp
    from flowpaths.utils import graphutils
    reqs = []; meta = []
    orig = graphutils.max_bottleneck_path
    for i in range(n):
        rng = ctx.rng("peel", i)
        r = rng.random()
        scale = 1                                       # model sees flow * scale (integers)
        if r < 0.22:
            kind = "float"; G, _ = gen.float_conserving_dag(rng); conserving = True; scale = None
        elif r < 0.32:
            kind = "dyadic"; conserving = rng.random() < 0.8; G = flow_graph(rng, conserving); scale = 8
            for e in G.edges(): G.edges[e]["flow"] = G.edges[e]["flow"] / 8
        elif r < 0.52:
            conserving = rng.random() < 0.85
            G, kind, scale = scaled_flow_graph(rng, conserving); kind = "scaled " + kind
        else:
            conserving = rng.random() < 0.72
            kind = "int" if conserving else "int-nonconserving"
            G = flow_graph(rng, conserving)
        if rng.random() < 0.04:
            G = nx.DiGraph(); G.add_nodes_from(["a", "b"][:rng.choice([1, 2])]); conserving = True; kind = "noedges"; scale = 1
        before = {(u, v): d["flow"] for u, v, d in G.edges(data=True)}
        st = fp.stDAG(G)
        calls = []; rounds = [0]
        limit = sum(1 for x in before.values() if x > 0) + 3          # theorem: at most #positive edges rounds
        def spy(H, attr, calls=calls, rounds=rounds, limit=limit):
            if not calls:
                calls.append((list(H.nodes()), H.copy()))
            rounds[0] += 1
            if rounds[0] > limit:
                raise _TooManyRounds(f"more than {limit} rounds")
            return orig(H, attr)
        graphutils.max_bottleneck_path = spy
        try:
            got = st.decompose_using_max_bottleneck("flow")
        except Exception as e:
            got = exc_kind(e)
        finally:
            graphutils.max_bottleneck_path = orig
        if not calls:
            ctx.report("decompose_using_max_bottleneck did not call graphutils.max_bottleneck_path (harness cannot observe the structure)",
                       {"kind": "peel"}, concrete=False); continue
        names, H0 = calls[0]
        ids = {v: j for j, v in enumerate(names)}
        if scale is None:
            reqs.append("explains 0 0"); reqs.append("explains 0 0")          # inexact floats: no model
        else:
            for e in H0.edges(): H0.edges[e]["flow"] = int(H0.edges[e]["flow"] * scale)
            reqs.append("peel " + common.toks(structure(H0, ids, "flow")))          # H0's flows are already integers (flow * scale)
            if not isinstance(got, str) and all((w * scale) == int(w * scale) for w in got[1]):
                D = [[int(w * scale), len(p), [ids.get(x, 0) for x in p]] for p, w in zip(*got)]
                W = [[ids[u], ids[v], int(x * scale)] for (u, v), x in before.items()]
                reqs.append("explains " + common.toks(len(W), W, len(D), D))
            else:
                reqs.append("explains 0 0")
        meta.append((i, G, names, got, conserving, before, kind, scale))
    outs = ctx.model.run(reqs)
    for j, (i, G, names, got, conserving, before, kind, scale) in enumerate(meta):
        out = outs[2 * j]; chk = outs[2 * j + 1]
        replay = {"kind": "peel", "nodes": list(G.nodes()), "edges": [[u, v, x] for (u, v), x in before.items()], "impl": str(got), "model": out,
                  "flow_kind": kind, "conserving": conserving}
        npos = sum(1 for x in before.values() if x > 0)
        ctx.case(["peel", sorted([u, v, repr(x)] for (u, v), x in before.items())], nontrivial=npos >= 3,
                 sample={"kind": "decompose_using_max_bottleneck/" + kind, "edges": replay["edges"], "impl": str(got)[:200]})
        ctx.dist("peel:" + kind)
        ctx.count("E3_peeling", "cases")
        after = {(u, v): d["flow"] for u, v, d in G.edges(data=True)}
        if after != before:
            ctx.report("decompose_using_max_bottleneck changed the caller's graph", replay, concrete=True); continue
        if got == "_TooManyRounds":
            ctx.report(f"greedy peeling does not terminate within #positive edges ({npos}) + 1 rounds on a non-negative flow", replay, concrete=True); continue
        # ---- the property, directly on the implementation's output and the ORIGINAL graph (every case, every flow kind)
        bad = peeling_clause(G, before, got, conserving, exact=scale is not None)
        if bad is None and conserving and scale is not None and chk != "OK 1":
            bad = "the verified checker explains_ok rejects the returned decomposition"
        if bad:
            ctx.report(f"greedy peeling ({kind} flow{'' if conserving else ', not conserving'}): {bad}; returned {str(got)[:300]}", replay, concrete=True); continue
        ctx.count("E2_property_on_impl_output", "peeling" if scale is not None else "peeling_float")
        if scale is None:
            ctx.count("E3_peeling", "inexact_float_no_model"); continue
        head, _, body = out.partition("|")
        if out.startswith("KEYERROR"): mod = "KeyError"
        elif out.startswith("OUTOFFUEL"): mod = "OutOfFuel"
        elif not head.startswith("OK"): mod = "model error " + out[:60]
        else:
            mod = ([], [])
            for part in [q.strip() for q in body.split(";") if q.strip()]:
                t = part.split(); mod[1].append(int(t[0])); mod[0].append([names[int(x)] for x in t[1:]])
        if before and not head.strip().endswith("1") and not out.startswith("KEYERROR"):
            ctx.report("peel_inputs_ok rejects the structure of temp_G read off networkx", replay, concrete=False); continue
        norm = lambda r: r if isinstance(r, str) else (list(map(list, r[0])), [w * scale for w in r[1]])
        normm = lambda r: r if isinstance(r, str) else (list(map(list, r[0])), list(r[1]))
        if normm(mod) == norm(got):
            ctx.count("E3_peeling", "agreements")
        else:
            ctx.count("E3_peeling", "disagreements")
            ctx.report(f"E3 correspondence broken (the property holds on this output): decompose_using_max_bottleneck returned {got}, model {mod} "
                       f"(weights x{scale}; case {i})", replay, concrete=False)


# ----------------------------------------------------------------------------- E2 antichains and width
def brute_max_antichain(edges, weight, reach_from):
    """Exhaustive maximum-weight set of pairwise unreachable edges (branching over positive-weight edges)."""
    cand = [e for e in edges if weight.get(e, 0) > 0]
    comp = {e: {g for g in cand if g != e and (g[0] in reach_from[e[1]] or e[0] in reach_from[g[1]])} for e in cand}
    best = [0, []]
    def rec(idx, chosen, total, banned):
        if total > best[0]:
            best[0] = total; best[1] = list(chosen)
        if total + sum(weight[e] for e in cand[idx:] if e not in banned) <= best[0]:
            return
        for j in range(idx, len(cand)):
            e = cand[j]
            if e in banned: continue
            chosen.append(e)
            rec(j + 1, chosen, total + weight[e], banned | comp[e])
            chosen.pop()
    rec(0, [], 0, set())
    return best[0], best[1]


def min_cover(st, weight):
    """Untrusted search for a minimum weighted s-t path cover with edge demands `weight` (min flow with lower bounds via
    a max-flow reduction, then path decomposition).  The result is only used as a certificate checked by cover_ok."""
    s, t = st.source, st.sink
    edges = list(st.edges())
    f = collections.Counter()
    fadj, badj = adjacency(edges)
    def path_to(v, adj, goal):
        p = [v]
        while p[-1] != goal:
            p.append(adj[p[-1]][0])
        return p
    for e in edges:
        w = weight.get(e, 0)
        if w > 0:
            back = path_to(e[0], badj, s)[::-1]; fwd = path_to(e[1], fadj, t)
            for a in gen.pairs(back + fwd): f[a] += w
    R = nx.DiGraph(); R.add_nodes_from(st.nodes())
    for (u, v) in edges:
        R.add_edge(u, v)                                  # unbounded increase
        slack = f[(u, v)] - weight.get((u, v), 0)
        if slack > 0:
            R.add_edge(v, u, capacity=slack)
    try:
        val, fl = nx.maximum_flow(R, t, s)
    except Exception:
        return None
    g = collections.Counter()
    for (u, v) in edges:
        g[(u, v)] = f[(u, v)] - fl.get(v, {}).get(u, 0) + fl.get(u, {}).get(v, 0)
    P = []
    for _ in range(10000):
        p = [s]
        while p[-1] != t:
            nxt = [v for v in fadj[p[-1]] if g[(p[-1], v)] > 0]
            if not nxt: break
            p.append(nxt[0])
        if p[-1] != t: break
        b = min(g[e] for e in gen.pairs(p))
        for e in gen.pairs(p): g[e] -= b
        P.append((p, b))
    if any(x != 0 for x in g.values()):
        return None
    return P


def run_antichain(ctx, n):
    import flowpaths as fp
    reqs = []; meta = []
    for i in range(n):
        rng = ctx.rng("antichain", i)
        G = gen.mimic_names(rng, gen.rand_dag(rng, nmax=rng.choice([2, 3, 5, 6, 7])), p=0.6)
        for j in range(rng.choice([0, 0, 0, 1, 2])):
            G.add_node(f"iso{j}")                                          # only global source / sink edges
        nodes = list(G.nodes())
        starts = rng.sample(nodes, min(len(nodes), rng.choice([1, 2]))) if rng.random() < 0.3 else None
        ends = rng.sample(nodes, min(len(nodes), rng.choice([1, 2]))) if rng.random() < 0.3 else None
        st = fp.stDAG(G, additional_starts=starts, additional_ends=ends)
        names = list(st.nodes()); ids = {v: j for j, v in enumerate(names)}; edges = list(st.edges())
        mode = rng.choice(["default", "weights", "weights", "zero", "big", "width", "width_ignore"])
        huge = False
        if mode == "default":
            wf = None; weight = {e: int(e[0] != st.source and e[1] != st.sink) for e in edges}
            call = lambda ga: st.compute_max_edge_antichain(get_antichain=ga)
        elif mode in ("weights", "zero", "big"):
            pool = {"weights": [0, 1, 1, 2, 3, 7], "zero": [0], "big": [0, 1, 2 ** 20, 2 ** 20 + 1, 3]}[mode]
            wf = {e: rng.choice(pool) for e in edges if rng.random() < 0.8}
            if mode == "big" and rng.random() < 0.3:
                wf[rng.choice(edges)] = BIG; huge = True
            if mode == "zero" and rng.random() < 0.5:
                wf = {}                                                      # an empty dict is still "a weight function"
            weight = {e: wf.get(e, 0) for e in edges}                        # documented: a given dict, missing weights are 0
            call = lambda ga, wf=wf: st.compute_max_edge_antichain(get_antichain=ga, weight_function=wf)
        else:
            ign = [e for e in edges if rng.random() < 0.3] if mode == "width_ignore" else []
            if mode == "width_ignore" and rng.random() < 0.3: ign = ign + ign[:1]
            weight = {e: int(e not in set(ign)) for e in edges}
            call = None
        plain = None
        try:
            if call is not None:
                cost, anti = call(True); cost2 = call(False)
            else:
                w_first = st.get_width(ign or None)
                plain = st.get_width() if ign else None                    # asked between two ignore-list queries: caches must not leak either way
                cost = st.get_width(ign if ign else []); cost2 = w_first
                anti = None
            err = None
        except Exception as e:
            cost = cost2 = anti = None; err = exc_kind(e) + ": " + str(e)[:80]
        fadj, _ = adjacency(edges)
        reach_from = {v: bfs(fadj, v) for v in names}
        opt, wit = brute_max_antichain(edges, weight, reach_from)
        A = anti if anti is not None else wit
        P = min_cover(st, weight) if opt < 2 ** 45 else None
        V = [ids[v] for v in names]; E = [[ids[u], ids[v]] for u, v in edges]
        W = [[ids[u], ids[v], x] for (u, v), x in weight.items()]
        Aok = [e for e in (A or []) if e in weight]
        Ptok = [[b, len(p), [ids[x] for x in p]] for p, b in (P or [])]
        reqs.append("cert " + common.toks(len(V), V, len(E), E, ids[st.source], ids[st.sink], len(W), W, len(Aok), [[ids[u], ids[v]] for u, v in Aok], len(Ptok), Ptok))
        if plain is not None:
            true_plain = brute_max_antichain(edges, {e: 1 for e in edges}, reach_from)[0]
            if plain != true_plain:
                ctx.report(f"get_width() asked after get_width(edges_to_ignore=...) returned {plain}; the width is {true_plain} (wrong width, or a cached value leaked)",
                           {"kind": "antichain", "edges": [list(e) for e in G.edges()], "nodes": list(G.nodes()), "starts": starts, "ends": ends, "mode": "width",
                            "weights": [["S" if u == st.source else u, "T" if v == st.sink else v, 1] for u, v in edges], "true_maximum": true_plain,
                            "ignored_first": [["S" if u == st.source else u, "T" if v == st.sink else v] for u, v in ign]}, concrete=True)
        empty_dict = (mode in ("weights", "zero", "big") and wf == {}) or (mode == "width_ignore" and all(x == 0 for x in weight.values()))
        dflt = brute_max_antichain(edges, {e: int(e[0] != st.source and e[1] != st.sink) for e in edges}, reach_from)[0] if empty_dict else None
        meta.append((i, G, st, mode, weight, cost, cost2, anti, err, opt, wit, P, starts, ends, (empty_dict, dflt), A))
    outs = ctx.model.run(reqs)
    for out, (i, G, st, mode, weight, cost, cost2, anti, err, opt, wit, P, starts, ends, emptywf, A) in zip(outs, meta):
        ren = lambda x: "S" if x == st.source else ("T" if x == st.sink else x)
        replay = {"kind": "antichain", "edges": [list(e) for e in G.edges()], "nodes": list(G.nodes()), "starts": starts, "ends": ends, "mode": mode,
                  "weights": [[ren(u), ren(v), x] for (u, v), x in weight.items()], "impl_cost": cost, "impl_cost_no_antichain": cost2,
                  "impl_antichain": None if anti is None else [[ren(u), ren(v)] for u, v in anti], "true_maximum": opt, "model": out, "error": err}
        ctx.case(["antichain", mode, sorted([ren(u), ren(v), x] for (u, v), x in weight.items())], nontrivial=opt >= 2 and len(weight) >= 5,
                 sample={"kind": "antichain/" + mode, "edges": replay["edges"], "cost": cost, "antichain": replay["impl_antichain"]})
        ctx.dist("antichain:" + mode)
        ctx.count("E2_antichain", "cases")
        if err is not None or cost is None or cost2 is None:
            ctx.report(f"compute_max_edge_antichain / get_width failed: {err or 'returned None'} (true maximum {opt})", replay, concrete=True)
            continue
        t = out.split()
        if t[0] != "OK":
            ctx.report("model error in certificate check: " + out[:80], replay, concrete=False); continue
        cert_ok, anti_ok, cov_ok, aw, cs = t[1] == "1", t[2] == "1", t[3] == "1", int(t[4]), int(t[5])
        bad = None
        if anti is not None:
            if any(e not in weight for e in anti): bad = "the returned antichain contains a pair that is not an edge"
            elif not anti_ok: bad = "the returned antichain is rejected by the verified checker antichain_ok (two of its edges lie on a common path, or a duplicate)"
            elif aw != cost: bad = f"the returned antichain has weight {aw}, reported optimum {cost}"
        if emptywf[0] and cost == cost2 == emptywf[1] and cost != opt:
            ctx.report(f"an empty weight dict (all edges ignored / all weights missing) is treated like weight_function=None: reported {cost}, "
                       f"the maximum for the all-zero weights is {opt}", replay, concrete=True)
            continue
        if bad is None and cost != cost2: bad = f"get_antichain=True reports {cost}, get_antichain=False / repeated call reports {cost2}"
        if bad is None and cost != opt: bad = f"reported optimum {cost}, exhaustive maximum over all antichains {opt}"
        if bad:
            ctx.report("compute_max_edge_antichain / get_width: " + bad, replay, concrete=True); continue
        ctx.count("E2_property_on_impl_output", "antichain")
        if cert_ok and cs == cost:
            ctx.count("E2_antichain", "optimum_proved_by_certificate")       # C17_certificate_ok_opt applies to this instance
        elif anti_ok and P is None:
            ctx.count("E2_antichain", "no_cover_found_exhaustive_only")
        else:
            ctx.count("E2_antichain", "certificate_incomplete")
            ctx.report(f"no optimality certificate: antichain_ok={anti_ok} cover_ok={cov_ok} antichain weight {aw} cover size {cs} reported {cost}",
                       replay, concrete=False)


def _whist_apply(st, op):
    """One operation of a width / antichain history on the stDAG object st.  Returns (reported optimum, antichain or None)."""
    if op["op"] == "width":
        ign = op["ign"]
        return st.get_width(None if ign is None else [tuple(e) for e in ign]), None
    wf = None if op["wf"] is None else {(u, v): x for u, v, x in op["wf"]}
    if op["ga"]:
        c, a = st.compute_max_edge_antichain(get_antichain=True, weight_function=wf)
        return c, a
    return st.compute_max_edge_antichain(get_antichain=False, weight_function=wf), None


def _whist_weight(st, edges, op):
    """The documented demand function of the operation (what a FRESH object must optimise)."""
    if op["op"] == "width":
        ign = set(map(tuple, op["ign"] or []))
        return {e: int(e not in ign) for e in edges}
    if op["wf"] is None:
        return {e: int(e[0] != st.source and e[1] != st.sink) for e in edges}
    wf = {(u, v): x for u, v, x in op["wf"]}
    return {e: wf.get(e, 0) for e in edges}


def run_width_histories(ctx, n):
    """E4 on ONE stDAG object: random interleavings of get_width(edges_to_ignore) and compute_max_edge_antichain(get_antichain,
    weight_function); every answer must be the optimum a fresh object has for that operation's weights (exhaustive maximum,
    verified antichain, cover certificate).  Graphs have isolated nodes and additional starts / ends on inner nodes, so that the
    global source / sink edges matter (get_width counts them, the default antichain weights do not)."""
    import flowpaths as fp
    reqs = []; meta = []
    for i in range(n):
        rng = ctx.rng("whist", i)
        G = gen.mimic_names(rng, gen.rand_dag(rng, nmax=rng.choice([2, 3, 4, 5, 6])), p=0.35)
        for j in range(rng.choice([0, 0, 1, 1, 2])):
            G.add_node(f"iso{j}")
        nodes = list(G.nodes())
        starts = rng.sample(nodes, min(len(nodes), rng.choice([1, 1, 2]))) if rng.random() < 0.5 else None
        ends = rng.sample(nodes, min(len(nodes), rng.choice([1, 1, 2]))) if rng.random() < 0.5 else None
        st = fp.stDAG(G, additional_starts=starts, additional_ends=ends)
        names = list(st.nodes()); ids = {v: j for j, v in enumerate(names)}; edges = list(st.edges())
        fadj, _ = adjacency(edges)
        reach_from = {v: bfs(fadj, v) for v in names}
        ops = []
        for _ in range(rng.randint(3, 8)):
            r = rng.random()
            if r < 0.4:
                q = rng.random()
                ign = None if q < 0.35 else [] if q < 0.55 else [list(e) for e in edges if rng.random() < rng.choice([0.2, 0.5, 1.0])]
                ops.append({"op": "width", "ign": ign})
            else:
                q = rng.random()
                wf = None if q < 0.5 else [] if q < 0.58 else [[u, v, rng.choice([0, 1, 1, 2, 3])] for (u, v) in edges if rng.random() < 0.8]
                ops.append({"op": "anti", "ga": rng.random() < 0.5, "wf": wf})
        answers = []; err = None; cache = {}
        first = len(reqs)
        for op in ops:
            try:
                cost, anti = _whist_apply(st, op)
            except Exception as e:
                cost, anti = "raised " + exc_kind(e), None
            weight = _whist_weight(st, edges, op)
            key = tuple(sorted(weight.items()))
            if key not in cache:
                opt, wit = brute_max_antichain(edges, weight, reach_from)
                cache[key] = (opt, wit, min_cover(st, weight))
            opt, wit, P = cache[key]
            A = [e for e in (anti if anti is not None else wit) if e in weight]
            V = [ids[v] for v in names]; E = [[ids[u], ids[v]] for u, v in edges]
            W = [[ids[u], ids[v], x] for (u, v), x in weight.items()]
            Ptok = [[b, len(p), [ids[x] for x in p]] for p, b in (P or [])]
            reqs.append("cert " + common.toks(len(V), V, len(E), E, ids[st.source], ids[st.sink], len(W), W, len(A), [[ids[u], ids[v]] for u, v in A], len(Ptok), Ptok))
            answers.append((cost, anti, opt))
        meta.append((i, G, st, starts, ends, ops, answers, first))
    outs = ctx.model.run(reqs)
    for (i, G, st, starts, ends, ops, answers, first) in meta:
        ren = lambda x: "<S>" if x == st.source else ("<T>" if x == st.sink else x)
        rops = []
        for op in ops:
            o = dict(op)
            if o.get("ign"): o["ign"] = [[ren(u), ren(v)] for u, v in o["ign"]]
            if o.get("wf"): o["wf"] = [[ren(u), ren(v), x] for u, v, x in o["wf"]]
            rops.append(o)
        replay = {"kind": "whist", "nodes": list(G.nodes()), "edges": [list(e) for e in G.edges()], "starts": starts, "ends": ends, "ops": rops,
                  "answers": [str(a[0]) for a in answers], "fresh_object_optimum": [a[2] for a in answers]}
        ctx.case(["whist", sorted(map(list, G.edges())), starts, ends, rops], nontrivial=len(ops) >= 3 and any(o["op"] == "width" for o in ops),
                 sample={"kind": "stDAG width/antichain history", "edges": replay["edges"], "starts": starts, "ends": ends, "ops": rops[:4], "answers": replay["answers"][:4]})
        ctx.dist(f"whist:ops<={4 * (len(ops) // 4 + 1)}")
        ctx.count("E4_width_histories", "sequences")
        bad = None
        for k, ((cost, anti, opt), out) in enumerate(zip(answers, outs[first:first + len(ops)])):
            t = out.split()
            if t[0] != "OK":
                bad = (False, f"model error in certificate check: {out[:60]}"); break
            cert_ok, anti_ok, aw, cs = t[1] == "1", t[2] == "1", int(t[4]), int(t[5])
            what = None
            if cost != opt:
                what = f"answered {cost}, a fresh object's optimum (exhaustive maximum) is {opt}"
            elif anti is not None and (not anti_ok or aw != cost or any(e not in set(st.edges()) for e in anti)):
                what = f"returned antichain {anti} is rejected by antichain_ok or has weight {aw} != reported {cost}"
            if what:
                bad = (True, f"operation #{k} {rops[k]} of a history on one stDAG object {what}"); break
            if cert_ok and cs == cost: ctx.count("E4_width_histories", "answers_proved_by_certificate")
            else: ctx.count("E4_width_histories", "answers_exhaustive_only")
        if bad:
            ctx.report(("width / antichain history: " if bad[0] else "") + bad[1], replay, concrete=bad[0])
        else:
            ctx.count("E4_width_histories", "agreements")


def run_cyclic_width(ctx, n):
    """stDiGraph.get_width(): a verified antichain of the ORIGINAL graph of that size exists (lower bound proved per
    instance, antichain_ok is sound for walks in arbitrary digraphs); equality with the exhaustive maximum is observed."""
    import flowpaths as fp
    reqs = []; meta = []
    for i in range(n):
        rng = ctx.rng("cwidth", i)
        G = gen.mimic_names(rng, gen.rand_cyclic(rng, nmax=rng.choice([3, 5, 6])), p=0.5)
        try:
            st = fp.stDiGraph(G)
        except ValueError:
            continue
        names = list(st.nodes()); ids = {v: j for j, v in enumerate(names)}; edges = list(st.edges())
        width = st.get_width(); width2 = st.get_width()
        fadj, _ = adjacency(edges)
        reach_from = {v: bfs(fadj, v) for v in names}
        opt, wit = brute_max_antichain(edges, {e: 1 for e in edges}, reach_from)
        reqs.append("antichain " + common.toks(len(names), list(range(len(names))), len(edges), [[ids[u], ids[v]] for u, v in edges], len(wit), [[ids[u], ids[v]] for u, v in wit]))
        meta.append((i, G, width, width2, opt))
    outs = ctx.model.run(reqs)
    for out, (i, G, width, width2, opt) in zip(outs, meta):
        replay = {"kind": "cwidth", "edges": [list(e) for e in G.edges()], "width": width, "max_antichain": opt}
        ctx.case(["cwidth", sorted(map(list, G.edges()))], nontrivial=opt >= 2, sample=None)
        ctx.count("E2_cyclic_width", "cases")
        if out != "OK 1":
            ctx.report("harness antichain search produced a set rejected by antichain_ok", replay, concrete=False)
        elif width < opt or width != width2:
            ctx.report(f"stDiGraph.get_width() = {width} (repeated: {width2}) but {opt} pairwise incompatible edges exist (verified antichain): no {width} walks cover them", replay, concrete=True)
        elif width > opt:
            ctx.report(f"stDiGraph.get_width() = {width} exceeds the exhaustive maximum antichain {opt} (no certificate for the upper bound)", replay, concrete=False)
        else:
            ctx.count("E2_cyclic_width", "agreements")


# ----------------------------------------------------------------------------- entry points
def run(ctx):
    ctx.rule = ("node names: plain (v0, n1, ...) or, in 40-60% of the graphs, names that mimic internally derived ones (gen.mimic_names: z<k>, z<k>_, "
                "z<id-like digits><k>, source_<n>, sink_<n>, <v>.0/<v>.1, <k>, <k>_expanded, numeric-looking strings); digraphs incl. ones with a strongly "
                "connected part that no source reaches / that reaches no sink (gen.rand_digraph_free); every node of the s-t graph is queried, the two "
                "synthetic ones included. "
                "DAGs of the antichain / width streams also carry isolated nodes and additional starts / ends on inner nodes; width/antichain "
                "histories = 3-8 interleaved get_width(ignore) / compute_max_edge_antichain(get_antichain, weight_function) calls on one stDAG object; "
                "flow scale families: x2^-40, x2^-30, xFraction(1,10^12), mixed magnitudes 1 and 2^-40. "
                "cases: random DAGs (gen.rand_dag, <= 7 nodes) and cyclic digraphs (gen.rand_cyclic, <= 9 nodes incl. source/sink) with integer "
                "weights from {0, 1..9, 2^40 +- k}, some edges without the attribute, optional additional starts/ends; histories of 4-14 operations "
                "over 1-3 graph objects; flows = superpositions of 0-4 source-to-sink paths (conserving; integer, dyadic k/8, or inexact floats that conserve exactly in float arithmetic: fan-out / fan-in trees with trunk = float sum of the branches, filtered superpositions) or arbitrary non-negative weights; antichain "
                "weight functions incl. all-zero, empty dict, 2^20 and 2^40. Non-trivial: >= 4 edges and a non-trivial SCC (cyclic) / >= 3 positive "
                "edges (peeling) / optimum >= 2 (antichain); distinct by canonical edge+weight lists")
    run_sdg(ctx, ctx.budget(500, 8000))
    run_dag_sets(ctx, ctx.budget(300, 4000))
    run_histories(ctx, ctx.budget(300, 6000), mutate=False)
    run_histories(ctx, ctx.budget(120, 2000), mutate=True)
    run_dag_histories(ctx, ctx.budget(150, 3000))
    run_bottleneck(ctx, ctx.budget(500, 8000))
    run_peeling(ctx, ctx.budget(500, 8000))
    run_antichain(ctx, ctx.budget(450, 6000))
    run_width_histories(ctx, ctx.budget(250, 4000))
    run_cyclic_width(ctx, ctx.budget(120, 2000))
    gencheck01.run_generated_c17(ctx)      # generated-model tie of stDiGraph.is_scc_edge (coq/gen_proofs)
    import e3mincut; e3mincut.run_mincut_e3(ctx, ctx.budget(300, 6000))   # residual search + antichain extraction on the tapped minimum flow


def replay(ctx, body):
    """Re-executes the direct property check of a stored case on the working tree."""
    import flowpaths as fp
    from flowpaths.utils import graphutils
    kind = body.get("kind")
    G = nx.DiGraph(); G.add_nodes_from(body.get("nodes", []))
    from fractions import Fraction
    for e in body.get("edges", []):
        if len(e) == 3 and isinstance(e[2], str): e[2] = Fraction(e[2])           # exact rationals are stored as "p/q"
        if len(e) == 3 and e[2] is not None: G.add_edge(e[0], e[1], flow=e[2])
        else: G.add_edge(e[0], e[1])
    if kind == "sdg":
        st = fp.stDiGraph(G, additional_starts=body.get("starts") or None, additional_ends=body.get("ends") or None)
        edges = list(st.edges()); f, b = adjacency(edges)
        wt = {(u, v): d.get("flow", 0) for u, v, d in st.edges(data=True)}
        mx = st.compute_edge_max_reachable_value("flow")
        for v in st.nodes():
            if sorted(st.nodes_reachable(v)) != sorted(bfs(f, v)) or sorted(st.nodes_reaching(v)) != sorted(bfs(b, v)): return True
        for (u, v) in edges:
            if st.is_scc_edge(u, v) != (u in bfs(f, v)): return True
            fr = bfs(f, v); bk = bfs(b, u)
            if mx[(u, v)] != max([wt[(u, v)]] + [wt[e] for e in edges if e[0] in fr or e[1] in bk]): return True
        return False
    if kind == "mbp":
        try: got = graphutils.max_bottleneck_path(G, "flow")
        except Exception as e: got = exc_kind(e)
        print("impl now:", got)
        if G.number_of_edges() == 0: return got != (None, None)
        best = best_bottleneck(G)
        return (got == (None, None)) != (best == 0) if not isinstance(got, str) and got[0] is None else (isinstance(got, str) or got[0] != best)
    if kind == "peel":
        before = {(u, v): d["flow"] for u, v, d in G.edges(data=True)}
        try: got = fp.stDAG(G).decompose_using_max_bottleneck("flow")
        except Exception as e: got = exc_kind(e)
        print("impl now:", got)
        exact = body.get("flow_kind") != "float"
        bad = peeling_clause(G, before, got, body.get("conserving", True), exact)
        print("clause:", bad or "holds")
        return bad is not None
    if kind in ("hist", "hist_mut"):
        st = fp.stDiGraph(G); names = list(st.nodes()); held = {}; bad = False
        for q, cold in zip(body["ops"], body["cold"]):
            if q[0] in (0, 1):
                v = names[q[1]] if q[1] < len(names) else "absent"
                try:
                    s = st.nodes_reachable(v) if q[0] == 0 else st.nodes_reaching(v); held[(q[0] == 0, v)] = s; got = sorted(s)
                except ValueError: got = "ValueError"
                ren = lambda l: l if isinstance(l, str) else sorted("S" if x.startswith("source_") else "T" if x.startswith("sink_") else x for x in l)
                bad |= ren(got) != ren(cold)
            elif q[0] == 3:
                s = held.get((bool(q[1]), names[q[3]]))
                if s is not None: (s.add if q[2] else s.discard)(names[q[4]])
        return bad
    if kind == "whist":
        st = fp.stDAG(G, additional_starts=body.get("starts") or None, additional_ends=body.get("ends") or None)
        ren = lambda x: st.source if x == "<S>" else (st.sink if x == "<T>" else x)
        still = False
        for op, want in zip(body["ops"], body["fresh_object_optimum"]):
            o = dict(op)
            if o.get("ign"): o["ign"] = [[ren(u), ren(v)] for u, v in o["ign"]]
            if o.get("wf"): o["wf"] = [[ren(u), ren(v), x] for u, v, x in o["wf"]]
            try: cost = _whist_apply(st, o)[0]
            except Exception as e: cost = "raised " + exc_kind(e)
            print(op, "->", cost, "fresh-object optimum", want)
            still |= cost != want
        return still
    if kind == "antichain":
        st = fp.stDAG(G, additional_starts=body.get("starts") or None, additional_ends=body.get("ends") or None)
        ren = lambda x: st.source if x == "S" else (st.sink if x == "T" else x)
        weight = {(ren(u), ren(v)): x for u, v, x in body["weights"]}
        mode = body["mode"]
        try:
            if mode == "default": cost, _ = st.compute_max_edge_antichain(get_antichain=True)
            elif mode.startswith("width"):
                if body.get("ignored_first"):
                    st.get_width([(ren(u), ren(v)) for u, v in body["ignored_first"]])     # history: an ignore-list query first
                cost = st.get_width([e for e, x in weight.items() if x == 0] or None)
            else: cost, _ = st.compute_max_edge_antichain(get_antichain=True, weight_function={e: x for e, x in weight.items()})
        except Exception as e:
            print("impl now raises", exc_kind(e)); return True
        print("impl now:", cost, "true maximum:", body["true_maximum"])
        return cost != body["true_maximum"]
    print("no replay for kind", kind)
    return False
