"""C15 — MinGenSet and MinSetCover return true optima whenever one exists.
E3: MinGenSet.__init__ pre-processing == MiscEnc.mgs_preprocess (as sets).
E1: LP handed to HiGHS for every k tried by MinGenSet.solve == MiscEnc.encode_mgs; LP of MinSetCover == encode_msc.
E4: the k sequence MinGenSet.solve tries (real statuses and injected inconclusive statuses) == MiscEnc.mgsm_loop.
E2: genset_ok / exhaustive minimum on every MinGenSet answer, setcover_ok / exhaustive minimum on every MinSetCover answer."""
from fractions import Fraction as F
import common, gen2, lpdump, e1misc, props

LEVEL = "proof"
EXPLANATION = (
    "Props/C15.v (models follow the code after fixes 03febc7, 2966290, f5a395c, 4e8a1f8, 1af0609, 9a3699a, 295fbde, b959a54, 883b781): "
    "encode_mgs rows admit only assignments whose Gen values are a multiset of size k with sum total from which every retained number is a "
    "sum with integer multiplicities in [0, max_multiplicity] (products through the C12 bridge theorems; bit vector sized from "
    "max(total, max_multiplicity), which represents every admissible multiplicity), partition block respected (soundness, all multiplicities). "
    "Pre-processing as it is (complements removed only for max_multiplicity = 1) loses nothing for every multiplicity. Search loop: an answer k "
    "is the least feasible size >= lowerbound; unsolved only if the whole range lowerbound..len(numbers)+1+extra_cuts was proven infeasible or "
    "an inconclusive status was met; succeeds when a size of the range is feasible and statuses are conclusive. round() reads a solver value "
    "within 1/2 of an integer as that integer. encode_msc rows are satisfied exactly by the covers, objective = total weight, default weights "
    "= unit weights. Every fixed defect keeps a _refuted theorem about the explicitly named OLD variant (mgsm_range_old, mgsm_loop_old, "
    "mgs_preprocess_old, encode_mgs_old, py_int, encode_msc_old). Optimality is relative to the solver specification (DESIGN §4) and sampled "
    "by E2 against exhaustive minima. Completeness of encode_mgs is proved (C15_genset_rows_complete, partition constraints included), hence "
    "C15_mgs_returns_minimum: the reported size is the least size of a generating multiset from the lower bound on. The range's upper end suffices without partition "
    "constraints (C15_range_witness, C15_range_upper_end_suffices, C15_mgs_always_solves; feasibility monotone in k by zero padding); "
    "with partition constraints C15_range_suffices (cut-point construction) and the two-directional iff for the predicate the rows "
    "enforce (genset_rows); C15_mgs_always_solves_minimum: solved with the minimum on the whole documented domain.")
ASSUMPTIONS = ["HiGHS status kOptimal => returned assignment satisfies the rows within 1e-9 and is optimal; kInfeasible => no assignment (solver specification, DESIGN §4)",
               "float instances use dyadic values (exact in doubles); float answers are checked with tolerance 1e-6, integer answers exactly",
               "exhaustive minima: integer multisets over 0..total (total <= 12, size <= 4); set covers over all 2^n subfamilies (n <= 8)"]
TRUSTED = ["models: coq/theories/MiscEnc.v, Blocks.v; LP read-back harness/lpdump.py, harness/e1misc.py; Python oracles harness/props.py (genset_ok, min_genset, setcover_ok, min_setcover)"]
SO = {"threads": 1}


def report_corr(ctx, what, rep):
    """correspondence disagreement (no failing input by itself): at most 5 replay files per run, so that
    the concrete E2 verdicts of the same run are never crowded out of the report cap"""
    ctx.count("correspondence_reports", "total")
    if ctx.engines["correspondence_reports"]["total"] <= 5:
        ctx.report(what, rep, concrete=False)


def describe(kw):
    d = dict(kw)
    if "weight_type" in d:
        d["weight_type"] = d["weight_type"].__name__
    return d


def build_mgs(kw):
    import flowpaths as fp
    return fp.MinGenSet(solver_options=dict(SO), **kw)


def run_mgs(ctx, kw, inject=None):
    """construct + solve with LP capture.  inject: {k: status string} returned instead of the real status.
    Returns dict(m, ok, caps=[(k, impl)], statuses={k: reported status}, real={k: real status})."""
    m = build_mgs(kw)
    caps = []; statuses = {}; real = {}

    def hook(s):
        caps.append((len(m.genset_indexes), lpdump.dump_impl(s, e1misc.colkey_mgs(s))))
        lpdump.reset()

    def status(s, st):
        k = len(m.genset_indexes)
        real[k] = st
        out = inject.get(k, st) if inject else st
        statuses[k] = out
        return out
    e1misc.HOOK[0] = hook; e1misc.STATUS[0] = status
    lpdump.reset()
    try:
        ok = m.solve()
    finally:
        e1misc.HOOK[0] = None; e1misc.STATUS[0] = None
    return dict(m=m, ok=ok, caps=caps, statuses=statuses, real=real)


def exact_numbers(kw, scale):
    """the instance scaled back to integers (values were integers * scale)"""
    s = F(scale)
    nums = [int(F(a) / s) for a in kw["numbers"]]
    total = int(F(kw["total"]) / s)
    parts = None
    if kw.get("partition_constraints") is not None:
        parts = [[int(F(x) / s) for x in c] for c in kw["partition_constraints"]]
    return nums, total, parts


def bit_cap(total):
    """largest multiplicity the bit expansion can represent: 2^ceil(log2(total+1)) - 1"""
    import math
    return 2 ** math.ceil(math.log2(total + 1)) - 1


def cut_witness(nums, total, parts):
    """differences of the sorted cut points (numbers, inner prefix sums of every partition constraint) and the total; None outside
    the documented domain (a number outside [0,total], an empty or non-positive constraint, a constraint not summing to total)"""
    if any(a < 0 or a > total for a in nums):
        return None
    cps = list(nums)
    for c in (parts or []):
        if not c or any(p <= 0 for p in c) or sum(c) != total:
            return None
        acc = 0
        for p in c[:-1]:
            acc += p; cps.append(acc)
    cps.sort()
    out = []; prev = 0
    for a in cps + [total]:
        out.append(a - prev); prev = a
    return out


def check_mgs_answer(ctx, kw, scale, r, rep):
    """E2 on one (un-injected) run"""
    m = r["m"]; is_int = kw["weight_type"] == int
    mult = kw["max_multiplicity"]; lb = kw["lowerbound"]
    nums, total, parts = exact_numbers(kw, scale)
    # exhaustive minimum: sizes <= 4; <= 5 when several partition constraints push the optimum to the top of the range
    MAXS = 5 if (parts and len(parts) >= 2 and total <= 14) else 4
    oracle = props.min_genset(nums, total, mult, parts, lowerbound=lb, maxsize=MAXS)
    n_init = len(kw["numbers"])
    first_k = max(1, lb)                                  # 2a5d8e1: the search starts at max(1, lowerbound)
    code_range = list(range(first_k, max(first_k + 1, n_init + 2 + e1misc.extra_cuts(kw.get("partition_constraints")))))
    if not r["ok"]:
        ctx.count("E2_genset", "unsolved")
        if oracle is not None:
            k_opt = oracle[0]
            if lb <= 0 and list(r["statuses"].values()) == ["kModelEmpty"]:
                ctx.report(f"MinGenSet(lowerbound={lb}) unsolved although a generating set exists ({oracle[1]}): the search starts with the empty model "
                           f"k={lb if lb > 0 else 0} (status kModelEmpty, inconclusive) and stops", rep, key="mgs_lowerbound_below_one")
            elif all(st == "kInfeasible" for st in r["statuses"].values()) and k_opt > code_range[-1]:
                ctx.report(f"MinGenSet unsolved although a generating set of size {k_opt} exists ({oracle[1]}): k range {code_range} stops before it",
                           rep, key="mgs_range_ignores_partition_constraints" if kw.get("partition_constraints") else "mgs_upper_end_exclusive")
            elif mult > 1 and bit_cap(kw["total"]) < mult and \
                    props.min_genset(nums, total, min(mult, bit_cap(kw["total"])), parts, lowerbound=lb, maxsize=min(MAXS, max(code_range))) is None:
                ctx.report(f"MinGenSet unsolved although {oracle[1]} (scaled by {scale}) is a generating set: multiplicities > {bit_cap(kw['total'])} are cut off by the bit expansion",
                           rep, key="mgs_multiplicity_cut_by_bit_width")
            else:
                ctx.report(f"MinGenSet unsolved although a generating set exists: {oracle[1]}; statuses {r['statuses']}", rep)
        else:
            # no generating set of size <= MAXS: the cut-point witness of Props/C15.v C15_range_suffices (numbers and inner prefix sums of
            # every constraint as cut points; their differences) is a generating multiset of len(numbers)+1+extra_cuts elements whenever
            # the input is in the documented domain -- checked here by genset_ok, so the verdict does not rest on the theorem
            wit = cut_witness(nums, total, parts)
            if wit is not None and lb <= len(wit) and props.genset_ok(nums, total, wit, mult, parts) is None \
                    and all(st == "kInfeasible" for st in r["statuses"].values()):
                ctx.report(f"MinGenSet unsolved although a generating multiset exists (cut-point witness {wit}, {len(wit)} elements): the k range "
                           f"tried, {sorted(r['statuses'])}, stops before len(numbers)+1+extra_cuts = {len(set(nums)) + 1 + e1misc.extra_cuts(parts)}", rep)
        return
    sol = m.get_solution()
    ctx.count("E2_genset", "solved")
    if is_int and not all(isinstance(x, int) for x in sol):
        ctx.report(f"weight_type=int but solution {sol!r} has non-int elements", rep); return
    why = props.genset_ok(kw["numbers"], kw["total"], sol, mult, kw.get("partition_constraints"), exact=is_int)
    if why is not None:
        reason, tag = why
        key = None
        kept_ok = props.genset_ok(m.numbers, kw["total"], sol, mult, kw.get("partition_constraints"), exact=is_int) is None
        if isinstance(tag, tuple) and tag[0] == "number" and mult > 1 and kw["remove_complement_values"] and kept_ok \
                and tag[1] not in m.numbers:
            key = "mgs_complement_removal_with_multiplicity"
        elif tag == "sum" and is_int:
            raw = m.solver.get_values(m.genset_vars)
            rounded = sorted(round(raw[i]) for i in range(len(sol)))
            if props.genset_ok(m.numbers, kw["total"], rounded, mult, kw.get("partition_constraints")) is None:
                key = "mgs_int_truncation"
        ctx.report("MinGenSet answer is not a generating set: " + reason, dict(rep, solution=sol, kept=m.numbers), key=key)
        return
    ctx.count("E2_genset", "genset_ok")
    if oracle is None:
        if len(sol) <= MAXS:
            ctx.report(f"oracle finds no integer generating set of size <= {MAXS} but MinGenSet returned {sol}", dict(rep, solution=sol),
                       concrete=is_int)
        return
    k_opt = oracle[0]
    if is_int:
        if len(sol) != k_opt:
            ctx.report(f"MinGenSet returned {len(sol)} elements {sol}; exhaustive minimum (size >= lowerbound {lb}) is {k_opt}: {oracle[1]}",
                       dict(rep, solution=sol, oracle=oracle[1]))
        else:
            ctx.count("E2_genset", "minimum_confirmed")
    else:
        if len(sol) > k_opt and mult > 1 and bit_cap(kw["total"]) < mult:
            o2 = props.min_genset(nums, total, min(mult, bit_cap(kw["total"])), parts, lowerbound=lb, maxsize=MAXS)
            ctx.report(f"MinGenSet (float, total {kw['total']}) returned {len(sol)} elements {sol} although {oracle[1]} (scaled by {scale}) generates every number "
                       f"with multiplicities <= {mult}: the bit expansion of the multiplicity has only ceil(log2(total+1)) bits, so multiplicities > {bit_cap(kw['total'])} are cut off",
                       dict(rep, solution=sol, oracle=oracle[1]),
                       key="mgs_multiplicity_cut_by_bit_width" if (o2 is None or len(sol) <= o2[0]) else None)
        elif len(sol) > k_opt:
            ctx.report(f"MinGenSet (float) returned {len(sol)} elements {sol}; an integer-scaled generating set of size {k_opt} exists: {oracle[1]}",
                       dict(rep, solution=sol, oracle=oracle[1]))
        else:
            ctx.count("E2_genset", "float_size_le_integer_minimum")


def mgs_engine(ctx):
    n = ctx.budget(500, 6000)
    reqs_pre = []; pre_cases = []
    for i in range(n):
        rng = ctx.rng("mgs", i)
        kw, scale = gen2.rand_mgs(rng)
        rep = {"class": "MinGenSet", "args": describe(kw)}
        if kw["max_multiplicity"] > 1 and max(kw["numbers"]) > max(kw["total"], kw["max_multiplicity"]):
            ctx.dist("mgs multiplicity>1 with a number above max(total, multiplicity)" + (" (fractional maximum)" if float(max(kw["numbers"])) != int(max(kw["numbers"])) else ""))
        ctx.dist(f"mgs mult={kw['max_multiplicity']} {'int' if kw['weight_type'] == int else 'float'}"
                 f"{' parts' if kw.get('partition_constraints') else ''}")
        try:
            r = run_mgs(ctx, kw)
        except Exception as e:
            ctx.report("MinGenSet raised " + repr(e), rep); continue
        m = r["m"]
        # ---- E3 pre-processing
        reqs_pre.append(e1misc.mgspre_request(kw["remove_complement_values"], kw["max_multiplicity"], kw["numbers"], kw["total"]))
        pre_cases.append((kw, sorted(F(x) for x in m.numbers), rep))
        # ---- E1 per k
        # ---- E3 (partition constraints): __init__ keeps every constraint the caller passed, in order
        ctx.count("E3_partition_constraints_kept", "cases")
        kept = None if m.partition_constraints is None else [list(c) for c in m.partition_constraints]
        given = None if kw.get("partition_constraints") is None else [list(c) for c in kw["partition_constraints"]]
        if kept != given:
            ctx.count("E3_partition_constraints_kept", "disagreements")
            report_corr(ctx, f"E3 correspondence broken: MinGenSet.__init__ holds partition_constraints {kept}, the caller passed {given}", rep)
        else:
            ctx.count("E3_partition_constraints_kept", "agreements")
        # the model is built from the CALLER's constraints: the LP must contain the rows of every one of them
        lines = [e1misc.mgs_request(m, k, parts=kw.get("partition_constraints")) for k, _ in r["caps"]]
        outs = ctx.model.run(lines, multiline=True)
        for (k, impl), out, line in zip(r["caps"], outs, lines):
            model = lpdump.parse_model(out)
            d = e1misc.decide(ctx, "E1_MinGenSet_LP", impl, line, lpdump.diff(impl, model))
            ctx.count("E1_MinGenSet_LP", "cases"); ctx.count("E1_MinGenSet_LP", "rows_compared", len(impl["rows"]))
            if d:
                ctx.count("E1_MinGenSet_LP", "disagreements")
                report_corr(ctx, f"E1 correspondence broken: LP of MinGenSet (k={k}) differs from MiscEnc.encode_mgs: " + "; ".join(d[:3]),
                            dict(rep, k=k, diff=d))
            else:
                ctx.count("E1_MinGenSet_LP", "agreements")
        # ---- E4 k sequence with the real statuses
        tried = [k for k, _ in r["caps"]]
        lo = ctx.model.run([e1misc.mgsloop_request(kw["lowerbound"], len(kw["numbers"]),
                                                   dict(r["statuses"]), kw.get("partition_constraints"))])[0]
        mt, mres, mrange = e1misc.parse_loop(lo)
        ctx.count("E4_k_sequence", "cases")
        got = (tried, len(m.get_solution()) if r["ok"] else None)
        if (mt, mres) != got:
            ctx.count("E4_k_sequence", "disagreements")
            report_corr(ctx, f"E4 correspondence broken: MinGenSet.solve tried {got}, MiscEnc.mgsm_loop {(mt, mres)}", dict(rep, statuses=r["statuses"]))
        else:
            ctx.count("E4_k_sequence", "agreements")
        # ---- E2
        check_mgs_answer(ctx, kw, scale, r, rep)
        ctx.case(describe(kw), nontrivial=len(r["caps"]) >= 1 and len(m.numbers) >= 1,
                 sample={"args": describe(kw), "kept": m.numbers, "tried": tried, "solution": m.get_solution() if r["ok"] else None})
        # ---- E4 with an injected inconclusive status at the k that is really optimal
        if r["ok"] and i % 3 == 0:
            kopt = tried[-1]
            for st_inj in ("kTimeLimit",):
                try:
                    r2 = run_mgs(ctx, kw, inject={kopt: st_inj})
                except Exception as e:
                    ctx.report("MinGenSet raised under an injected status " + repr(e), rep); continue
                tried2 = [k for k, _ in r2["caps"]]
                lo2 = ctx.model.run([e1misc.mgsloop_request(kw["lowerbound"], len(kw["numbers"]),
                                                            dict(r2["statuses"]), kw.get("partition_constraints"))])[0]
                mt2, mres2, _ = e1misc.parse_loop(lo2)
                ctx.count("E4_k_sequence_injected", "cases")
                got2 = (tried2, len(r2["m"].get_solution()) if r2["ok"] else None)
                if (mt2, mres2) != got2:
                    ctx.count("E4_k_sequence_injected", "disagreements")
                    report_corr(ctx, f"E4 correspondence broken under injected status: implementation {got2}, model {(mt2, mres2)}",
                                dict(rep, inject={kopt: st_inj}))
                else:
                    ctx.count("E4_k_sequence_injected", "agreements")
                if r2["ok"] or r2["m"].is_solved():
                    ctx.report(f"MinGenSet.solve() went on to k={tried2[-1]} after status {st_inj} at k={kopt} and reports a solved, "
                               f"non-minimum answer {r2['m'].get_solution()} (a size-{kopt} set exists)",
                               dict(rep, inject={kopt: st_inj}), key="mgs_skips_inconclusive")
                else:
                    ctx.count("E4_k_sequence_injected", "unsolved_after_inconclusive")
    # E3 batch
    outs = ctx.model.run(reqs_pre)
    for (kw, impl_set, rep), line in zip(pre_cases, outs):
        mod = sorted(e1misc.parse_qs(line))
        ctx.count("E3_preprocess", "cases")
        if mod != impl_set:
            ctx.count("E3_preprocess", "disagreements")
            report_corr(ctx, f"E3 correspondence broken: MinGenSet.__init__ keeps {impl_set}, MiscEnc.mgs_preprocess {mod}", rep)
        else:
            ctx.count("E3_preprocess", "agreements")


def int_truncation_probe(ctx):
    """#13 second half: int() truncates a solver value 3 - 1e-7 (inside HiGHS' integrality tolerance) to 2.
    The solver value is injected (get_values wrapped); natural occurrences are caught by check_mgs_answer."""
    import flowpaths as fp
    from flowpaths.utils import solverwrapper as sw
    kw = dict(numbers=[3], total=3, weight_type=int, max_multiplicity=1, lowerbound=1, remove_complement_values=False)
    orig = sw.SolverWrapper.get_values

    def gv(self, variables, *a, **k):
        res = orig(self, variables, *a, **k)
        return {i: (v - 1e-7 if abs(v - 3) < 1e-9 else v) for i, v in res.items()} if isinstance(res, dict) else res
    sw.SolverWrapper.get_values = gv
    try:
        m = build_mgs(kw); ok = m.solve(); sol = m.get_solution() if ok else None
    finally:
        sw.SolverWrapper.get_values = orig
    ctx.count("probe_int_truncation", "cases")
    out = ctx.model.run(["pyint 29999999 10000000", "pyround 29999999 10000000", "pyround 5 2", "pyround 7 2"])
    if [o.strip() for o in out] != ["I 2", "I 3", "I 2", "I 4"] or [round(2.9999999), round(2.5), round(3.5)] != [3, 2, 4]:
        ctx.report("model py_int / py_round_half_even disagree with Python int()/round(): " + repr(out), {}, concrete=False)
    if ok and sol != [3]:
        ctx.report(f"MinGenSet(numbers=[3], total=3, weight_type=int) with the solver value 3 - 1e-7 (inside the integrality tolerance) returns {sol}, expected [3]",
                   {"class": "MinGenSet", "args": describe(kw), "injected": "get_values: 3 -> 3 - 1e-7"}, key="mgs_int_truncation")


def witness_probes(ctx):
    """the witnesses of the _refuted theorems replayed on the implementation"""
    for nums, total, extra, want_k in (([1, 2, 4], 7, {}, 3), ([5], 6, {}, 2)):
        kw = dict(numbers=nums, total=total, weight_type=int, max_multiplicity=1, lowerbound=1, remove_complement_values=True, **extra)
        r = run_mgs(ctx, kw)
        ctx.count("probe_witness", "cases")
        check_mgs_answer(ctx, kw, 1, r, {"class": "MinGenSet", "args": describe(kw), "witness": "Props/C15.v C15_loop_old_upper_end_refuted (fixed finding; must be solved now)"})
    # fixed corpus: mgs_pi_bounded_by_total (a068bcc): {1} generates 1 and 2 = 2*1; the old code returned [0.5, 0.5]
    for wt in (float, int):
        kw = dict(numbers=[wt(1), wt(2)], total=wt(1), weight_type=wt, max_multiplicity=2, lowerbound=1, remove_complement_values=True)
        r = run_mgs(ctx, kw)
        ctx.count("probe_witness", "cases")
        check_mgs_answer(ctx, kw, 1, r, {"class": "MinGenSet", "args": describe(kw), "witness": "Props/C15.v C15_pi_bound_old_refuted (fixed finding mgs_pi_bounded_by_total)"})
        if r["ok"] and len(r["m"].get_solution()) != 1:
            ctx.report(f"MinGenSet([1,2], total 1, multiplicity 2) returns {r['m'].get_solution()} although {{1}} generates both numbers", {"class": "MinGenSet", "args": describe(kw)},
                       key="mgs_pi_bounded_by_total")
    # fixed corpus: several partition constraints and FEW numbers -- the optimum lies in the top part of the range
    # lowerbound .. len(numbers)+1+sum(len(c)-1) (C15_range_suffices); a shorter range ends unsolved
    for nums, total, parts in (([1], 14, [[2, 4, 8], [3, 5, 6]]), ([1], 12, [[5, 7], [4, 8], [3, 9]]), ([2], 11, [[1, 4, 6], [2, 3, 6]])):
        kw = dict(numbers=nums, total=total, weight_type=int, max_multiplicity=1, lowerbound=1, remove_complement_values=True, partition_constraints=parts)
        r = run_mgs(ctx, kw)
        ctx.count("probe_witness", "cases")
        check_mgs_answer(ctx, kw, 1, r, {"class": "MinGenSet", "args": describe(kw), "witness": "several partition constraints, few numbers"})
    # fixed corpus: two partition constraints over the SAME value set with different multiplicities (both must be kept)
    for parts in ([[1, 2, 2], [1, 1, 1, 2]], [[1, 1, 1, 2], [1, 2, 2]], [[2, 2, 1], [2, 1, 1, 1], [1, 2, 2]]):
        kw = dict(numbers=[1, 2], total=5, weight_type=int, max_multiplicity=1, lowerbound=1, remove_complement_values=True, partition_constraints=parts)
        r = run_mgs(ctx, kw)
        ctx.count("probe_witness", "cases")
        check_mgs_answer(ctx, kw, 1, r, {"class": "MinGenSet", "args": describe(kw), "witness": "optimum [1,1,1,2]: every constraint must be respected"})
    # fixed corpus: a number above max(total, max_multiplicity), fractional and integral (pi bound = max(total, numbers), a068bcc)
    for nums, total, mult, wt in (([3.75, 1.25], 1.25, 3, float), ([7.5], 2.5, 3, float), ([6, 3], 3, 2, int)):
        kw = dict(numbers=nums, total=total, weight_type=wt, max_multiplicity=mult, lowerbound=1, remove_complement_values=True)
        r = run_mgs(ctx, kw)
        ctx.count("probe_witness", "cases")
        check_mgs_answer(ctx, kw, F(5, 4) if wt == float and total == 1.25 else (F(5, 2) if wt == float else 1), r,
                         {"class": "MinGenSet", "args": describe(kw), "witness": "one element (the total) generates every number with a multiplicity"})
        if not r["ok"] or len(r["m"].get_solution()) != 1:
            ctx.report(f"MinGenSet({nums}, total {total}, multiplicity {mult}) returns {r['m'].get_solution() if r['ok'] else 'unsolved'} although {{{total}}} generates every number",
                       {"class": "MinGenSet", "args": describe(kw)})
    kw = dict(numbers=[2, 3, 2], total=5, weight_type=int, max_multiplicity=2, lowerbound=1, remove_complement_values=True)
    r = run_mgs(ctx, kw)
    ctx.count("probe_witness", "cases")
    check_mgs_answer(ctx, kw, 1, r, {"class": "MinGenSet", "args": describe(kw), "witness": "Props/C15.v C15_complement_removal_refuted"})


def msc_engine(ctx):
    import flowpaths as fp
    n = ctx.budget(500, 8000)
    for i in range(n):
        rng = ctx.rng("msc", i)
        kw = gen2.rand_msc(rng)
        rep = {"class": "MinSetCover", "args": kw}
        lpdump.reset()
        has_cover = props.setcover_ok(kw["universe"], kw["subsets"], list(range(len(kw["subsets"])))) is None
        ctx.dist("msc " + ("weights=None" if kw["subset_weights"] is None else "weighted") + ("" if has_cover else " no-cover"))
        req = e1misc.msc_request(kw["universe"], kw["subsets"], kw["subset_weights"])
        out = ctx.model.run([req], multiline=True)[0]
        try:
            m = fp.MinSetCover(solver_options=dict(SO), **kw)
        except TypeError as e:
            ctx.count("E1_MinSetCover_LP", "cases")
            if kw["subset_weights"] is None and out and out[-1].startswith("ERROR no-model"):
                ctx.count("E1_MinSetCover_LP", "agreements")
                if has_cover:
                    ctx.report("MinSetCover with the documented default subset_weights=None raises TypeError (no unit weights are assumed)",
                               rep, key="msc_default_weights_typeerror")
            else:
                ctx.report("MinSetCover raised " + repr(e), rep)
            ctx.case(["msc", kw], nontrivial=False)
            continue
        except Exception as e:
            ctx.report("MinSetCover raised " + repr(e), rep); continue
        impl = lpdump.dump_impl(m.solver, e1misc.colkey_msc(m.solver))
        model = lpdump.parse_model(out)
        d = lpdump.diff(impl, model) if "error" not in model["extra"] else ["model built no LP: " + model["extra"]["error"]]
        d = e1misc.decide(ctx, "E1_MinSetCover_LP", impl, req, d)
        ctx.count("E1_MinSetCover_LP", "cases"); ctx.count("E1_MinSetCover_LP", "rows_compared", len(impl["rows"]))
        if d:
            ctx.count("E1_MinSetCover_LP", "disagreements")
            report_corr(ctx, "E1 correspondence broken: LP of MinSetCover differs from MiscEnc.encode_msc: " + "; ".join(d[:3]), dict(rep, diff=d))
        else:
            ctx.count("E1_MinSetCover_LP", "agreements")
        try:
            ok = m.solve()
        except Exception as e:
            ctx.report("MinSetCover.solve raised " + repr(e), rep); continue
        weights = kw["subset_weights"] if kw["subset_weights"] is not None else [1] * len(kw["subsets"])   # documented default
        best = props.min_setcover(kw["universe"], kw["subsets"], weights)
        ctx.case(["msc", kw], nontrivial=len(kw["subsets"]) >= 2 and has_cover, sample=kw if i < 3 else None)
        if not ok:
            ctx.count("E2_setcover", "unsolved")
            if best is not None:
                ctx.report(f"MinSetCover unsolved although a cover exists: {best[1]}", rep)
            else:
                try:
                    s = m.is_solved()
                    ctx.count("E2_setcover", "is_solved_false_after_failed_solve")
                    if s:
                        ctx.report("MinSetCover.is_solved() is True after solve() returned False", rep)
                except AttributeError as e:
                    ctx.report("MinSetCover.is_solved() after an unsuccessful solve() raises AttributeError (SolverWrapper has no logger; _is_solved stays None)",
                               rep, key="msc_is_solved_after_failed_solve")
                except Exception as e:
                    ctx.report("MinSetCover.is_solved() after an unsuccessful solve() raises " + repr(e), rep, key="msc_is_solved_after_failed_solve")
            continue
        sol = m.get_solution()
        ctx.count("E2_setcover", "solved")
        why = props.setcover_ok(kw["universe"], kw["subsets"], sol)
        if why:
            raw = m.solver.get_values(m.subset_vars)
            rounded = [j for j in range(len(kw["subsets"])) if round(raw[j]) == 1]
            exact_one = all(v == 1 or round(v) != 1 for v in raw.values())
            key = None
            if not exact_one and props.setcover_ok(kw["universe"], kw["subsets"], rounded) is None and best is not None \
                    and sum(F(weights[j]) for j in rounded) == best[0]:
                key = "msc_exact_equality_on_solver_value"
            ctx.report(f"MinSetCover answer {sol} is not a cover: {why} (solver values {raw}; the code keeps subset i only if value == 1 exactly)",
                       dict(rep, solution=sol, raw={str(a): b for a, b in raw.items()}), key=key); continue
        if m.get_solution(as_subsets=True) != [kw["subsets"][j] for j in sol]:
            ctx.report("get_solution(as_subsets=True) differs from the indexed subsets", dict(rep, solution=sol)); continue
        w = sum(F(weights[j]) for j in sol)
        if best is None or w != best[0]:
            ctx.report(f"MinSetCover returned a cover of weight {w}; exhaustive minimum {best}", dict(rep, solution=sol))
        else:
            ctx.count("E2_setcover", "minimum_confirmed")


def run(ctx):
    e1misc.install()
    ctx.rule = ("MinGenSet: numbers drawn as sub-multiset sums (multiplicities <= max_multiplicity) of a hidden multiset of 1-4 values "
                "(total <= 12) or arbitrary values in 1..total, with duplicates / total / complement pairs, multiplicity 1-3, lower bound 1-3, "
                "partition constraints, complement removal on/off, int and dyadic float weights; MinSetCover: 1-6 elements, 1-8 subsets, "
                "int / dyadic / zero weights, default weights, instances without cover; non-trivial = at least one LP built with >= 1 retained number "
                "(MinGenSet) / >= 2 subsets and a cover exists (MinSetCover)")
    witness_probes(ctx)
    int_truncation_probe(ctx)
    mgs_engine(ctx)
    msc_engine(ctx)
    import gencheck_misc; gencheck_misc.run_generated_c15(ctx)   # generated-model tie: MinSetCover._encode_set_cover regenerated from source (coq/gen_proofs/EncMsc*.v)


def replay(ctx, body):
    """re-run one reported instance; True = still failing"""
    e1misc.install()
    args = dict(body.get("args", {}))
    before = len(ctx.violations) + sum(ctx.engines.get("known_findings", {}).values())
    if body.get("class") == "MinGenSet":
        args["weight_type"] = int if args.get("weight_type") == "int" else float
        r = run_mgs(ctx, args, inject={int(k): v for k, v in body.get("inject", {}).items()} or None)
        if body.get("inject"):
            return bool(r["ok"])
        check_mgs_answer(ctx, args, 1, r, {"class": "MinGenSet", "args": describe(args)})
    elif body.get("class") == "MinSetCover":
        import flowpaths as fp
        try:
            m = fp.MinSetCover(solver_options=dict(SO), **args)
            ok = m.solve()
            ws = args["subset_weights"] if args.get("subset_weights") is not None else [1] * len(args["subsets"])
            if not ok:
                return props.min_setcover(args["universe"], args["subsets"], ws) is not None
            sol = m.get_solution()
            best = props.min_setcover(args["universe"], args["subsets"], ws)
            return props.setcover_ok(args["universe"], args["subsets"], sol) is not None or \
                sum(F(ws[j]) for j in sol) != best[0]
        except Exception:
            return True
    after = len(ctx.violations) + sum(ctx.engines.get("known_findings", {}).values())
    return after > before
