"""C11 — node-weighted solving equals solving the explicitly node-expanded instance.

E3: NodeExpandedDiGraph (constructor: nodes, edges, attribute dicts, edges_to_ignore — all in order),
    get_expanded_edge / additional starts / ends / subpath constraints, get_condensed_paths,
    get_condensed_graph and the node-mode glue (ignore list, condensed solution) against the extracted
    Gallina model NodeExp.v; the ".0"/".1" suffix logic is executed by the model, the harness only
    ships character codes.
E2: every exported model class with a node mode is solved in node mode and, in edge mode, on the
    explicit expansion that the *Coq model* produced (all original edges ignored, nodes without the
    attribute ignored, constraints / starts / ends expanded by the model): solved status and objective
    must agree, routes must be valid routes of the ORIGINAL graph in original names, weights/slacks
    lists must have one entry per route."""
import copy, json, math
from fractions import Fraction as F
import networkx as nx
import common, gen, gen2, props

LEVEL = "proof"
EXPLANATION = (
    "Theorems of Props/C11.v are about NodeExp.v, a Gallina transcription of flowpaths/nodeexpandeddigraph.py over Coq strings "
    "(constructor incl. networkx' implicit node creation, attribute copying and the order of edges_to_ignore; get_expanded_*; "
    "get_condensed_paths with Python's s[-2:]/s[:-2] slices; get_condensed_graph) and of the node-mode glue of the model classes. "
    "Proved for all graphs/names: condense(expand p) = p (any names, incl. empty and single-node paths), constraint and element "
    "round trips, injectivity/disjointness of the .0/.1 names, the exact edges_to_ignore list, the edge set of the expansion, the "
    "bijection between routes of G and of expand G with visit counts, and ignore-list membership. Equality of status/objective is "
    "then definitional (node mode IS edge mode on the expansion) and is sampled by E2 on the explicit expansion built from the "
    "model's output. Refuted (open finding remove_empty_drops_single_node): get_solution(remove_empty_paths=True) in node mode "
    "filters the CONDENSED paths with len > 1 and so drops a route that visits a single node together with its weight.")
ASSUMPTIONS = [
    "node names are strings over code points 0..255 (one Coq ascii per character)",
    "attribute values are opaque to the expansion; the harness uses integers in E3",
    "_try_filling_in_missing_flow_values (networkx min-cost flow) is an external engine: stubbed out in E3, exercised end-to-end by E2",
    "the harness passes list(G.nodes), list(G.predecessors(v)), list(G.successors(v)) and the attribute dicts exactly as Python enumerates them",
    "HiGHS optimal statuses are trusted as in DESIGN section 4 (E2 compares two runs of the same solver); threads=1",
]
TRUSTED = ["model: coq/theories/NodeExp.v; proofs NodeExpProofs.v; driver coq/driver/h_nodeexp.ml (character-code wire format)"]

SO = {"threads": 1}

# ----------------------------------------------------------------------------- wire format
def w_str(s):
    cs = [ord(c) for c in s]
    assert all(c < 256 for c in cs)
    return [len(cs)] + cs


def w_attrs(d):
    return [len(d)] + [w_str(k) + [int(v)] for k, v in d.items()]


def w_graph(G):
    out = [G.number_of_nodes()]
    for v in G.nodes:
        ps = list(G.predecessors(v)); ss = list(G.successors(v))
        out.append([w_str(v), w_attrs(G.nodes[v]),
                    len(ps), [[w_str(p), w_attrs(G.edges[p, v])] for p in ps],
                    len(ss), [[w_str(s), w_attrs(G.edges[v, s])] for s in ss]])
    return out


def w_ostr(s):
    return [0] if s is None else [1, w_str(s)]


def w_strs(l):
    return [len(l)] + [w_str(x) for x in l]


def w_elem(el):
    return [0, w_str(el)] if isinstance(el, str) else [1, w_str(el[0]), w_str(el[1])]


def w_edges(l):
    return [len(l)] + [[w_str(u), w_str(v)] for u, v in l]


class Rd:
    def __init__(self, line):
        parts = line.split()
        self.ok = parts[0] == "OK"
        self.err = None if self.ok else " ".join(parts[1:])
        self.t = parts[1:] if self.ok else []
        self.i = 0

    def int(self):
        self.i += 1
        return int(self.t[self.i - 1])

    def str(self):
        n = self.int()
        return "".join(chr(self.int()) for _ in range(n))

    def list(self, f):
        n = self.int()
        return [f() for _ in range(n)]

    def attrs(self):
        return self.list(lambda: (self.str(), self.int()))

    def edge(self):
        u = self.str(); v = self.str()
        return (u, v)


# ----------------------------------------------------------------------------- generators
ADV = ["a", "a.0", "a.1", "a.0.0", "a.0.1", "a.1.0", ".", ".0", ".1", "..0", "0", "1", "", "x.y", "b.", "b..", "0.0", "1.1", "a.10", "source", "sink"]


def rename(G, names):
    H = nx.DiGraph()
    for v, d in G.nodes(data=True):
        H.add_node(names[v], **d)
    for u, v, d in G.edges(data=True):
        H.add_edge(names[u], names[v], **d)
    return H


def rand_graph(rng, adversarial=False, cyclic=None, nmax=6):
    """node-weighted digraph: DAG or cyclic, isolated / single nodes possible, insertion order shuffled;
    nodes may lack the flow attribute, carry a length attribute and unrelated attributes; edges carry
    arbitrary attributes (sometimes even the flow / length attribute)."""
    cyclic = rng.random() < 0.4 if cyclic is None else cyclic
    r = rng.random()
    if r < 0.08:
        B = nx.DiGraph(); B.add_node("v0")
        if cyclic and rng.random() < 0.5:
            B.add_edge("v0", "v0")
    elif cyclic:
        B = gen.rand_cyclic(rng, nmax=nmax)
    else:
        B = gen.rand_dag(rng, nmax=nmax)
    nodes = list(B.nodes)
    if rng.random() < 0.15:
        nodes.append("iso")                     # isolated node
    if adversarial:
        pool = ADV[:]; rng.shuffle(pool)
        names = {v: pool[i] for i, v in enumerate(nodes)}
    else:
        names = {v: v for v in nodes}
    order = nodes[:]; rng.shuffle(order)
    G = nx.DiGraph()
    pmiss = rng.choice([0.0, 0.0, 0.2, 0.5])
    for v in order:
        d = {}
        keys = ["flow", "len", "col"]; rng.shuffle(keys)
        for k in keys:
            if k == "flow" and rng.random() >= pmiss: d["flow"] = rng.randint(0, 9)
            if k == "len" and rng.random() < 0.5: d["len"] = rng.randint(1, 4)
            if k == "col" and rng.random() < 0.3: d["col"] = rng.randint(0, 3)
        G.add_node(names[v], **d)
    es = list(B.edges); rng.shuffle(es)
    for u, v in es:
        d = {}
        if rng.random() < 0.3: d["w"] = rng.randint(0, 5)
        if rng.random() < 0.2: d["flow"] = rng.randint(0, 9)
        if rng.random() < 0.3: d["len"] = rng.randint(0, 4)
        G.add_edge(names[u], names[v], **d)
    return G


def rand_route(rng, G, maxlen=8):
    v = rng.choice(list(G.nodes)); w = [v]
    while len(w) < maxlen and rng.random() < 0.75:
        ss = list(G.successors(v))
        if not ss:
            break
        v = rng.choice(ss); w.append(v)
    return w


def expand_names(p):
    out = []
    for v in p:
        out += [v + ".0", v + ".1"]
    return out


def impl_call(f):
    try:
        return ("OK", f())
    except ValueError:
        return ("ERR", "ValueError")
    except IndexError:
        return ("ERR", "IndexError")
    except KeyError:
        return ("ERR", "KeyError")
    except Exception as e:                      # anything else is reported as is
        return ("ERR", type(e).__name__)


def items(d):
    return [(k, v) for k, v in d.items()]


# ----------------------------------------------------------------------------- E3
def e3_cases(ctx, n, stream, adversarial):
    import flowpaths as fp
    NE = fp.NodeExpandedDiGraph
    reqs = []; meta = []

    def add(kind, req, impl, info, prop=None):
        reqs.append(req); meta.append((kind, impl, info, prop))

    for i in range(n):
        rng = ctx.rng(stream, i)
        G = rand_graph(rng, adversarial=adversarial)
        flow = "flow"; ln = rng.choice([None, None, "len"])
        nodes = list(G.nodes)
        starts = []; ends = []; tf = False
        r = rng.random()
        if r < 0.3:
            starts = [rng.choice(nodes) for _ in range(rng.randint(0, 2))]
            ends = [rng.choice(nodes) for _ in range(rng.randint(0, 2))]
            tf = rng.random() < 0.8
            if rng.random() < 0.15:
                (starts if rng.random() < 0.5 else ends).append("nope")
        ginfo = {"nodes": [[v, items(d)] for v, d in G.nodes(data=True)], "edges": [[u, v, items(d)] for u, v, d in G.edges(data=True)],
                 "len": ln, "starts": starts, "ends": ends, "try_fill": tf}
        # --- constructor (min-cost-flow filling stubbed: external engine)
        orig_fill = NE._try_filling_in_missing_flow_values
        NE._try_filling_in_missing_flow_values = lambda self: None
        try:
            Gc = copy.deepcopy(G)
            st, ne = impl_call(lambda: NE(Gc, flow, try_filling_in_missing_flow_attr=tf, node_length_attr=ln,
                                          additional_starts=list(starts), additional_ends=list(ends)))
        finally:
            NE._try_filling_in_missing_flow_values = orig_fill
        if st == "OK":
            gsrc, gsnk = ne.global_source_id, ne.global_sink_id
            impl = ("OK", [[v, items(d)] for v, d in ne.nodes(data=True)], [[(u, v), items(d)] for u, v, d in ne.edges(data=True)],
                    [tuple(e) for e in ne.edges_to_ignore])
        else:
            gsrc, gsnk = "source0", "sink0"
            impl = ("ERR", ne)
        add("construct", "ne_construct " + common.toks(w_graph(G), w_str(flow), w_ostr(ln), w_strs(starts), w_strs(ends), tf, w_str(gsrc), w_str(gsnk)),
            impl, ginfo, prop=(G, flow))
        ctx.dist(f"{stream}:n={G.number_of_nodes()}")
        if st != "OK":
            continue
        if starts or ends or rng.random() < 0.5:
            # the remaining methods do not depend on the options; exercise them on about half of the plain graphs too
            pass
        wg = w_graph(G)
        edges = list(G.edges)
        # --- get_expanded_edge, starts, ends
        els = [rng.choice(nodes) for _ in range(2)] + ([rng.choice(edges)] if edges else []) + [rng.choice(["zz", ("zz", nodes[0]), (nodes[0], nodes[-1])])]
        for el in els:
            add("elem", "ne_elem " + common.toks(wg, w_elem(el)), impl_call(lambda: tuple(ne.get_expanded_edge(el))), {**ginfo, "elem": el})
        ls = [rng.choice(nodes + ["zz"] if rng.random() < 0.1 else nodes) for _ in range(rng.randint(0, 3))]
        add("starts", "ne_starts " + common.toks(wg, w_strs(ls)), impl_call(lambda: ne.get_expanded_additional_starts(ls)), {**ginfo, "list": ls})
        add("ends", "ne_ends " + common.toks(wg, w_strs(ls)), impl_call(lambda: ne.get_expanded_additional_ends(ls)), {**ginfo, "list": ls})
        # --- constraints
        routes = [rand_route(rng, G) for _ in range(3)]
        kind = rng.choice(["nodes", "edges", "edges", "empty", "firstempty", "badnode", "badedge"])
        if kind == "nodes" or (kind in ("edges", "badedge") and not edges):
            cons = [[v for v in r if rng.random() < 0.7] or [r[0]] for r in routes[:rng.randint(1, 3)]]
        elif kind == "edges":
            cons = []
            for r in routes[:rng.randint(1, 3)]:
                es = list(zip(r, r[1:]))
                c = [e for e in es if rng.random() < 0.7]
                cons.append(c if c else [rng.choice(edges)])
            if rng.random() < 0.2:
                cons.append([])
        elif kind == "empty":
            cons = []
        elif kind == "firstempty":
            cons = [[], [nodes[0]]]
        elif kind == "badnode":
            cons = [[nodes[0], "zz"]]
        else:
            cons = [[edges[0], (edges[0][1], "zz")]]
        add("cons", "ne_cons " + common.toks(wg, len(cons), [[len(c)] + [w_elem(e) for e in c] for c in cons]),
            impl_call(lambda: [[tuple(e) for e in c] for c in ne.get_expanded_subpath_constraints(cons)]), {**ginfo, "constraints": cons},
            prop=("cons", cons))
        # --- get_condensed_paths: true expansions (incl. empty and single-node paths) and damaged ones
        paths = [expand_names(r) for r in routes] + [[], expand_names([nodes[0]])]
        if starts:
            paths.append([gsrc + ".0", gsrc + ".1"] + expand_names(routes[0]))
        if ends:
            paths.append(expand_names(routes[0]) + [gsnk + ".0", gsnk + ".1"])
        add("condense", "ne_condense " + common.toks(wg, w_str(gsrc), w_str(gsnk), len(paths), [w_strs(p) for p in paths]),
            impl_call(lambda: ne.get_condensed_paths(paths)), {**ginfo, "paths": paths}, prop=("roundtrip", routes + [[], [nodes[0]]], len(routes) + 2))
        bad = [list(p) for p in paths[:3]]
        dmg = rng.choice(["odd", "suffix", "unknown", "swap", "single", "short"])
        b = bad[0]
        if dmg == "odd": b.append("x.0")
        elif dmg == "suffix" and b: b[0] = b[0][:-2] + ".1"
        elif dmg == "unknown" and b: b[0] = "zz.0"
        elif dmg == "swap" and len(b) >= 2: b[0], b[1] = b[1], b[0]
        elif dmg == "single": bad[0] = [nodes[0]]
        else: bad[0] = ["0", "q"]
        add("condense", "ne_condense " + common.toks(wg, w_str(gsrc), w_str(gsnk), len(bad), [w_strs(p) for p in bad]),
            impl_call(lambda: ne.get_condensed_paths(bad)), {**ginfo, "paths": bad, "damage": dmg})
        # --- get_condensed_graph on a copy with changed values on the expansion edges
        cg = copy.deepcopy(ne)
        for (u, v) in list(cg.edges):
            if rng.random() < 0.5:
                if flow in cg[u][v] or rng.random() < 0.2: cg[u][v][flow] = rng.randint(10, 19)
                if ln and rng.random() < 0.4: cg[u][v][ln] = rng.randint(10, 19)
        xe = [(u, v, d) for u, v, d in cg.edges(data=True)]
        def do_cg():
            H = cg.get_condensed_graph()
            return ([[v, items(d)] for v, d in H.nodes(data=True)], [[u, v, items(d)] for u, v, d in H.edges(data=True)])
        add("cgraph", "ne_cgraph " + common.toks(wg, len(xe), [[w_str(u), w_str(v), w_attrs(d)] for u, v, d in xe], w_str(flow), w_ostr(ln)),
            impl_call(do_cg), {**ginfo, "xedges": [[u, v, items(d)] for u, v, d in xe]}, prop=("cgraph", G))
        # --- glue: ignore list of the model classes (here: the list the constructor produced + user elements)
        ign_elems = [rng.choice(nodes) for _ in range(rng.randint(0, 2))]
        if rng.random() < 0.1: ign_elems.append("zz")
        if rng.random() < 0.1 and edges: ign_elems.append(edges[0])
        base = [tuple(e) for e in ne.edges_to_ignore]
        def do_ign():
            l = list(base)
            if not all(isinstance(x, str) for x in ign_elems):
                raise ValueError("elements_to_ignore must be a list of nodes")
            l += [ne.get_expanded_edge(x) for x in ign_elems]
            return l
        add("ignore", "ne_ignore " + common.toks(wg, w_edges(base), len(ign_elems), [w_elem(e) for e in ign_elems]),
            impl_call(do_ign), {**ginfo, "ignore": ign_elems})
    outs = ctx.model.run(reqs)
    for req, out, (kind, impl, info, prop) in zip(reqs, outs, meta):
        rd = Rd(out)
        eng = "E3_" + kind
        ctx.count(eng, "cases"); ctx.dist(f"{kind}:{impl[0] if impl[0] == 'OK' else impl[1]}")
        if not rd.ok:
            model = ("ERR", rd.err)
        elif kind == "construct":
            model = ("OK", rd.list(lambda: [rd.str(), rd.attrs()]), rd.list(lambda: [rd.edge(), rd.attrs()]), rd.list(rd.edge))
        elif kind == "elem":
            model = ("OK", rd.edge())
        elif kind in ("starts", "ends"):
            model = ("OK", rd.list(rd.str))
        elif kind == "cons":
            model = ("OK", rd.list(lambda: rd.list(rd.edge)))
        elif kind == "condense":
            model = ("OK", rd.list(lambda: rd.list(rd.str)))
        elif kind == "cgraph":
            model = ("OK", rd.list(lambda: [rd.str(), rd.attrs()]))
        elif kind == "ignore":
            model = ("OK", rd.list(rd.edge))
        impl_cmp = impl
        if kind == "cgraph" and impl[0] == "OK":
            impl_cmp = ("OK", impl[1][0])
        canon = [kind, req]
        nontriv = (impl[0] == "OK")
        ctx.case(canon, nontrivial=nontriv, sample={"kind": kind, "stream": stream, **{k: info[k] for k in info if k not in ("xedges",)}, "impl": impl_cmp if kind != "construct" else "(graph)"}
                 if ctx.evaluations % 97 == 0 else None)
        replay = {"kind": kind, "stream": stream, "info": info, "impl": impl_cmp, "model": model, "request": req}
        # the property evaluated directly on the implementation's output
        pv = None
        if impl[0] == "OK" and prop is not None:
            pv = direct_property(kind, impl, prop, info)
        if pv is not None:
            ctx.count(eng, "property_failures")
            ctx.report(f"{kind}: {pv}", replay, concrete=True)
            continue
        if json.dumps(impl_cmp, default=list) != json.dumps(model, default=list):
            ctx.count(eng, "disagreements")
            ctx.report(f"E3 correspondence broken: NodeExpandedDiGraph {kind} differs from NodeExp model (stream {stream})", replay, concrete=False)
        else:
            ctx.count(eng, "agreements")


def direct_property(kind, impl, prop, info):
    """C11 clauses that can be evaluated on the implementation's output alone."""
    if kind == "construct":
        G, flow = prop
        _, xn, xe, ign = impl
        names = [v for v, _ in xn]
        syn = 2 * ((1 if info["starts"] else 0) + (1 if info["ends"] else 0))
        if len(names) != 2 * G.number_of_nodes() + syn:
            return f"expanded graph has {len(names)} nodes for {G.number_of_nodes()} original nodes"
        ed = {e: dict(d) for e, d in xe}
        for v, d in G.nodes(data=True):
            e = (v + ".0", v + ".1")
            if e not in ed:
                return f"no expansion edge for node {v!r}"
            if flow in d:
                if ed[e].get(flow) != d[flow]:
                    return f"expansion edge of {v!r} does not carry the node's value"
                if e in ign:
                    return f"expansion edge of {v!r} (which has the attribute) is ignored"
            elif e not in ign:
                return f"node {v!r} lacks the attribute but its expansion edge is not in edges_to_ignore"
        for u, v in G.edges:
            e = (u + ".1", v + ".0")
            if e not in ed:
                return f"original edge {(u, v)} has no image"
            if e not in ign:
                return f"image of original edge {(u, v)} is not in edges_to_ignore"
        return None
    if kind == "condense" and prop[0] == "roundtrip":
        _, routes, n = prop
        got = impl[1]
        # the first len(routes)-2 .. entries of `paths` are the expansions of `routes` in this order
        k = len(routes) - 2
        want = routes[:k] + [[], routes[-1]]
        if got[:k + 2] != want:
            return f"condensing the expansion of {want} gave {got[:k + 2]}"
        for p in got:
            for v in p:
                if v.endswith(".0") and v[:-2] in p:   # cheap leak test; the exact test is the equality above
                    pass
        return None
    if kind == "cons":
        cons = prop[1]
        if cons and cons[0] and isinstance(cons[0][0], tuple):
            for c, x in zip(cons, impl[1]):
                if c and x[-1] != (c[-1][1] + ".0", c[-1][1] + ".1"):
                    return f"edge constraint {c} expanded without the trailing node: {x}"
                back = [(a[:-2], b[:-2]) for a, b in x if a.endswith(".1")]
                if back != [tuple(e) for e in c]:
                    return f"edge constraint {c} does not condense back: {x}"
        elif cons and cons[0]:
            for c, x in zip(cons, impl[1]):
                if [a[:-2] for a, b in x] != list(c) or any(a[:-2] != b[:-2] or not a.endswith(".0") or not b.endswith(".1") for a, b in x):
                    return f"node constraint {c} does not condense back: {x}"
        return None
    if kind == "cgraph":
        G = prop[1]
        nodes, edges = impl[1]
        if [v for v, _ in nodes] != list(G.nodes) or [(u, v) for u, v, _ in edges] != list(G.edges):
            return "condensed graph is not on the original nodes/edges"
        return None
    return None


def run(ctx):
    ctx.rule = ("E3 case = one call of the constructor / get_expanded_* / get_condensed_paths / get_condensed_graph / ignore glue on a random "
                "node-weighted DAG or cyclic digraph (1-8 nodes; nodes without the attribute, isolated and single nodes, length attribute, "
                "additional starts/ends; adversarial stream: names with dots, ending in .0/.1, empty name); non-trivial = the call succeeds; "
                "E2 case = one model class solved in node mode and on the model's explicit expansion; distinct by request text")
    e3_cases(ctx, ctx.budget(260, 6000), "plain", False)
    e3_cases(ctx, ctx.budget(140, 3000), "adversarial", True)
